#!/usr/bin/env python3
"""Regenerate ref/mustcall.json from the current tree (run on the pinned tree after a `fix:` commit that changes which
status-returning functions a function calls unconditionally)."""
import json, os, sys
sys.path.insert(0, os.path.dirname(os.path.dirname(os.path.abspath(__file__))))
from valib import core, err, mustcall
prog = core.load_program()
kinds = err.internal_status_kinds(prog)
snap = mustcall.snapshot(prog, kinds)
json.dump(snap, open(mustcall.REF, "w"), indent=1, sort_keys=True)
print(sum(len(v) for v in snap.values()), "must-call pairs in", len(snap), "functions")
