#!/usr/bin/env python3
"""Authoring-time: (re)write ref/schema.json from the current /repo tree (run by hand after a fix commit changed a
declaration; never run by a check)."""
import os, sys
sys.path.insert(0, os.path.dirname(os.path.dirname(os.path.abspath(__file__))))
from valib import core, schema
if os.path.exists(schema.SCHEMA):
    os.unlink(schema.SCHEMA)
prog = core.load_program()
from valib import macros
schema.write_snapshot(prog.units, macros.defined_macros(prog))
print("written", schema.SCHEMA)
