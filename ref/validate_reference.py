#!/usr/bin/env python3
"""Authoring-time validation of ref/x86_reference.json against nasm (run by hand, never by a
check): for every form a sample instruction is assembled by nasm and the mandatory prefix,
escape bytes, opcode (modulo its width scheme), /digit and VEX fields are decoded from
nasm's bytes and compared with the reference entry.  Writes ref/VALIDATION.txt."""
import json
import os
import subprocess
import sys
import tempfile

HERE = os.path.dirname(os.path.abspath(__file__))
REF = json.load(open(os.path.join(HERE, "x86_reference.json")))

GP = ["rcx", "rdx", "rbx"]
GP32 = ["ecx", "edx", "ebx"]


def operands(mn, F, fmt):
    ops = []
    gi = vi = yi = 0
    mmx = F["id"] == "mmx" or mn in ("movntq",)
    for i, k in enumerate(fmt):
        if k == "r":
            if mmx or (mn in ("movd",) and False):
                ops.append("mm%d" % (gi + 1)); gi += 1
            else:
                ops.append(GP[gi]); gi += 1
        elif k == "v":
            ops.append("xmm%d" % (vi + 1)); vi += 1
        elif k == "y":
            ops.append("ymm%d" % (yi + 1)); yi += 1
        elif k == "m":
            ops.append("[rsi]")
        elif k == "i":
            ops.append("0x12")
    return ops


def sample(mn, F):
    fmts = F["fmts"] or []
    fid = F["id"]
    # continuation forms without own formats
    if not fmts:
        if fid == "acc":
            return {"xchg": "xchg rax, rcx"}.get(mn, "%s rax, 0x12345678" % mn) if mn != "test" else "test rax, 0x12345678"
        if fid == "imm8" and F["scheme"] == "wbit":
            return "%s rcx, 5" % mn
        if fid == "imm32":
            return "push 0x12345678"
        if fid == "mi":
            return "mov qword [rsi], 0x12"
        if fid == "abs":
            return None
        return None
    fmt = fmts[0] if fmts[0] != "" else ""
    if mn in ("movd",) and fid == "load":
        return "movd xmm1, ecx"
    if mn == "movd" and fid == "store":
        return "movd ecx, xmm1"
    if mn == "movq":
        return {"gpr-load": "movq xmm1, rcx", "store": "movq [rsi], xmm1", "gpr-store": "movq rcx, xmm1", "load": "movq xmm1, xmm2"}[fid]
    if mn == "movntq":
        return "movntq [rsi], mm1"
    if mn == "movzx":
        return "movzx rcx, dl"
    if mn == "lea":
        return "lea rcx, [rsi]"
    if fid == "by1":
        return "%s rcx, 1" % mn
    if fid == "cl" and mn in ("shld", "shrd"):
        return "%s rcx, rdx, cl" % mn
    if fid == "cl":
        return "%s rcx, cl" % mn
    if mn in ("inc", "dec", "neg", "not") or (mn == "imul" and fid == "m"):
        return "%s rcx" % mn
    if mn == "push" and fid == "imm8":
        return "push byte 0x12"
    if mn.startswith("set"):
        return "%s cl" % mn
    if mn in ("clflush",) or mn.startswith("prefetch"):
        return "%s [rsi]" % mn
    if mn == "push" and fid == "m":
        return "push qword [rsi]"
    if mn == "pop" and fid == "m":
        return "pop qword [rsi]"
    if F["enc"] in ("D",) or (F["enc"] == "S"):
        if mn == "jrcxz":
            return "jrcxz $+0x12"
        if fid == "rel8":
            return "%s short $+2+0x12" % mn
        if mn == "jrcxz":
            return "jrcxz $+0x12"
        return "%s near $+0x1234" % mn if mn != "call" else "call $+0x1234"
    if mn == "xbegin":
        return "xbegin $+0x1234"
    if mn in ("jmp", "call") and fid == "ind":
        return "%s rcx" % mn
    if fmt == "":
        return mn
    if fmt == "i":
        return "%s 0x12" % mn
    ops = operands(mn, F, fmt)
    if mn in ("imul",) and fid == "rmi":
        return "imul rcx, rdx, 0x12345"
    if F.get("vex") and mn in ("bextr", "bzhi", "sarx", "shlx", "shrx", "mulx", "rorx", "pdep", "pext"):
        pass
    if mn == "psrldq":
        return "psrldq xmm1, 0x12"
    if F["scheme"] == "immgrp":
        return "%s rcx, 0x12345678" % mn
    if mn == "test" and fid == "mi":
        return "test rcx, 0x12345678"
    if mn == "mov" and fid == "oi":
        return "mov rcx, 0x1122334455667788"
    return "%s %s" % (mn, ", ".join(ops))


def nasm(line):
    with tempfile.TemporaryDirectory() as d:
        src = os.path.join(d, "a.asm")
        with open(src, "w") as f:
            f.write("BITS 64\n%s\n" % line)
        p = subprocess.run(["nasm", "-f", "bin", "-O0", "-o", os.path.join(d, "a.bin"), src], capture_output=True, text=True)
        if p.returncode:
            return None, p.stderr.strip()
        return open(os.path.join(d, "a.bin"), "rb").read(), ""


def decode(b):
    i = 0
    out = {"pfx": [], "rex": None, "esc": [], "vex": None}
    while i < len(b) and b[i] in (0x66, 0xf2, 0xf3, 0x67):
        if b[i] != 0x67:
            out["pfx"].append("%02x" % b[i])
        i += 1
    if i < len(b) and 0x40 <= b[i] <= 0x4f:
        out["rex"] = b[i]
        i += 1
    if i < len(b) and b[i] in (0xc4, 0xc5):
        if b[i] == 0xc5:
            b1 = b[i + 1]
            out["vex"] = {"map": "0f", "W": 0, "L": (b1 >> 2) & 1, "pp": ["none", "66", "f3", "f2"][b1 & 3], "two": True}
            i += 2
        else:
            b1, b2 = b[i + 1], b[i + 2]
            out["vex"] = {"map": {1: "0f", 2: "0f38", 3: "0f3a"}[b1 & 0x1f], "W": b2 >> 7, "L": (b2 >> 2) & 1,
                          "pp": ["none", "66", "f3", "f2"][b2 & 3], "two": False}
            i += 3
    else:
        if i < len(b) and b[i] == 0x0f:
            out["esc"].append("0f")
            i += 1
            if b[i] in (0x38, 0x3a):
                out["esc"].append("%02x" % b[i])
                i += 1
    out["op"] = b[i]
    out["rest"] = b[i + 1:]
    return out


def check(mn, F):
    line = sample(mn, F)
    if line is None:
        return "skip", "no sample"
    b, err = nasm(line)
    if b is None:
        return "skip", "nasm: %s (%s)" % (err.split(":")[-1].strip(), line)
    d = decode(b)
    op = int(F["op"], 16)
    sch = F["scheme"]
    want_ops = {op}
    if sch == "wbit":
        want_ops = {op, op + 1}
    elif sch == "immgrp":
        want_ops = {0x80, 0x81, 0x83}
    elif sch == "imul3":
        want_ops = {0x69, 0x6b}
    elif sch == "shrdimm":
        want_ops = {op}
    elif sch == "movimm":
        want_ops = set(range(0xb0, 0xc0))
    elif sch == "rd":
        want_ops = set(range(op, op + 8))
    probs = []
    if "vex" in F:
        v = d["vex"]
        if not v:
            probs.append("nasm used no VEX")
        else:
            if v["map"] != F["vex"]["map"]:
                probs.append("map %s" % v["map"])
            if v["pp"] != F["vex"]["pp"]:
                probs.append("pp %s" % v["pp"])
            if v["L"] != F["vex"]["L"]:
                probs.append("L %s" % v["L"])
            fw = F["vex"]["W"]
            if fw == "1" and v["W"] != 1:
                probs.append("W %s" % v["W"])
            if fw == "0" and v["W"] != 0:
                probs.append("W %s" % v["W"])
            if fw == "size" and v["W"] != 1:
                probs.append("W %s for 64-bit operands" % v["W"])
    else:
        if d["vex"]:
            probs.append("nasm used VEX")
        if d["pfx"] != F["pfx"]:
            probs.append("prefix %s" % d["pfx"])
        if d["esc"] != F["esc"]:
            probs.append("escape %s" % d["esc"])
    if d["op"] not in want_ops:
        probs.append("opcode %02x not in %s" % (d["op"], sorted("%02x" % o for o in want_ops)))
    if F["digit"] is not None and d["rest"]:
        if (d["rest"][0] >> 3) & 7 != F["digit"]:
            probs.append("/digit %d" % ((d["rest"][0] >> 3) & 7))
    if F["tail"] and sch != "pushm":
        t = [int(x, 16) for x in F["tail"]]
        if list(d["rest"][:len(t)]) != t:
            probs.append("tail %s" % d["rest"][:len(t)].hex())
    return ("ok" if not probs else "MISMATCH"), "%s -> %s %s" % (line, b.hex(), "; ".join(probs))


def main():
    lines = []
    cnt = {"ok": 0, "MISMATCH": 0, "skip": 0}
    for mn in sorted(REF["forms"]):
        for F in REF["forms"][mn]:
            st, msg = check(mn, F)
            cnt[st] += 1
            lines.append("%-8s %-12s %-10s %s" % (st, mn, F["id"], msg))
    for k, v in sorted(REF["nops"].items(), key=lambda kv: int(kv[0])):
        lines.append("nop%-5s %s (Intel SDM table 4-12 recommended multi-byte NOP)" % (k, " ".join(v)))
    with open(os.path.join(HERE, "VALIDATION.txt"), "w") as f:
        f.write("validation of x86_reference.json against nasm %s\n%s\n\n" % (
            subprocess.run(["nasm", "-v"], capture_output=True, text=True).stdout.strip(), cnt))
        f.write("\n".join(lines) + "\n")
    print(cnt)
    for l in lines:
        if l.startswith("MISMATCH") or l.startswith("skip"):
            print(l)


if __name__ == "__main__":
    main()
