#!/usr/bin/env python3
"""Authoring tool for ref/x86_reference.json (run by hand, never by a check).

The reference is written from the Intel SDM instruction pages.  Each mnemonic
maps to the list of its encodings ("forms") in the vocabulary the TAB engine
decodes table rows into:

  id       name of the form inside the mnemonic
  enc      operand-encoding class as the repo names it (MR RM RVM RMV M O I D S, or "-" = no operands)
  pfx      mandatory legacy prefixes in front of REX (["66"], ["f3"], ["f2"])
  esc      escape bytes between REX and the opcode ([], ["0f"], ["0f","38"], ["0f","3a"])
  op       architectural opcode byte (for width-dependent opcodes: the 8-bit one)
  scheme   fixed | wbit | immgrp | imul3 | shrdimm | movimm | rd | pushm
  digit    /digit in ModRM.reg, or null
  ib       the encoding ends in an imm8 that the table marks with an `ib` cell
           (true / false / "any": the encoder handles the immediate itself)
  modrm    a ModRM byte follows the opcode
  tail     fixed bytes after the opcode (e.g. lfence 0f ae | e8)
  fmts     operand-kind tuples the ISA defines for this form, in the repo's kind
           alphabet (r scalar/mm register, v xmm, y ymm, m memory, i immediate; "" = no operand)
  follows  id of the form this one is reached from by a key increment, or null
  vex      for VEX forms: pp, map, L, W ("0" "1" "ig" "size")
"""
import json
import os

CC = {"o": 0, "no": 1, "b": 2, "c": 2, "nae": 2, "ae": 3, "nb": 3, "nc": 3, "e": 4, "z": 4, "ne": 5, "nz": 5,
      "be": 6, "na": 6, "a": 7, "nbe": 7, "s": 8, "ns": 9, "p": 10, "pe": 10, "np": 11, "po": 11,
      "l": 12, "nge": 12, "ge": 13, "nl": 13, "le": 14, "ng": 14, "g": 15, "nle": 15}

R = {}


def form(id, enc, op, scheme="fixed", pfx=(), esc=(), digit=None, ib=False, modrm=False, tail=(), fmts=(),
         follows=None, vex=None, rex=None):
    d = {"id": id, "enc": enc, "pfx": list(pfx), "esc": list(esc), "op": "%02x" % op, "scheme": scheme,
         "digit": digit, "ib": ib, "modrm": modrm, "tail": ["%02x" % t for t in tail], "fmts": sorted(fmts),
         "follows": follows}
    if vex:
        d["vex"] = vex
    d["rex"] = (modrm or scheme in ("rd", "movimm", "pushm") or enc == "I" and scheme == "wbit") if rex is None else rex
    return d


def add(mn, *forms):
    R.setdefault(mn, []).extend(forms)


# ---- ALU group -------------------------------------------------------------
for mn, k in (("add", 0), ("or", 1), ("adc", 2), ("sbb", 3), ("and", 4), ("sub", 5), ("xor", 6), ("cmp", 7)):
    add(mn,
        form("mr", "MR", 8 * k, "wbit", modrm=True, fmts=("rr", "mr")),
        form("rm", "RM", 8 * k + 2, "wbit", modrm=True, fmts=("rr", "rm")),
        form("mi", "M", 0x80, "immgrp", digit=k, modrm=True, fmts=("mi", "ri")),
        form("acc", "I", 8 * k + 4, "wbit", fmts=(), follows="mi"))

add("test",
    form("mr", "MR", 0x84, "wbit", modrm=True, fmts=("rr", "mr")),
    form("mi", "M", 0xf6, "wbit", digit=0, modrm=True, fmts=("mi", "ri")),
    form("acc", "I", 0xa8, "wbit", fmts=(), follows="mi"))

# ---- shifts / rotates --------------------------------------------------------
for mn, n in (("rol", 0), ("ror", 1), ("rcl", 2), ("rcr", 3), ("shl", 4), ("sal", 4), ("shr", 5), ("sar", 7)):
    add(mn,
        form("by1", "M", 0xd0, "wbit", digit=n, ib="any", modrm=True, fmts=("mi", "ri")),
        form("imm8", "M", 0xc0, "wbit", digit=n, ib=True, modrm=True, fmts=(), follows="by1"),
        form("cl", "M", 0xd2, "wbit", digit=n, modrm=True, fmts=("mr", "rr")))

add("shld",
    form("imm8", "MR", 0xa4, esc=["0f"], ib=True, modrm=True, fmts=("rri", "mri")),
    form("cl", "MR", 0xa5, esc=["0f"], modrm=True, fmts=("rrr", "mrr")))
add("shrd",
    form("imm8", "MR", 0xac, "shrdimm", esc=["0f"], ib="any", modrm=True, fmts=("rri", "mri")),
    form("cl", "MR", 0xad, esc=["0f"], modrm=True, fmts=("rrr", "mrr")))

# ---- unary group ---------------------------------------------------------------
add("inc", form("m", "M", 0xfe, "wbit", digit=0, modrm=True, fmts=("r", "m")))
add("dec", form("m", "M", 0xfe, "wbit", digit=1, modrm=True, fmts=("r", "m")))
add("not", form("m", "M", 0xf6, "wbit", digit=2, modrm=True, fmts=("r", "m")))
add("neg", form("m", "M", 0xf6, "wbit", digit=3, modrm=True, fmts=("r", "m")))
add("imul",
    form("rmi", "RM", 0x69, "imul3", modrm=True, ib="any", fmts=("rri", "rmi")),
    form("rm", "RM", 0xaf, esc=["0f"], modrm=True, fmts=("rr", "rm")),
    form("m", "M", 0xf6, "wbit", digit=5, modrm=True, fmts=("r", "m")))

# ---- data transfer ----------------------------------------------------------------
add("mov",
    form("mr", "MR", 0x88, "wbit", modrm=True, fmts=("rr", "mr")),
    form("rm", "RM", 0x8a, "wbit", modrm=True, fmts=("rr", "rm")),
    form("oi", "I", 0xb0, "movimm", fmts=("ri", "mi")),
    form("mi", "M", 0xc6, "wbit", digit=0, modrm=True, fmts=(), follows="oi"))
add("movzx", form("rm", "RM", 0xb6, esc=["0f"], modrm=True, fmts=("rr", "rm")))
add("lea", form("rm", "RM", 0x8d, modrm=True, fmts=("rm",)))
add("xchg",
    form("rm", "RM", 0x86, "wbit", modrm=True, fmts=("rr", "rm", "mr")),
    form("acc", "I", 0x90, "rd", fmts=(), follows="rm"))
add("push",
    form("o", "O", 0x50, "rd", fmts=("r",)),
    form("m", "O", 0xff, "pushm", fmts=("m",)),
    form("imm8", "I", 0x6a, ib=True, fmts=("i",)),
    form("imm32", "I", 0x68, fmts=(), follows="imm8"))
add("pop",
    form("o", "O", 0x58, "rd", fmts=("r",)),
    form("m", "M", 0x8f, digit=0, modrm=True, fmts=("m",)))
for mn, cc in CC.items():
    add("cmov" + mn, form("rm", "RM", 0x40 + cc, esc=["0f"], modrm=True, fmts=("rr", "rm")))
    add("set" + mn, form("m", "M", 0x90 + cc, esc=["0f"], digit=0, modrm=True, fmts=("r", "m")))
    add("j" + mn,
        form("rel32", "D", 0x80 + cc, esc=["0f"], fmts=("i",)),
        form("rel8", "S", 0x70 + cc, ib=True, fmts=("i",), follows="rel32"))
add("jmp",
    form("rel32", "D", 0xe9, fmts=("i",)),
    form("rel8", "S", 0xeb, ib=True, fmts=("i",), follows="rel32"),
    form("ind", "O", 0xff, digit=4, modrm=True, fmts=("r", "m")))
add("call",
    form("rel32", "D", 0xe8, fmts=("i",)),
    form("ind", "O", 0xff, digit=2, modrm=True, fmts=("r", "m")),
    # `call [disp32]` spelled out as fixed bytes ff 14 25 (ModRM 14 = /2 with SIB, SIB 25 = no base, no index)
    form("abs", "D", 0xff, tail=[0x14, 0x25], fmts=()))
add("jrcxz", form("rel8", "S", 0xe3, ib=True, fmts=("i",)))
add("ret", form("near", "-", 0xc3, fmts=("",)))
add("xbegin", form("rel32", "-", 0xc7, tail=[0xf8], fmts=("i",)))
add("xabort", form("imm8", "I", 0xc6, tail=[0xf8], ib=True, fmts=("i",)))
add("xend", form("np", "-", 0x01, esc=["0f"], tail=[0xd5], fmts=("",)))

# ---- no-operand instructions ----------------------------------------------------------
add("clc", form("np", "-", 0xf8, fmts=("",)))
add("cpuid", form("np", "-", 0xa2, esc=["0f"], fmts=("",)))
add("rdpmc", form("np", "-", 0x33, esc=["0f"], fmts=("",)))
add("rdtsc", form("np", "-", 0x31, esc=["0f"], fmts=("",)))
add("rdtscp", form("np", "-", 0x01, esc=["0f"], tail=[0xf9], fmts=("",)))
add("lfence", form("np", "-", 0xae, esc=["0f"], tail=[0xe8], fmts=("",)))
add("mfence", form("np", "-", 0xae, esc=["0f"], tail=[0xf0], fmts=("",)))
add("sfence", form("np", "-", 0xae, esc=["0f"], tail=[0xf8], fmts=("",)))
add("clflush", form("m", "M", 0xae, esc=["0f"], digit=7, modrm=True, fmts=("m",)))
for mn, d in (("prefetchnta", 0), ("prefetcht0", 1), ("prefetcht1", 2), ("prefetcht2", 3)):
    add(mn, form("m", "M", 0x18, esc=["0f"], digit=d, modrm=True, fmts=("m",)))

# ---- ADX / BMI2 (VEX) -------------------------------------------------------------------
add("adcx", form("rm", "RM", 0xf6, pfx=["66"], esc=["0f", "38"], modrm=True, fmts=("rr", "rm")))
add("adox", form("rm", "RM", 0xf6, pfx=["f3"], esc=["0f", "38"], modrm=True, fmts=("rr", "rm")))


def vex(pp, mp, L, W):
    return {"pp": pp, "map": mp, "L": L, "W": W}


add("bextr", form("rmv", "RMV", 0xf7, modrm=True, fmts=("rrr", "rmr"), vex=vex("none", "0f38", 0, "size")))
add("bzhi", form("rmv", "RMV", 0xf5, modrm=True, fmts=("rrr", "rmr"), vex=vex("none", "0f38", 0, "size")))
add("sarx", form("rmv", "RMV", 0xf7, modrm=True, fmts=("rrr", "rmr"), vex=vex("f3", "0f38", 0, "size")))
add("shlx", form("rmv", "RMV", 0xf7, modrm=True, fmts=("rrr", "rmr"), vex=vex("66", "0f38", 0, "size")))
add("shrx", form("rmv", "RMV", 0xf7, modrm=True, fmts=("rrr", "rmr"), vex=vex("f2", "0f38", 0, "size")))
add("mulx", form("rvm", "RVM", 0xf6, modrm=True, fmts=("rrr", "rrm"), vex=vex("f2", "0f38", 0, "size")))
add("pdep", form("rvm", "RVM", 0xf5, modrm=True, fmts=("rrr", "rrm"), vex=vex("f2", "0f38", 0, "size")))
add("pext", form("rvm", "RVM", 0xf5, modrm=True, fmts=("rrr", "rrm"), vex=vex("f3", "0f38", 0, "size")))
add("rorx", form("rmi", "RM", 0xf0, modrm=True, ib=True, fmts=("rri", "rmi"), vex=vex("f2", "0f3a", 0, "size")))

# ---- MMX / SSE ---------------------------------------------------------------------------
# name: (opcode, escape, has an MMX form)
PACKED = {"paddb": (0xfc, ["0f"], True), "paddw": (0xfd, ["0f"], True), "paddd": (0xfe, ["0f"], True),
          "paddq": (0xd4, ["0f"], True), "psubb": (0xf8, ["0f"], True), "psubw": (0xf9, ["0f"], True),
          "psubd": (0xfa, ["0f"], True), "psubq": (0xfb, ["0f"], True), "pand": (0xdb, ["0f"], True),
          "pandn": (0xdf, ["0f"], True), "por": (0xeb, ["0f"], True), "pxor": (0xef, ["0f"], True),
          "pmulhuw": (0xe4, ["0f"], True), "pmulhw": (0xe5, ["0f"], True), "pmullw": (0xd5, ["0f"], True),
          "pmuludq": (0xf4, ["0f"], True), "pmulhrsw": (0x0b, ["0f", "38"], True),
          "pmulld": (0x40, ["0f", "38"], False), "pmuldq": (0x28, ["0f", "38"], False),
          "punpcklqdq": (0x6c, ["0f"], False)}
for mn, (op, esc, mmx) in PACKED.items():
    add(mn, form("sse", "RM", op, pfx=["66"], esc=esc, modrm=True, fmts=("vv", "vm")))
    if mmx:
        add(mn, form("mmx", "RM", op, esc=esc, modrm=True, fmts=("rr", "rm")))
    vop = {"pfx": "66", "esc": esc}
    add("v" + mn,
        form("256", "RVM", op, modrm=True, fmts=("yyy", "yym"),
             vex=vex("66", "".join(esc), 1, "ig")),
        form("128", "RVM", op, modrm=True, fmts=("vvv", "vvm"),
             vex=vex("66", "".join(esc), 0, "ig")))
for mn, op in (("addpd", 0x58), ("mulpd", 0x59), ("subpd", 0x5c), ("divpd", 0x5e)):
    add(mn, form("sse", "RM", op, pfx=["66"], esc=["0f"], modrm=True, fmts=("vv", "vm")))
    add("v" + mn,
        form("256", "RVM", op, modrm=True, fmts=("yyy", "yym"), vex=vex("66", "0f", 1, "ig")),
        form("128", "RVM", op, modrm=True, fmts=("vvv", "vvm"), vex=vex("66", "0f", 0, "ig")))
add("cvtdq2pd", form("sse", "RM", 0xe6, pfx=["f3"], esc=["0f"], modrm=True, fmts=("vv", "vm")))
add("cvtpd2dq", form("sse", "RM", 0xe6, pfx=["f2"], esc=["0f"], modrm=True, fmts=("vv", "vm")))
add("psrldq", form("imm8", "M", 0x73, pfx=["66"], esc=["0f"], digit=3, ib="any", modrm=True, fmts=("vi",)))
add("movd",
    form("load", "RM", 0x6e, pfx=["66"], esc=["0f"], modrm=True, fmts=("vr", "vm")),
    form("store", "MR", 0x7e, pfx=["66"], esc=["0f"], modrm=True, fmts=("rv", "mv")))
add("movq",
    form("gpr-load", "RM", 0x6e, pfx=["66"], esc=["0f"], modrm=True, fmts=("vr",)),
    form("store", "MR", 0xd6, pfx=["66"], esc=["0f"], modrm=True, fmts=("mv", "vv")),
    form("gpr-store", "MR", 0x7e, pfx=["66"], esc=["0f"], modrm=True, fmts=("rv",)),
    form("load", "RM", 0x7e, pfx=["f3"], esc=["0f"], modrm=True, fmts=("vv", "vm")))
add("movntdqa", form("load", "RM", 0x2a, pfx=["66"], esc=["0f", "38"], modrm=True, fmts=("vm",)))
add("movntq", form("store", "MR", 0xe7, esc=["0f"], modrm=True, fmts=("mr",)))

# ---- AVX moves and permutes -----------------------------------------------------------------------
for mn, pp, ld, stq in (("vmovupd", "66", 0x10, 0x11), ("vmovdqu", "f3", 0x6f, 0x7f), ("vmovdqa", "66", 0x6f, 0x7f),
                        ("vmovupd", "66", 0x10, 0x11)):
    if mn in R:
        continue
    add(mn,
        form("load256", "RM", ld, modrm=True, fmts=("yy", "ym"), vex=vex(pp, "0f", 1, "ig")),
        form("store256", "MR", stq, modrm=True, fmts=("yy", "my"), vex=vex(pp, "0f", 1, "ig")),
        form("load128", "RM", ld, modrm=True, fmts=("vv", "vm"), vex=vex(pp, "0f", 0, "ig")),
        form("store128", "MR", stq, modrm=True, fmts=("vv", "mv"), vex=vex(pp, "0f", 0, "ig")))
add("vpermd", form("256", "RVM", 0x36, modrm=True, fmts=("yyy", "yym"), vex=vex("66", "0f38", 1, "0")))
add("vperm2i128", form("256", "RVM", 0x46, modrm=True, ib=True, fmts=("yyyi", "yymi"), vex=vex("66", "0f3a", 1, "0")))
add("vperm2f128", form("256", "RVM", 0x06, modrm=True, ib=True, fmts=("yyyi", "yymi"), vex=vex("66", "0f3a", 1, "0")))

# ---- NOPs ----------------------------------------------------------------------------------------------
NOPS = {1: [0x90], 2: [0x66, 0x90], 3: [0x0f, 0x1f, 0x00], 4: [0x0f, 0x1f, 0x40, 0x00],
        5: [0x0f, 0x1f, 0x44, 0x00, 0x00], 6: [0x66, 0x0f, 0x1f, 0x44, 0x00, 0x00],
        7: [0x0f, 0x1f, 0x80, 0, 0, 0, 0], 8: [0x0f, 0x1f, 0x84, 0, 0, 0, 0, 0],
        9: [0x66, 0x0f, 0x1f, 0x84, 0, 0, 0, 0, 0], 10: [0x66, 0x66, 0x0f, 0x1f, 0x84, 0, 0, 0, 0, 0],
        11: [0x66, 0x66, 0x66, 0x0f, 0x1f, 0x84, 0, 0, 0, 0, 0]}

OUT = {
    "_doc": __doc__,
    "forms": R,
    "nops": {str(k): ["%02x" % b for b in v] for k, v in NOPS.items()},
    "cc": CC,
}

if __name__ == "__main__":
    here = os.path.dirname(os.path.abspath(__file__))
    with open(os.path.join(here, "x86_reference.json"), "w") as f:
        json.dump(OUT, f, indent=1, sort_keys=True)
    print("wrote %d mnemonics, %d forms" % (len(R), sum(len(v) for v in R.values())))
