"""C16 - letter case, spacing, comments: the case clause."""
from valib.core import (AnalysisBroken, kids, strip, walk, expr_str, loc_str, qtype, ref_name, callee_name, call_args, ConstEval)
from valib import eff as EFF
from valib import pipeline as PL

LEVEL = "other"


def _lvalue_leaves(e):
    """source texts of the maximal lvalue sub-expressions (array elements, dereferences, members, variables) read by e"""
    out = []

    def rec(n):
        n = strip(n, casts=True)
        if n is None:
            return
        k = n.get("kind")
        if k in ("ArraySubscriptExpr", "MemberExpr") or (k == "UnaryOperator" and n.get("opcode") == "*") or \
                (k == "DeclRefExpr" and (n.get("referencedDecl") or {}).get("kind") in ("VarDecl", "ParmVarDecl")):
            out.append(expr_str(n))
            return
        for c in kids(n):
            rec(c)
    rec(e)
    return sorted(set(out))


def lowers_ascii(prog, r, guards=()):
    """is the stored value, as a function of the one input character it reads, ASCII tolower()?  True / False / None (cannot tell).
    guards: [(condition node, truth)] of the enclosing if-statements; a condition that reads only the same character restricts the
    codes the store can see (`else if (c == ' ') out[j++] = c;` stores a blank)."""
    leaves = _lvalue_leaves(r)
    if len(leaves) != 1:
        return None
    try:
        for v in range(0, 128):
            feasible = True
            for cnd, truth in guards:
                if _lvalue_leaves(cnd) != leaves:
                    continue
                try:
                    if bool(ConstEval(prog, env_text={leaves[0]: v}).eval(cnd)) != truth:
                        feasible = False
                        break
                except Exception:
                    continue
            if not feasible:
                continue
            got = ConstEval(prog, env_text={leaves[0]: v}).eval(r)
            want = v + 32 if 65 <= v <= 90 else v
            if got & 0xff != want:
                return False
    except Exception:
        return None
    return True


def case_rule(chk, prog, roles):
    lp = prog.fn(roles.line_parser)
    raw = [p["name"] for p in prog.params(lp) if "char" in qtype(p) and "const" in qtype(p)]
    if len(raw) != 1:
        raise AnalysisBroken("line parser %s: raw text parameter not identified" % roles.line_parser)
    raw = raw[0]
    # the filter: the callee that receives the raw text together with a local array
    filt = None
    for c in walk(prog.body(lp)):
        if c.get("kind") == "CallExpr" and callee_name(c) in prog.functions:
            a = call_args(c)
            if any(ref_name(x) == raw for x in a) and len(a) >= 2:
                filt = (callee_name(c), c)
    if filt is None:
        raise AnalysisBroken("the filter called by %s was not found" % roles.line_parser)
    fname, fcall = filt
    f = prog.fn(fname)
    outp = [p["name"] for p, x in zip(prog.params(f), call_args(fcall)) if ref_name(x) != raw and "char" in qtype(p)]
    chk.analysed["filter"] = fname
    # CASE1: every store into the filtered buffer is tolower(...) of something or a constant
    n = 0
    from valib.core import walk_with_parents
    for m, parents in walk_with_parents(prog.body(f)):
        if m.get("kind") in ("BinaryOperator", "CompoundAssignOperator") and m.get("opcode", "").endswith("=") and m.get("opcode") not in ("==", "!=", "<=", ">="):
            l = strip(kids(m)[0])
            if EFF.lvalue_root(l)[0] in outp and l.get("kind") in ("ArraySubscriptExpr", "UnaryOperator"):
                n += 1
                r = strip(kids(m)[1], casts=True)
                ok = (r.get("kind") == "CallExpr" and callee_name(r) == "tolower") or ConstEval(prog).try_eval(r) is not None
                if not ok and m.get("opcode") == "=":
                    # a hand-written fold (possibly a helper whose body was substituted into the call): evaluate it on every ASCII code
                    guards = []
                    chain = list(parents) + [m]
                    for pi, pn in enumerate(chain[:-1]):
                        if pn.get("kind") == "IfStmt":
                            pk = kids(pn)
                            nxt = chain[pi + 1]
                            if len(pk) > 1 and nxt is pk[1]:
                                guards.append((pk[0], True))
                            elif len(pk) > 2 and nxt is pk[2]:
                                guards.append((pk[0], False))
                    low = lowers_ascii(prog, r, guards)
                    if low is None:
                        chk.broken("CASE", "CASE/store/%s@%s" % (fname, loc_str(m)), loc_str(m),
                                   "every character stored into the filtered line is the lower-case form of the input (or a constant)",
                                   "cannot evaluate %s" % expr_str(m)[:80])
                        continue
                    ok = low
                chk.require(ok and m.get("opcode") == "=", "CASE", "CASE/store/%s@%s" % (fname, loc_str(m)), loc_str(m),
                            "every character stored into the filtered line is tolower(...) of the input (or a constant)", expr_str(m))
    chk.floor("stores into the filtered line", n, 4)
    # CASE2: the raw text goes nowhere but into the filter; everything downstream sees the filtered buffer
    for c in walk(prog.body(lp)):
        if c.get("kind") == "CallExpr":
            for x in call_args(c):
                if EFF.lvalue_root(strip(x, casts=True))[0] == raw and callee_name(c) != fname:
                    chk.bad("CASE", "CASE/raw-escapes/%s" % callee_name(c), loc_str(c),
                            "the unfiltered text is handed only to the filter", "passed to %s" % callee_name(c))
    chk.ok("CASE", "CASE/raw-only-to-filter", loc_str(lp), "in %s the raw text is handed only to %s" % (roles.line_parser, fname))
    # the driver hands its cursor only to the line parser
    drv = prog.fn(roles.driver)
    cur = [m["name"] for m in walk(prog.body(drv)) if m.get("kind") == "VarDecl" and qtype(m).replace(" ", "") == "constchar*"]
    for c in walk(prog.body(drv)):
        if c.get("kind") == "CallExpr":
            for x in call_args(c):
                if EFF.lvalue_root(strip(x, casts=True))[0] in cur + [p["name"] for p in prog.params(drv) if "char" in qtype(p)]:
                    chk.require(callee_name(c) == roles.line_parser, "CASE", "CASE/driver/%s" % callee_name(c), loc_str(c),
                                "the driver hands the program text only to the line parser", "passed to %s" % callee_name(c))
    return fname


def run(chk, prog, tier):
    roles = PL.Roles(prog)
    case_rule(chk, prog, roles)
    # the spelling of one line cannot reach another: the per-line record is fresh for every line
    from checks import C06
    C06.fresh_record_rule(chk, prog, roles, rule="FRESH")
    # radix: what one displacement scanner decides through the shared out-parameter is not reset by the next one
    PL.outparam_kill_rule(chk, prog)
    # blanks / line ends: the scan never depends on the raw column; CR, LF and CRLF end a line and leave the rest for the next call
    from valib import scan as SC
    SC.column_independence_rule(chk, prog, roles)
    SC.noswallow_rule(chk, prog, roles)
    SC.comment_cannot_fail_rule(chk, prog, roles)
    SC.room_only_when_emitting_rule(chk, prog, roles)
    # "except in SMART mode": the spelling of a constant may matter only while the option state really is SMART - the setters put
    # the option field into the state their name promises (the option model of C12, decided here as a premise)
    from checks import C12
    expl, assum = chk.explanation, list(chk.assumptions)
    C12.run(chk, prog, tier)
    chk.assumptions = assum + [a for a in chk.assumptions if a not in assum]
    chk.model = None
    chk.explanation = ("Decides the case clause: every character stored into the filtered line buffer is tolower() of the "
                       "input and nothing downstream of the filter ever sees the raw text, so no later stage can depend on letter "
                       "case. Also decides (COLUMN) that no condition of the filter uses the raw-text cursor as a value "
                       "(so where a line is cut cannot depend on how many blanks precede or separate its tokens) and (LINE) by a "
                       "prefix-concrete abstract interpretation that LF and CR each end a line consuming exactly themselves, so CRLF is an "
                       "LF line followed by an empty line. The option model of C12 is decided as a premise (the spelling exception is tied to SMART mode). NOT decided: blank removal inside the filter's states, comments beyond their "
                       "introducer stopping the filter, labels and number radix (a hand-written scanner over values).")
