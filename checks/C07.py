"""C07 - no write outside the buffer: gating, provenance and sentinel clauses."""
from valib.core import (AnalysisBroken, ConstEval, kids, strip, walk, walk_with_parents, expr_str, loc_str, qtype, ref_name,
                        callee_name, call_args)
from valib.macros import macro_values
from valib import eff as EFF
from valib import pipeline as PL
from valib import chunk as CH
from valib import absint as ABS

LEVEL = "other"

# an instruction the library demonstrably emits: 66 67 REX C7 ModRM SIB disp32 imm32 (`mov word [r8d+r9d*2+disp32], imm`)
LONGEST_KNOWN_INSTRUCTION = 18       # `adc word [r8d+r9d*8-0x11223344], 0x1122334455667788` (67 66 REX 81 ModRM SIB disp32 imm64)


def _is_unsigned(qt):
    qt = qt.replace("const ", "").strip()
    return qt.startswith("unsigned") or qt in ("size_t", "uint32_t", "uint64_t", "uint8_t", "uint16_t")


def linear(prog, e, syms, defs=None, hazards=None):
    """e as {symbol: coeff} + const over the given symbol recognisers, or None; single-assignment locals are
    looked through (defs); subtractions carried out in, or converted to, an unsigned type are recorded as wrap hazards"""
    if hazards is not None and e.get("kind") in ("ImplicitCastExpr", "CStyleCastExpr") and _is_unsigned(qtype(e)):
        inner = strip(e, casts=True)
        if inner.get("kind") == "BinaryOperator" and inner.get("opcode") == "-" and not _is_unsigned(qtype(inner)):
            hazards.append("(%s)(%s)" % (qtype(e), expr_str(inner)))
    e = strip(e, casts=True)
    v = ConstEval(prog).try_eval(e)
    if v is not None:
        return {"": v}
    for name, pred in syms.items():
        if pred(e):
            return {name: 1}
    if defs and e.get("kind") == "DeclRefExpr" and ref_name(e) in defs:
        return linear(prog, defs[ref_name(e)], syms, defs, hazards)
    if e.get("kind") == "BinaryOperator" and e.get("opcode") in ("+", "-"):
        if e["opcode"] == "-" and hazards is not None:
            if _is_unsigned(qtype(e)):
                hazards.append(expr_str(e))
        a, b = linear(prog, kids(e)[0], syms, defs, hazards), linear(prog, kids(e)[1], syms, defs, hazards)
        if a is None or b is None:
            return None
        out = dict(a)
        for k, c in b.items():
            out[k] = out.get(k, 0) + (c if e["opcode"] == "+" else -c)
        return out
    return None


def room_predicate(chk, prog, roles):
    """normalise the room test: fail-or-grow iff position + K > buffer_len"""
    f = prog.fn(roles.room_check)
    ps = prog.params(f)
    inst, pos = ps[0]["name"], ps[1]["name"]
    syms = {"pos": lambda e: ref_name(e) == pos,
            "len": lambda e: e.get("kind") == "MemberExpr" and e.get("name") == "buffer_len" and ref_name(kids(e)[0]) == inst}
    body = kids(prog.body(f))
    first_if = next((s for s in body if s.get("kind") == "IfStmt" and
                     any(m.get("kind") == "MemberExpr" and m.get("name") == "buffer_len" for m in walk(kids(s)[0]))), None) or \
        next((s for s in body if s.get("kind") == "IfStmt"), None)
    if first_if is None:
        raise AnalysisBroken("room check %s has no test" % roles.room_check)
    c = strip(kids(first_if)[0])
    # two shapes: `if (not enough room) { fail or grow }` ... or `if (enough room) return success; fail or grow`
    then = kids(first_if)[1]
    then_stmts = kids(then) if then.get("kind") == "CompoundStmt" else [then]
    inverted = (len(kids(first_if)) == 2 and len(then_stmts) == 1 and then_stmts[0].get("kind") == "ReturnStmt" and
                kids(then_stmts[0]) and ConstEval(prog).try_eval(kids(then_stmts[0])[0]) == 0)
    if inverted:
        region = body[body.index(first_if) + 1:]
    else:
        region = then_stmts
    roles._room_region = region
    K = None
    defs = {}
    for m in walk(prog.body(f)):
        if m.get("kind") == "VarDecl" and kids(m):
            defs[m["name"]] = kids(m)[-1]
    for m in walk(prog.body(f)):      # locals assigned again are not single-assignment
        if m.get("kind") in ("BinaryOperator", "CompoundAssignOperator") and m.get("opcode", "").endswith("=") and \
                m.get("opcode") not in ("==", "!=", "<=", ">=") and ref_name(kids(m)[0]) in defs:
            defs.pop(ref_name(kids(m)[0]), None)
    hazards = []
    if c.get("kind") == "BinaryOperator" and c.get("opcode") in (">", "<", ">=", "<="):
        l, r = linear(prog, kids(c)[0], syms, defs, hazards), linear(prog, kids(c)[1], syms, defs, hazards)
        if l is not None and r is not None:
            d = dict(l)
            for k, v in r.items():
                d[k] = d.get(k, 0) - v          # l - r  (op) 0
            op = c["opcode"]
            if inverted:                        # the test says "enough room": the complement is what we normalise
                op = {"<": ">=", "<=": ">", ">": "<=", ">=": "<"}[op]
            if op in ("<", "<="):
                d = {k: -v for k, v in d.items()}
                op = {"<": ">", "<=": ">="}[op]
            # now: d > 0 (or >= 0) means "not enough room"
            if d.get("pos") == 1 and d.get("len") == -1 and set(d) <= {"pos", "len", ""}:
                K = d.get("", 0) + (0 if op == ">" else 1)     # pos - len + c >= 0  ==  pos + c + 1 > len
    where = loc_str(first_if)
    if K is None:
        chk.broken("ROOM", "ROOM/predicate", where, "the room test is a linear comparison of position and buffer_len", expr_str(c))
        return None, first_if
    mv = macro_values(prog, ["BUFFER_TOLERANCE", "MEM_BUFFER"])
    chk.require(not hazards, "ROOM", "ROOM/wrap", where,
                "the room test is evaluated without an unsigned subtraction (which wraps when the buffer is shorter than the reserve or the position is beyond it)",
                "unsigned subtraction %s" % hazards)
    chk.require(K >= 20, "ROOM", "ROOM/reserve", where,
                "an instruction is only written when buffer_len - position >= K with K >= 20 (the documented reserve)", "K = %d" % K)
    chk.require(K >= LONGEST_KNOWN_INSTRUCTION, "RESV", "RESV/longest-known", where,
                "the reserve covers the %d-byte instruction the library demonstrably emits" % LONGEST_KNOWN_INSTRUCTION, "K = %d" % K)
    chk.require(mv["MEM_BUFFER"] >= K, "RESV", "RESV/growth-step", "src/common.h",
                "one growth step (MEM_BUFFER) restores the reserve", "MEM_BUFFER %d < K %d" % (mv["MEM_BUFFER"], K))
    return K, first_if


def external_rule(chk, prog, roles, first_if):
    """inside the not-enough-room branch an external (caller-owned) buffer fails before anything else happens"""
    f = prog.fn(roles.room_check)
    inst = prog.params(f)[0]["name"]
    stmts = getattr(roles, "_room_region", None)
    if stmts is None:
        then = kids(first_if)[1]
        stmts = kids(then) if then.get("kind") == "CompoundStmt" else [then]
    ok = False
    if stmts and stmts[0].get("kind") == "IfStmt":
        c = strip(kids(stmts[0])[0])
        if c.get("kind") == "MemberExpr" and c.get("name") == "external" and ref_name(kids(c)[0]) == inst:
            rets = [m for m in walk(kids(stmts[0])[1]) if m.get("kind") == "ReturnStmt"]
            ok = bool(rets) and all(ConstEval(prog).try_eval(kids(r)[0]) not in (0, None) for r in rets)
    chk.require(ok, "ROOM", "ROOM/external-fails", loc_str(stmts[0]) if stmts else loc_str(first_if),
                "with a caller-provided buffer, lack of room returns EXIT_FAILURE before any growth or write",
                "first statement of the branch: %s" % (expr_str(kids(stmts[0])[0]) if stmts and stmts[0].get("kind") == "IfStmt" else "not an `if (external)`"))
    # every path through the routine that returns success either had enough room or grew the buffer: inside the
    # not-enough-room region a success return only comes after the statement that enlarges buffer_len
    succ_after_fail = False
    grown = False
    for st in stmts:
        for m in walk(st):
            if m.get("kind") == "ReturnStmt" and kids(m) and ConstEval(prog).try_eval(kids(m)[0]) == 0 and not grown:
                succ_after_fail = True
        if any(m.get("kind") in ("CompoundAssignOperator", "BinaryOperator") and m.get("opcode") in ("+=", "=") and
               strip(kids(m)[0], casts=True).get("kind") == "MemberExpr" and strip(kids(m)[0], casts=True).get("name") == "buffer_len"
               for m in walk(st)):
            grown = True
    chk.require(not succ_after_fail, "ROOM", "ROOM/no-success-without-room", loc_str(first_if),
                "without enough room success is returned only after the buffer was enlarged", "a `return EXIT_SUCCESS` before buffer_len grows")


def who_rule(chk, prog, roles):
    """only the encoder's callees and the padding writer store through byte pointers; they are called only from the emitters;
    nobody else stores through <instance>->buffer"""
    g = roles.g
    lib = prog.lib_functions()
    enc = (EFF.reachable(g, [roles.encode]) | {roles.padder}) & set(lib)
    n = 0
    for fn, f in sorted(lib.items()):
        ptrs = {p["name"] for p in prog.params(f) if qtype(p).replace("const ", "") in ("uint8_t *", "unsigned char *")}
        for m in walk(prog.body(f)):
            if m.get("kind") == "VarDecl" and qtype(m) in ("uint8_t *", "unsigned char *"):
                ptrs.add(m["name"])
        for a in EFF.accesses(prog.body(f)):
            nd = strip(a.node)
            through_ptr = a.root in ptrs and (nd.get("kind") == "ArraySubscriptExpr" or (nd.get("kind") == "UnaryOperator" and nd.get("opcode") == "*"))
            through_field = a.owner == "assemblyline" and a.field == "buffer" and nd.get("kind") in ("ArraySubscriptExpr", "UnaryOperator")
            if (through_ptr or through_field) and a.ctx in ("w", "rw"):
                n += 1
                chk.require(fn in enc, "WHO", "WHO/store/%s/%s" % (fn, a.text[:30]), loc_str(a.node),
                            "only the encoder and the padding writer store through byte pointers into the code buffer", "%s in %s" % (a.text, fn))
    chk.floor("byte stores through pointers", n, 12)
    for target in (roles.encode, roles.padder):
        callers = EFF.callers_of(g, target)
        chk.require(set(callers) <= set(roles.emitters) | {roles.driver}, "WHO", "WHO/callers/%s" % target, loc_str(prog.fn(target)),
                    "%s is called only from the per-instruction emitters (where the room check gates it)" % target, "callers %s" % callers)
    for em in roles.emitters:
        if em == roles.driver:
            continue
        callers = [c for c in EFF.callers_of(g, em) if c != em]       # a retry written as a tail call is not another caller
        pads = roles.padder in g.get(em, ())
        # an emitter that never pads may also be the building block of another emitter; the padding one is reached from the driver only
        ok = callers == [roles.driver] or (not pads and set(callers) <= {roles.driver} | set(roles.emitters) and roles.driver in callers)
        chk.require(ok, "WHO", "WHO/callers/%s" % em, loc_str(prog.fn(em)),
                    "%s is called only from the per-line driver" % em, "callers %s" % callers)


def run(chk, prog, tier):
    roles = PL.Roles(prog)
    chk.analysed["roles"] = roles.describe()
    PL.gate_rule(chk, prog, roles)
    CH.emitter_shape_rules(chk, prog, roles, want=("DEST", "ROOMPOS", "ADV"), rule="SHAPE")
    who_rule(chk, prog, roles)
    K, first_if = room_predicate(chk, prog, roles)
    if first_if is not None:
        external_rule(chk, prog, roles, first_if)
    res = ABS.run_world(prog)
    n = ABS.report(chk, res, ("SENT",))
    chk.floor("offset-to-position conversions", n, 1)
    ABS.report(chk, res, ("IDX",), rule_map={"IDX": "PAD"}, fn_filter=lambda o: o["fn"] == roles.padder)
    from checks import C17
    C17.atomic_rule(chk, prog, [roles.room_check])
    from valib import bytelen as BL
    BL.usub_rule(chk, prog)
    chk.explanation = (
        "Decides: (GATE) in each emitter every call that stores into the buffer is dominated, with the position unchanged, by a "
        "passed room check for that position; (SHAPE) the store goes to <instance>->buffer + position and the position advances "
        "only by lengths actually written; (WHO) only the encoder and the padding writer store through byte pointers and they are "
        "called only from the emitters; (ROOM) the room test passes only when buffer_len - position >= K with K >= 20, an external "
        "buffer fails instead of growing; (SENT) a negative offset never becomes a write position; (PAD) the padding table index "
        "is bounded; (USUB) the zero-padding counts `K - bytes` cannot wrap: the byte count is tested first or the emitted value "
        "is at most K bytes wide by the type it has at every call site. ASSUMED, not verified: K bytes suffice for the longest instruction the encoder can emit (a lower bound of 18 "
        "bytes is checked). The assumption was false on the pinned tree for one input class - a constant written before a scaled "
        "index was emitted twice, 22 bytes with a 67h prefix and an 8-byte immediate - which is repaired (fix 996e89e); the per-stage "
        "maxima that can be read off the emitters (prefixes 2, opcode cells, ModRM/SIB, displacement 5, absolute address 5, immediate 8) "
        "add up to more than K, so a static bound does not settle it: the stages exclude one another only through run-time values.")
    chk.assumptions += ["no instruction plus padding written between two room checks exceeds the reserve K"]
