"""C01 - integer instructions on registers: table and constant layer."""
from valib import tabrules as TR
from valib.tabrules import Tab
from valib import construles as CR

LEVEL = "other"


def run(chk, prog, tier):
    tab = Tab(prog)
    # general-purpose rows, including the VEX-encoded BMI2 forms that operate on general registers
    gp = lambda r: not tab.is_vector(r) or r.ident.get("type") == "VECTOR_EXT"
    TR.t1_wellformed(chk, tab, select=gp)
    TR.t1e_exhaustive(chk, tab)
    matched, unref = TR.t2_reference(chk, tab, gp, rule="T2")
    TR.t3_siblings(chk, tab)
    nreg = TR.t4_registers(chk, prog)
    CR.t5_arch_constants(chk, prog)
    CR.t6_modrm_shape(chk, prog)
    from valib import succ as SUCC
    SUCC.succ_rule(chk, tab, prog, only={("name", "push"), ("name", "xchg"), ("type", "DATA_TRANSFER"), ("type", "SHIFT"),
                                         ("type", "OPERATION"), ("type", "PAD_ALWAYS")})
    SUCC.sibling_guard_rule(chk, prog)
    SUCC.class_rules(chk, prog)
    SUCC.bare_rex_rule(chk, prog)
    SUCC.implicit_keyword_rule(chk, prog)
    from valib import pipeline as PLo
    PLo.prefix_after_rewrite_rule(chk, prog)
    from valib import pipeline as PL
    from valib import cover as CV
    roles = PL.Roles(prog)
    CV.cover_rule(chk, prog, roles)
    from valib import chunk as CH
    CH.emitter_shape_rules(chk, prog, roles, want=("DEST", "ADV"), rule="ADV")
    # mnemonics and register names are looked up in lower case: whatever the filter stores is the lower-case form of the input
    from checks import C16
    C16.case_rule(chk, prog, roles)
    # a call that assembled (or failed) in another mode leaves the instance's mode as it was: the next plain call assembles plainly
    PL.restore_rule(chk, prog, roles, rule="KEEP", fields=("assembly_mode", "chunk_size"))
    TR.signcmp_rule(chk, tab, prog)
    CR.radix_rule(chk, prog)
    ngp = sum(1 for r in tab.rows[3:-1] if gp(r))
    chk.floor("general-purpose rows", ngp, 200)
    chk.floor("general-purpose rows matched against the reference", matched, 200)
    chk.analysed.update({"rows": len(tab.rows), "general_purpose_rows": ngp, "rows_matched": matched,
                         "rows_without_reference": unref, "register_rows": nreg})
    chk.explanation = (
        "Decides the table and constant layer of C01: every general-purpose INSTR_TABLE row is evaluated from the AST "
        "and compared with a hand-written x86 reference (prefix, map, opcode under its width scheme, /digit, encoding "
        "class, imm8 and +rd markers), with its sibling rows, with the lookup code's structural needs (contiguity, "
        "letter runs, terminator), REG_TABLE with the architectural register names/numbers, the REX/ModRM constants "
        "and the shape of the ModRM composition. Byte count = offset advance is decided structurally: every encoder function "
        "returns exactly the number of leading bytes it wrote (COVER) and the emitters advance the position by that value (ADV). "
        "NOT decided: which REX/0x66/width offset the encoder computes for a given register tuple (runtime value logic).")
    chk.assumptions += ["ref/x86_reference.json transcribes the Intel SDM correctly",
                        "the encoder applies the width schemes (w-bit, imm-group, imul3, shrd-imm, mov-imm) as src/README.md documents"]
