"""C02 - memory operands: addressing constants and composition shape."""
from valib import construles as CR

LEVEL = "other"


def run(chk, prog, tier):
    CR.c02_addressing_constants(chk, prog)
    CR.t6_modrm_shape(chk, prog, rule="T6")
    CR.t6_modrm_shape(chk, prog, rule="T6s", want_sib=True)
    CR.nobase_mod_rule(chk, prog)
    from valib import pipeline as PLo
    PLo.prefix_after_rewrite_rule(chk, prog)
    from valib import pipeline as PL
    from valib import cover as CV
    roles = PL.Roles(prog)
    PL.encoder_idempotence_rule(chk, prog, roles)     # displacement emission must not consume the record (it is assembled again when chunk fitting pads)
    CV.cover_rule(chk, prog, roles)                   # displacement / SIB bytes: every byte below the returned length is written
    PL.outparam_kill_rule(chk, prog)                  # the radix / sign one displacement scanner decides is not reset by the next one
    CR.radix_rule(chk, prog)                          # `[rsp+010]` is ten, as nasm reads it
    CR.mem_index_rule(chk, prog)
    PL.zero_read_rule(chk, prog, roles)               # no addressing decision consults a field the later stages compute
    from valib import opt as OPTM
    OPTM.record_bits_rule(chk, prog)                  # the SIB option bits of the line are the instance's (the immediate scanner only resolves the mov-immediate bits)
    chk.explanation = (
        "Decides necessary structural conditions of C02 only: the mod/SIB/no-base constants have their architectural "
        "values, the scale switch accepts exactly 1,2,4,8 and maps them to the SIB scale bits, ModRM is composed as "
        "mod | reg<<3 | rm (rm=100b for SIB) and SIB as scale | index<<3 | base with the index/base fields of the "
        "operand in those positions; a base-less operand (base=101b) always gets mod=00; the emitter does not consume the "
        "record and writes every byte it counts; what one displacement scanner stores through a shared out-parameter (radix, "
        "sign) is not unconditionally overwritten by the scanner called next (OUTKILL); stores into the per-line copy of the option field never touch the SIB option bits (RECBITS); strtoul is always given the scanner's radix, 10 or 16 (RADIX). NOT decided: displacement scanning and sign handling, mod selection by "
        "magnitude, rbp/r13 and rsp/r12 special cases, equivalence of NASM rewriting - all value logic on runtime strings.")
