"""C14 - chunk counting: reset, mode selection, sibling agreement of the emitters."""
from valib import pipeline as PL
from valib import chunk as CH

LEVEL = "other"


def run(chk, prog, tier):
    roles = PL.Roles(prog)
    chk.analysed["roles"] = roles.describe()
    CH.reset_rule(chk, prog, roles)
    CH.counting_mode_rule(chk, prog, roles)
    CH.emitter_shape_rules(chk, prog, roles, want=("DEST", "ROOMPOS", "ADV", "GRID"), rule="SIB3")
    CH.counting_increment_rule(chk, prog, roles)
    CH.division_sites_rule(chk, prog, roles)
    PL.gate_rule(chk, prog, roles)
    # the room test is the same in every mode: counting needs the room plain assembly needs, not a chunk more
    from checks import C07
    C07.room_predicate(chk, prog, roles)
    from valib import eff as EFF
    from valib.core import loc_str
    rc = prog.fn(roles.room_check)
    moded = sorted({a.field for a in EFF.accesses(prog.body(rc)) if a.owner == "assemblyline" and a.field in ("assembly_mode", "chunk_size")})
    chk.require(not moded, "ROOMMODE", "ROOMMODE/%s" % roles.room_check, loc_str(rc),
                "the room check does not look at the mode or the chunk size (counting succeeds exactly where plain assembly does)",
                "reads %s" % moded)
    chk.explanation = (
        "Decides: the driver zeroes the result before the per-line loop and every non-failing path of the counting entry "
        "points goes through it with the caller's pointer; the counting entry selects ASSEMBLE exactly when chunk_size < 2 "
        "and CHUNK_COUNT with the caller's size otherwise; the three emitters agree on room check -> encode at "
        "buffer+position -> advance by the returned length, so counting emits what plain assembly emits; free space is "
        "chunk_size - position % chunk_size measured from the buffer start; the counter is incremented exactly under "
        "written > free space. NOT decided: arithmetic correctness of the crossing predicate for every (c, position, length).")
