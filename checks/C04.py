"""C04 - MMX/SSE/AVX/BMI2 forms: table layer."""
from valib import tabrules as TR
from valib.tabrules import Tab
from valib import construles as CR

LEVEL = "other"


def run(chk, prog, tier):
    tab = Tab(prog)
    vec = lambda r: tab.is_vector(r)
    TR.t1_wellformed(chk, tab, select=vec)
    TR.t1e_exhaustive(chk, tab)
    matched, unref = TR.t2_reference(chk, tab, vec, rule="T2v")
    TR.t3v_vector_siblings(chk, tab)
    CR.t5v_vex_layout(chk, prog)
    TR.t4_registers(chk, prog)
    from valib import pipeline as PLo
    PLo.prefix_after_rewrite_rule(chk, prog)
    from valib import pipeline as PL
    PL.encoder_idempotence_rule(chk, prog, PL.Roles(prog))
    CR.mem_index_rule(chk, prog)                      # a third-position memory operand (VEX RVM) is found by whatever locates `the memory operand`
    nvec = sum(1 for r in tab.rows[3:-1] if vec(r))
    nvex = sum(1 for r in tab.rows[3:-1] if tab.dec[r.idx].get("vex"))
    chk.floor("vector rows", nvec, 105)
    chk.floor("VEX rows", nvex, 58)
    chk.floor("vector rows matched against the reference", matched, 105)
    chk.analysed.update({"vector_rows": nvec, "vex_rows": nvex, "rows_matched": matched, "rows_without_reference": unref})
    chk.explanation = (
        "Decides the table layer of C04: for every MMX/SSE/AVX/BMI2 row the mandatory prefix, opcode map, opcode, "
        "encoding class (RM/MR/RVM/RMV), imm8 marker and, for VEX rows, pp/mmmmm/L/W are decoded from the cell "
        "values exactly as assemble_VEX consumes them and compared with the x86 reference and with sibling rows "
        "(legacy twin, 128/256 twin, MMX/SSE twin); the VEX descriptor macros are checked against the architectural "
        "field positions; a computed memory-operand position covers the third operand (MEMIDX). NOT decided: 2- vs 3-byte VEX choice, R/X/B inversion and vvvv for a given operand tuple.")
    chk.assumptions += ["ref/x86_reference.json transcribes the Intel SDM correctly"]
