"""C13 - chunk fitting: NOP tables, index bound, mode invariant."""
from valib import tabrules as TR
from valib.tabrules import Tab

LEVEL = "other"


def run(chk, prog, tier):
    tab = Tab(prog)
    n = TR.nop_rules(chk, tab, prog)
    TR.t2_reference(chk, tab, lambda r: tab.mnemonic(r) == "nop", rule="NOPROW")
    try:
        from valib import chunk as CH
    except ImportError:
        CH = None
    if CH is not None:
        CH.c13_rules(chk, prog)
    from checks import C15
    C15.narrow_store_rule(chk, prog)      # every chunk size the setter accepts is the chunk size that is used
    chk.explanation = (
        "Decides: FIXED_NOP_LENGTH[k] has exactly k+1 bytes and is the recommended multi-byte NOP of that length; the "
        "nopN rows agree; the padding writer's table index and length are bounded (interval analysis); chunk "
        "fitting is only active with a size >= 2; the free space handed to the padding writer is computed from the "
        "write position itself and the chunk size. NOT decided: that padding appears only where needed and that every "
        "shorter instruction ends up inside one chunk (a predicate over runtime values).")
