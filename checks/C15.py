"""C15 - an instance's earlier history does not influence later results:
instance-state discipline."""
from valib.core import kids, strip, walk, expr_str, loc_str, qtype, ref_name, callee_name, call_args, ConstEval
from valib import eff as EFF
from valib import pipeline as PL
from valib.flow import Flow

LEVEL = "other"


class InitDomain:
    """which fields of the freshly allocated instance have been assigned (a must-set); helpers that receive the instance are
    summarised: fields assigned on every return, and fields assigned on every return of 0 (added where the caller's branch
    establishes that the helper returned 0)"""

    def __init__(self, inst, prog=None, depth=0):
        self.inst, self.prog, self.depth = inst, prog, depth
        self.rets = []

    def copy(self, s): return s
    def join(self, a, b): return a & b
    def equal(self, a, b): return a == b
    def widen(self, o, n): return n

    def decl(self, vd, s):
        for c in kids(vd):
            s = self.eval(c, s)
        return s

    def _summary(self, call):
        """(fields assigned on all returns, fields assigned on all returns of 0) of a helper given the instance"""
        if self.prog is None or self.depth > 3:
            return frozenset(), frozenset()
        cn = callee_name(call)
        lib = self.prog.lib_functions()
        if cn not in lib:
            return frozenset(), frozenset()
        ps = self.prog.params(lib[cn])
        pname = None
        for p, a in zip(ps, call_args(call)):
            if ref_name(strip(a, casts=True)) == self.inst and strip(a, casts=True).get("kind") == "DeclRefExpr":
                pname = p["name"]
        if pname is None:
            return frozenset(), frozenset()
        sub = InitDomain(pname, self.prog, self.depth + 1)
        end = Flow(sub).function(self.prog, lib[cn], frozenset())
        alls, succ = None, None
        rets = list(sub.rets) + ([(None, end)] if end is not None else [])
        for n, st in rets:
            alls = st if alls is None else alls & st
            v = ConstEval(self.prog).try_eval(strip(kids(n)[0], casts=True)) if (n is not None and kids(n)) else None
            if n is None or v == 0 or v is None:
                succ = st if succ is None else succ & st
        return alls or frozenset(), succ or frozenset()

    def eval(self, e, s):
        for m in walk(strip(e) or {}):
            if m.get("kind") in ("BinaryOperator",) and m.get("opcode") == "=":
                l = strip(kids(m)[0])
                if l.get("kind") == "MemberExpr" and ref_name(kids(l)[0]) == self.inst:
                    s = s | {l.get("name")}
            if m.get("kind") == "CallExpr":
                s = s | self._summary(m)[0]
        return s

    def assume(self, e, t, s):
        e0 = strip(e)
        call, zero = None, None
        if e0.get("kind") == "CallExpr":
            call, zero = e0, (not t)
        elif e0.get("kind") == "BinaryOperator" and e0.get("opcode") in ("==", "!="):
            l, r = strip(kids(e0)[0], casts=True), strip(kids(e0)[1], casts=True)
            for a, b in ((l, r), (r, l)):
                if a.get("kind") == "CallExpr" and self.prog is not None and ConstEval(self.prog).try_eval(b) == 0:
                    call, zero = a, ((e0["opcode"] == "==") == t)
        if call is not None and zero:
            s = s | self._summary(call)[1]
        return s

    def ret(self, n, s):
        self.rets.append((n, s))


class _ErrnoDomain:
    """errno is process-wide state that survives from earlier calls: a read of it is only a statement about the present call
    when the same function cleared it first (state 'clean'); every other read makes the result depend on history"""

    def __init__(self, prog=None, depth=0):
        self.viol, self.nreads = [], 0
        self.prog, self.depth = prog, depth
        self.rets = []

    def copy(self, s): return s
    def join(self, a, b): return "clean" if a == b == "clean" else "dirty"

    def _callee_clears(self, name):
        """does the library function leave errno cleared-then-only-set-by-its-own-calls on every return"""
        if self.prog is None or self.depth > 3 or name not in self.prog.lib_functions():
            return False
        f = self.prog.lib_functions()[name]
        sub = _ErrnoDomain(self.prog, self.depth + 1)
        end = Flow(sub).function(self.prog, f, "dirty")
        states = [st for _, st in sub.rets] + ([end] if end is not None else [])
        return bool(states) and all(st == "clean" for st in states)
    def equal(self, a, b): return a == b
    def widen(self, o, n): return n

    @staticmethod
    def _is_errno(e):
        e = strip(e, casts=True)
        if e.get("kind") == "UnaryOperator" and e.get("opcode") == "*":
            c = strip(kids(e)[0], casts=True)
            return c.get("kind") == "CallExpr" and callee_name(c) == "__errno_location"
        return e.get("kind") == "DeclRefExpr" and ref_name(e) == "errno"

    def decl(self, vd, s):
        for c in kids(vd):
            s = self.eval(c, s)
        return s

    def eval(self, e, s):
        e0 = strip(e)
        if not e0:
            return s
        ks = kids(e0)
        if e0.get("kind") == "BinaryOperator" and e0.get("opcode") == "=" and self._is_errno(ks[0]):
            s = self.eval(ks[1], s)
            v = strip(ks[1], casts=True)
            return "clean" if v.get("kind") == "IntegerLiteral" and int(v.get("value", "1")) == 0 else "dirty"
        if self._is_errno(e0):
            self.nreads += 1
            if s != "clean":
                self.viol.append(e0)
            return s
        for c in ks:
            s = self.eval(c, s)
        if e0.get("kind") == "CallExpr" and callee_name(e0) != "__errno_location" and self._callee_clears(callee_name(e0)):
            s = "clean"
        return s

    def assume(self, e, t, s): return s

    def ret(self, n, s):
        self.rets.append((n, s))


def errno_rule(chk, prog, rule="ERRNO"):
    n = 0
    for fn, f in sorted(prog.lib_functions().items()):
        if not any(m.get("kind") == "CallExpr" and callee_name(m) == "__errno_location" or
                   (m.get("kind") == "DeclRefExpr" and ref_name(m) == "errno") for m in walk(prog.body(f))):
            continue
        dom = _ErrnoDomain(prog)
        Flow(dom).function(prog, f, "dirty")
        n += dom.nreads
        if dom.viol:
            chk.bad(rule, "%s/%s" % (rule, fn), loc_str(dom.viol[0]),
                    "errno is read only after the same function cleared it (a value left by an earlier call is history)",
                    "%s reads errno that may have been set before this call" % fn)
        else:
            chk.ok(rule, "%s/%s" % (rule, fn), loc_str(f), "%s reads errno only after clearing it" % fn)
    chk.ok(rule, "%s/inventory" % rule, "src/", "errno reads in the library: %d, each preceded by a clear in the same function" % n)


def setter_history_rule(chk, prog, setters, rule="HIST"):
    """what a setter does is a function of its arguments: it does not read the result state of the instance (position, buffer,
    its grown length, the finalized flag), which depends on everything assembled before"""
    n = 0
    for fn in sorted(s_ for s_ in setters if s_ != "asm_create_instance"):
        f = prog.functions.get(fn)
        if f is None:
            continue
        n += 1
        reads = sorted({a.field for a in EFF.accesses(prog.body(f)) if a.owner == "assemblyline" and a.ctx in ("r", "rw") and
                        a.field in PL.INSTANCE_FIELDS_RESULT})
        chk.require(not reads, rule, "%s/%s" % (rule, fn), loc_str(f),
                    "%s does not read the result state of the instance (its effect cannot depend on what was assembled before)" % fn,
                    "reads %s" % reads)
    # the offset setter belongs to the same family
    f = prog.functions.get("asm_set_offset")
    if f is not None:
        n += 1
        reads = sorted({a.field for a in EFF.accesses(prog.body(f)) if a.owner == "assemblyline" and a.ctx in ("r", "rw") and
                        a.field in ("buffer_len", "buffer", "finalized")})
        chk.require(not reads, rule, "%s/asm_set_offset" % rule, loc_str(f),
                    "asm_set_offset does not look at the buffer or its (grown) length", "reads %s" % reads)
    chk.floor("setters", n, 6)


def narrow_store_rule(chk, prog, rule="NARROW"):
    """a configuration value is stored into the instance without losing bits: the field is at least as wide as the integer
    that is assigned to it (a size_t chunk size stored into an 8-bit field is a different chunk size)"""
    from valib.bytelen import SIZES
    n = 0

    def width(qt):
        qt = qt.replace("const ", "").replace("volatile ", "").strip()
        td = prog.typedefs.get(qt)
        if td is not None and qt not in SIZES:
            qt = qtype(td).strip()
        if qt.startswith("enum ") or qt in prog.typedefs and "enum" in qtype(prog.typedefs[qt]):
            return 4
        return SIZES.get(qt)
    for fn, f in sorted(prog.lib_functions().items()):
        for m in walk(prog.body(f)):
            if m.get("kind") != "BinaryOperator" or m.get("opcode") != "=":
                continue
            l = strip(kids(m)[0], casts=True)
            if l.get("kind") != "MemberExpr" or EFF.owner_field(l)[0] != "assemblyline" or l.get("name") not in PL.INSTANCE_FIELDS_CONFIG:
                continue
            if l.get("isBitfield") or "bool" in qtype(l) or "_Bool" in qtype(l):
                continue
            r = kids(m)[1]
            inner = r
            while inner.get("kind") in ("ImplicitCastExpr", "ParenExpr"):
                inner = kids(inner)[0]
            if ConstEval(prog).try_eval(strip(r, casts=True)) is not None:
                continue
            wl, wr = width(qtype(l)), width(qtype(inner))
            if wl is None or wr is None:
                continue
            n += 1
            chk.require(wl >= wr or inner.get("kind") == "MemberExpr", rule, "%s/%s/%s" % (rule, fn, l.get("name")), loc_str(m),
                        "the field %s (%d bytes) holds every value of the %d-byte expression stored into it" % (l.get("name"), wl, wr),
                        "%s = %s narrows %s to %s" % (expr_str(l), expr_str(strip(r, casts=True)), qtype(inner), qtype(l)))
    chk.floor("stores of variable values into configuration fields", n, 2)


def init_rule(chk, prog, fields, rule="INIT", what="every field of the instance"):
    """creation initialises the given fields on every successful path"""
    create = prog.fn("asm_create_instance")
    inst = None
    for m in walk(prog.body(create)):
        if m.get("kind") == "VarDecl" and "assemblyline" in qtype(m):
            inst = m["name"]
            break
    if inst is None:
        chk.broken(rule, rule + "/create", loc_str(create), "asm_create_instance allocates the instance into a local", "no local of instance type")
        return
    dom = InitDomain(inst, prog)
    Flow(dom).function(prog, create, frozenset())
    nsucc = 0
    for n, s in dom.rets:
        v = ConstEval(prog).try_eval(strip(kids(n)[0], casts=True)) if kids(n) else None
        if v == 0:
            continue
        nsucc += 1
        missing = [f for f in fields if f not in s]
        chk.require(not missing, rule, "%s/create@%s" % (rule, loc_str(n)), loc_str(n),
                    "a successful asm_create_instance has assigned %s" % what, "unassigned: %s" % missing)
    chk.floor("successful returns of asm_create_instance", nsucc, 1)


def run(chk, prog, tier):
    roles = PL.Roles(prog)
    chk.analysed["roles"] = roles.describe()
    fields = PL.instance_fields(prog)
    chk.analysed["instance_fields"] = fields
    chk.floor("instance fields", len(fields), 9)
    known = set(PL.INSTANCE_FIELDS_CONFIG) | set(PL.INSTANCE_FIELDS_RESULT)
    for f in fields:
        if f in known:
            chk.ok("FIELDS", "FIELDS/classified/%s" % f, "src/instruction_data.h", "instance field %s is classified as configuration or result state" % f)
        else:
            # a field this checker has never seen: nothing can be said about it (analysis broken, not a violation)
            chk.broken("FIELDS", "FIELDS/classified/%s" % f, "src/instruction_data.h",
                       "instance field %s is classified as configuration or result state" % f,
                       "new field: decide whether an assemble call may change it")
    # save/restore discipline
    netdirty, details = PL.config_discipline(prog, roles)
    setters = {"asm_set_chunk_size": {"assembly_mode", "chunk_size"}, "asm_set_debug": {"debug"},
               "asm_mov_imm": {"assembly_opt"}, "asm_sib": {"assembly_opt"}, "asm_sib_index_base_swap": {"assembly_opt"},
               "asm_sib_no_base": {"assembly_opt"}, "asm_set_all": {"assembly_opt"},
               "asm_create_instance": set(PL.INSTANCE_FIELDS_CONFIG)}
    for fn in sorted(netdirty):
        f = prog.fn(fn)
        if fn in roles.entries or fn == roles.driver or fn in roles.emitters or fn == roles.room_check:
            for n, s in details[fn]:
                chk.require(not s["dirty"], "RESTORE", "RESTORE/%s@%s" % (fn, loc_str(n)), loc_str(n),
                            "every return of %s leaves the configuration fields (%s) as they were at entry" % (fn, ", ".join(PL.INSTANCE_FIELDS_CONFIG)),
                            "fields still modified on this path: %s" % sorted(s["dirty"]))
        elif f.get("storageClass") != "static":
            if fn in setters:
                allowed = setters[fn]
            elif len(prog.params(f)) >= 2:
                # a public function this checker does not know that takes values besides the instance: a (new) setter; what it
                # configures is its documented purpose, as for the known ones that it may be composed of
                allowed = set(PL.INSTANCE_FIELDS_CONFIG)
            else:
                allowed = set()       # getters / destroy / anything that only takes the instance must leave the configuration alone
            chk.require(set(netdirty[fn]) <= allowed, "RESTORE", "RESTORE/setter/%s" % fn, loc_str(f),
                        "%s changes only the configuration fields it documents (%s)" % (fn, sorted(allowed)),
                        "also changes %s" % sorted(set(netdirty[fn]) - allowed))
    chk.floor("assemble entry points", len(roles.entries), 6)
    from valib import chunk as CH
    CH.setter_mode_rule(chk, prog)
    # which result fields may the assemble family write (interprocedural)
    fx = EFF.field_effects(prog, roles.g)
    for fn in roles.entries:
        w = set()
        for r in EFF.reachable(roles.g, [fn]):
            if r in fx:
                w |= {fld for (own, fld) in fx[r]["w"] if own == "assemblyline"}
        extra = w - set(PL.INSTANCE_FIELDS_RESULT) - set(PL.INSTANCE_FIELDS_CONFIG)
        chk.require(not extra, "FIELDS", "FIELDS/writes/%s" % fn, loc_str(prog.fn(fn)),
                    "%s writes only known instance fields" % fn, "writes %s" % sorted(extra))
    # creation initialises every field on every successful path
    init_rule(chk, prog, fields)
    # destroy touches only its argument
    de = fx.get("asm_destroy_instance")
    if de is not None:
        chk.require(not de["gw"] and not de["gr"], "FIELDS", "FIELDS/destroy", loc_str(prog.fn("asm_destroy_instance")),
                    "asm_destroy_instance touches only the instance it is given", "globals %s" % sorted(de["gw"] | de["gr"]))
    # no hidden state (shared with C06/C18)
    from checks import C18
    muts = [n for _, fn, n in C18.static_objects(prog) if not C18._is_const_object(n["type"]["qualType"])]
    for n in muts:
        chk.require(n["type"]["qualType"].startswith("_Atomic") and n["name"].endswith("_index"), "STATE",
                    "STATE/static/%s" % n["name"], loc_str(n), "the only mutable statics are the first-letter index tables (rebuilt identically on every create)",
                    "%s %s" % (n["type"]["qualType"], n["name"]))
    chk.floor("mutable statics", len(muts), 2)
    from checks import C17
    # the room check and the static helpers it reaches (growth may live in a helper of its own)
    lib = prog.lib_functions()
    rc_fns = sorted(fn for fn in EFF.reachable(roles.g, [roles.room_check]) if fn in lib and
                    (fn == roles.room_check or lib[fn].get("storageClass") == "static"))
    n = C17.atomic_rule(chk, prog, rc_fns)
    chk.floor("failing returns of the room check", n, 2)
    errno_rule(chk, prog)
    setter_history_rule(chk, prog, setters)
    narrow_store_rule(chk, prog)
    # emitted bytes do not depend on what an earlier call left in the buffer: every encoder function writes every byte below
    # the length it returns (symbolic write-coverage), and never reads its destination
    from valib import cover as CV
    CV.cover_rule(chk, prog, roles)
    # the option field after a sequence of setter calls depends on the last call of each dimension only (the option model of C12,
    # decided here as a premise: a bit left behind by an earlier mode would make the result depend on the history)
    from checks import C12
    expl_, assum_ = chk.explanation, list(chk.assumptions)
    C12.run(chk, prog, tier)
    chk.assumptions = assum_ + [a for a in chk.assumptions if a not in assum_]
    chk.model = None
    chk.explanation = expl_
    try:
        from valib import absint as ABS
        ABS.sentinel_rule(chk, prog, roles)
    except ImportError:
        pass
    chk.explanation = ("Decides the instance-state discipline: every field of struct assemblyline is classified; for every "
                       "assemble entry point (and the helpers it reaches) a flow analysis shows that each configuration field "
                       "written inside is restored, on every path to every return, from a local that saved its entry value; "
                       "setters change only their documented fields; creation initialises all fields; destroy touches only "
                       "its argument; there is no hidden static state besides the idempotent index tables; a negative offset "
                       "is never used as a write position. NOT decided: byte equality with a fresh instance.")
