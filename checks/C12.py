"""C12 - option setters compose as documented (extracted finite model)."""
import itertools
import json
import os

from valib.core import (VERIF, AnalysisBroken, ConstEval, NotConstant, kids, strip, walk, walk_with_parents,
                        expr_str, loc_str, qtype, ref_name)
from valib.macros import macro_values
from valib import eff as EFF
from valib.opt import SetterInterp, Xfer, FIELD, FULL

LEVEL = "model_checking"


def _contract():
    with open(os.path.join(VERIF, "ref", "contract_options.json")) as f:
        return json.load(f)


def run(chk, prog, tier):
    con = _contract()
    mk = con["masks"]
    mv = macro_values(prog, list(mk.values()) + ["DEFAULT"])
    M = {role: mv[name] for role, name in mk.items()}
    lib_enum = prog.enums
    for v in ("STRICT", "NASM", "SMART"):
        if v not in lib_enum:
            raise AnalysisBroken("enum asm_opt enumerator %s not found" % v)
    OPT = {v: lib_enum[v] for v in ("STRICT", "NASM", "SMART")}
    chk.analysed["masks"] = {mk[r]: M[r] for r in M}
    chk.analysed["asm_opt"] = OPT

    # ---- Bits -------------------------------------------------------------
    where = "src/common.h"
    for role, val in M.items():
        chk.require(val > 0 and val & (val - 1) == 0 and val <= 0xff, "BITS", "BITS/single/" + mk[role], where,
                    "%s is a single bit that fits the 8-bit option field" % mk[role], "value %#x" % val)
    for a, b in itertools.combinations(sorted(M), 2):
        chk.require(M[a] != M[b], "BITS", "BITS/distinct/%s,%s" % (mk[a], mk[b]), where,
                    "%s and %s are different bits" % (mk[a], mk[b]), "both %#x" % M[a])
    chk.require(len(set(OPT.values())) == 3, "BITS", "BITS/asm_opt", "src/assemblyline.h",
                "STRICT, NASM, SMART are three different values", str(OPT))
    for st in ("assemblyline", "instr"):
        rec = prog.records.get(st)
        if rec is None:
            raise AnalysisBroken("struct %s not found" % st)
        fld = [c for c in kids(rec) if c.get("kind") == "FieldDecl" and c.get("name") == FIELD]
        if not fld:
            raise AnalysisBroken("struct %s has no field %s" % (st, FIELD))
        bits = 8 if "uint8_t" in fld[0]["type"]["qualType"] or "char" in qtype(fld[0]) else 32
        chk.require(all(v < (1 << bits) for v in M.values()), "BITS", "BITS/fits/" + st, loc_str(fld[0]),
                    "all option masks fit struct %s.%s" % (st, FIELD), "field type %s" % qtype(fld[0]))

    def decode(raw):
        nasm, smart = bool(raw & M["mov_nasm"]), bool(raw & M["mov_smart"])
        if nasm and smart:
            return None
        mov = "NASM" if nasm else "SMART" if smart else "STRICT"
        return (mov, int(bool(raw & M["swap"])), int(bool(raw & M["nobase"])))

    allmask = M["mov_nasm"] | M["mov_smart"] | M["swap"] | M["nobase"]

    # ---- initial state ------------------------------------------------------
    init = con["initial"]
    dflt = mv["DEFAULT"]
    chk.require(decode(dflt) == (init["mov"], init["swap"], init["nobase"]) and not (dflt & ~allmask), "INIT",
                "INIT/DEFAULT", "src/assemblyline.h", "DEFAULT decodes to SMART / NASM swap / NASM no-base",
                "DEFAULT=%#x decodes to %s" % (dflt, decode(dflt)))
    create = prog.fn("asm_create_instance")
    stores = []
    for a in EFF.accesses(prog.body(create)):
        if a.field == FIELD and a.owner == "assemblyline" and a.ctx in ("w", "rw"):
            stores.append(a)
    if not stores:
        chk.bad("INIT", "INIT/create", loc_str(create), "asm_create_instance initialises the option field",
                "no store to %s" % FIELD)
    for a in stores:
        par = _parent_assign(create, a.node)
        val = None
        if par is not None and par.get("opcode") == "=":
            val = ConstEval(prog).try_eval(kids(par)[1])
        chk.require(val == dflt, "INIT", "INIT/create", loc_str(a.node),
                    "asm_create_instance stores DEFAULT into the option field",
                    "stores %s" % (expr_str(par) if par else a.text))

    # ... on every path that returns an instance (not only in one branch of the buffer test)
    from checks import C15
    from valib.flow import Flow
    inst = None
    for m in walk(prog.body(create)):
        if m.get("kind") == "VarDecl" and "assemblyline" in (m.get("type", {}).get("qualType", "")):
            inst = m["name"]
            break
    if inst is not None:
        idom = C15.InitDomain(inst, prog)
        Flow(idom).function(prog, create, frozenset())
        for n, st in idom.rets:
            v = ConstEval(prog).try_eval(strip(kids(n)[0], casts=True)) if kids(n) else None
            if v == 0:
                continue
            chk.require(FIELD in st, "INIT", "INIT/create/all-paths@%s" % loc_str(n), loc_str(n),
                        "every path of asm_create_instance that returns an instance has stored the option field", "assigned on this path: %s" % sorted(st))

    # ---- transfer functions -------------------------------------------------
    si = SetterInterp(prog)
    setters = list(con["setters"])
    others = [3, -1, 255, 7]
    xf = {}
    for s in setters:
        for vname, v in list(OPT.items()) + [("other", o) for o in others]:
            x = si.summary(s, v)
            key = "XFER/%s(%s)" % (s, vname if vname != "other" else "other=%d" % v)
            f = prog.fn(s)
            if x.T & FULL:
                chk.broken("XFER", key, loc_str(f), "the effect of %s on every option bit is determinate" % s,
                           "bits %#x undetermined" % x.T)
                continue
            stray = x.changed() & ~allmask & FULL
            chk.require(not stray, "XFER", key + "/stray", loc_str(f),
                        "%s(%s) touches only the four option bits" % (s, vname), "also changes bits %#x" % stray)
            xf.setdefault(s, {}).setdefault(vname, []).append((v, x))
    for s in setters:
        reps = xf.get(s, {}).get("other", [])
        same = all(x == reps[0][1] for _, x in reps) if reps else False
        chk.require(same, "XFER", "XFER/%s/other-uniform" % s, loc_str(prog.fn(s)),
                    "%s treats every undocumented option value alike" % s,
                    "values %s give %s" % ([v for v, _ in reps], [repr(x) for _, x in reps]))
    chk.analysed["setter_store_sites"] = sorted(set("%s %s: %s" % t for t in si.sites))

    # ---- isolation ------------------------------------------------------------
    for (fn, what, where_) in si.foreign_writes:
        chk.bad("ISO", "ISO/%s/%s" % (fn, what), where_, "%s writes nothing but <instance>->%s" % (fn, FIELD),
                "store to %s" % what)
    g = EFF.call_graph(prog)
    fx = EFF.field_effects(prog, g)
    for s in setters:
        e = fx[s]
        chk.require(not e["gw"] and not e["gr"], "ISO", "ISO/%s/globals" % s, loc_str(prog.fn(s)),
                    "%s touches no global state" % s, "globals %s" % sorted(e["gw"] | e["gr"]))
    allowed_writers = set(setters) | {"asm_create_instance"}
    nwr = 0
    for fn, e in sorted(fx.items()):
        for a in e["sites"]:
            if a.field == FIELD and a.owner == "assemblyline" and a.ctx in ("w", "rw", "addr"):
                nwr += 1
                chk.require(fn in allowed_writers, "ISO", "ISO/writer/%s" % fn, loc_str(a.node),
                            "only the setters and asm_create_instance write the instance option field",
                            "%s in %s" % (a.text, fn))
    chk.floor("instance option writers", nwr, 8)

    # ---- read sites -------------------------------------------------------------
    _read_sites(chk, prog, M, mk, fx)
    # the per-line copy the readers look at keeps the SIB bits of the instance (only the mov-immediate bits are resolved per line)
    from valib import opt as OPTM
    OPTM.record_bits_rule(chk, prog)

    # ---- the model ---------------------------------------------------------------
    if any(o.status != "ok" for o in chk.obs if o.rule == "XFER"):
        return
    trans = []
    for s in setters:
        for vname in ("STRICT", "NASM", "SMART", "other"):
            trans.append((s, vname, xf[s][vname][0][1]))
    seen = {dflt}
    work = [dflt]
    ntrans = 0
    samples = []
    while work:
        raw = work.pop()
        d = decode(raw)
        for s, vname, x in trans:
            ntrans += 1
            nxt = x.apply(raw)
            exp = dict(zip(("mov", "swap", "nobase"), d)) if d else None
            if exp is not None:
                exp.update(con["setters"][s][vname])
                expt = (exp["mov"], exp["swap"], exp["nobase"])
            else:
                expt = None
            got = decode(nxt)
            key = "MODEL/%s(%s)@%s" % (s, vname, "/".join(map(str, d)) if d else "raw%#x" % raw)
            ok = got is not None and got == expt and not (nxt & ~allmask)
            chk.require(ok, "MODEL", key, loc_str(prog.fn(s)),
                        "from %s, %s(%s) leads to %s" % (d, s, vname, expt),
                        "raw %#x -> %#x decodes to %s" % (raw, nxt, got))
            if len(samples) < 12 and vname != "other":
                samples.append({"state": d, "call": "%s(al,%s)" % (s, vname), "next": got})
            if nxt not in seen:
                seen.add(nxt)
                work.append(nxt)
    states = {decode(r) for r in seen}
    chk.require(None not in states, "MODEL", "MODEL/canonical", "src/assemblyline.c",
                "no reachable option state has both mov-immediate bits set", "reachable raw states %s" % sorted(seen))
    chk.floor("reachable option states", len(states - {None}), 12)
    chk.model = {"states": len(seen), "transitions": ntrans, "traces_validated_against_impl": 0,
                 "model_samples": samples}
    chk.explanation = ("Per-bit transfer functions of the five setters are extracted from their bodies for "
                       "STRICT/NASM/SMART and four undocumented values; the reachable option states from DEFAULT "
                       "are enumerated and every (state, setter, value) successor is compared with the documented "
                       "contract (ref/contract_options.json). Nothing is executed; the model is the source.")
    chk.assumptions += ["the documented contract is the man page's wording for asm_set_all (three-call expansion)",
                        "a reader that masks the option field with the value of a mask reads that dimension"]


def _parent_assign(fn, node):
    for m, parents in walk_with_parents(fn):
        if m is node:
            for p in reversed(parents):
                if p.get("kind") in ("BinaryOperator", "CompoundAssignOperator") and p.get("opcode", "").endswith("="):
                    return p
    return None


def _is_rhs_of_field_store(chain):
    """chain = ancestors (outermost first) of the member read, the last one being the
    & or | expression: is that expression the whole right-hand side of `field = ...`?"""
    if len(chain) < 2:
        return False
    i = len(chain) - 2
    while i >= 0 and chain[i].get("kind") in ("ImplicitCastExpr", "ParenExpr", "CStyleCastExpr"):
        i -= 1
    if i < 0:
        return False
    a = chain[i]
    if a.get("kind") == "BinaryOperator" and a.get("opcode") == "=":
        lhs = strip(kids(a)[0])
        return lhs.get("kind") == "MemberExpr" and lhs.get("name") == FIELD
    return False


def _read_sites(chk, prog, M, mk, fx):
    """every read of the option field masks it with one option bit (by value); the
    bit read belongs to the dimension whose effect the function implements"""
    maskvals = set(M.values())
    name_of = {v: mk[r] for r, v in M.items()}
    nreads = 0
    per_fn = {}
    for fn, f in sorted(prog.lib_functions().items()):
        # locals that hold a copy of the field (initialised from it, never assigned again): their uses are uses of the field
        reassigned = {ref_name(strip(kids(x)[0])) for x in walk(prog.body(f))
                      if x.get("kind") in ("BinaryOperator", "CompoundAssignOperator") and x.get("opcode", "").endswith("=") and
                      x.get("opcode") not in ("==", "!=", "<=", ">=") and strip(kids(x)[0]).get("kind") == "DeclRefExpr"}
        aliases = {}
        for x in walk(prog.body(f)):
            if x.get("kind") == "VarDecl" and kids(x) and x["name"] not in reassigned:
                i0 = strip(kids(x)[-1], casts=True)
                if i0.get("kind") == "MemberExpr" and i0.get("name") == FIELD:
                    aliases[x["id"]] = i0
        # a working copy: initialised from the field, adjusted only by `|=` / `&=` with option masks, stored back into the field
        for x in walk(prog.body(f)):
            if x.get("kind") == "VarDecl" and kids(x) and x["name"] in reassigned and x["id"] not in aliases:
                i0 = strip(kids(x)[-1], casts=True)
                if not (i0.get("kind") == "MemberExpr" and i0.get("name") == FIELD):
                    continue
                mods = [y for y in walk(prog.body(f)) if y.get("kind") in ("BinaryOperator", "CompoundAssignOperator") and
                        y.get("opcode", "").endswith("=") and y.get("opcode") not in ("==", "!=", "<=", ">=") and
                        strip(kids(y)[0]).get("kind") == "DeclRefExpr" and (strip(kids(y)[0]).get("referencedDecl") or {}).get("id") == x["id"]]
                allm = 0
                for mvv in maskvals:
                    allm |= mvv
                okm = True
                for y in mods:
                    v_ = ConstEval(prog).try_eval(kids(y)[1])
                    if y.get("opcode") == "|=":
                        okm = okm and v_ is not None and (v_ & 0xff & ~allm) == 0
                    elif y.get("opcode") == "&=":
                        okm = okm and v_ is not None and (~v_ & 0xff & ~allm) == 0
                    else:
                        okm = False
                stored_back = any(y.get("kind") == "BinaryOperator" and y.get("opcode") == "=" and strip(kids(y)[0]).get("kind") == "MemberExpr" and
                                  strip(kids(y)[0]).get("name") == FIELD and strip(kids(y)[1], casts=True).get("kind") == "DeclRefExpr" and
                                  (strip(kids(y)[1], casts=True).get("referencedDecl") or {}).get("id") == x["id"] for y in walk(prog.body(f)))
                if okm and stored_back:
                    aliases[x["id"]] = i0
                    nreads += len(mods)
                    chk.ok("READ", "READ/adjust/%s/working-copy" % fn, loc_str(x), "a working copy of the option field is adjusted only by setting/clearing option bits and stored back")
        for m, parents in walk_with_parents(prog.body(f)):
            is_alias_use = m.get("kind") == "DeclRefExpr" and (m.get("referencedDecl") or {}).get("id") in aliases
            if is_alias_use and parents:
                p0 = [pp for pp in parents if pp.get("kind") not in ("ImplicitCastExpr", "ParenExpr", "CStyleCastExpr")]
                if p0 and p0[-1].get("kind") == "CompoundAssignOperator" and strip(kids(p0[-1])[0]) is m:
                    continue            # `opt |= MASK`: checked with the working copy above
                if p0 and p0[-1].get("kind") == "BinaryOperator" and p0[-1].get("opcode") == "=" and strip(kids(p0[-1])[0]).get("kind") == "MemberExpr" and \
                        strip(kids(p0[-1])[0]).get("name") == FIELD:
                    continue            # the store back
            if not is_alias_use and (m.get("kind") != "MemberExpr" or m.get("name") != FIELD):
                continue
            if not is_alias_use and parents and any(pp.get("kind") == "VarDecl" and pp.get("id") in aliases for pp in parents[-3:]):
                nreads += 1
                chk.ok("READ", "READ/local-copy/%s" % fn, loc_str(m), "the options are copied whole into a local that is only read")
                continue
            # classify by nearest interesting parent
            p = parents[-1] if parents else None
            chain = list(parents)
            while chain and chain[-1].get("kind") in ("ImplicitCastExpr", "ParenExpr"):
                chain.pop()
            p = chain[-1] if chain else None
            if p is None:
                continue
            pk, op = p.get("kind"), p.get("opcode")
            is_lhs = strip(kids(p)[0]) is m if kids(p) else False
            if pk == "BinaryOperator" and op == "=" and is_lhs:
                continue                      # plain store
            if pk == "CompoundAssignOperator" and is_lhs:
                # pipeline adjusting its private copy: operand must be (the complement of) a mask
                v = ConstEval(prog).try_eval(kids(p)[1])
                okv = v is not None and ((v & 0xff) in maskvals or (~v & 0xff) in maskvals or
                                         all(((~v & 0xff) >> i) & 1 == 0 or (1 << i) in maskvals for i in range(8)))
                if EFF.owner_field(m)[0] == "instr":
                    nreads += 1
                    chk.require(okv and op in ("|=", "&="), "READ", "READ/adjust/%s" % fn, loc_str(p),
                                "the per-line copy of the options is adjusted only by setting/clearing option bits",
                                expr_str(p))
                continue
            if pk == "BinaryOperator" and op in ("&", "|") and _is_rhs_of_field_store(chain):
                other = kids(p)[1] if is_lhs else kids(p)[0]
                v = ConstEval(prog).try_eval(other)
                allm = 0
                for mvv in maskvals:
                    allm |= mvv
                okv = v is not None and (((v & 0xff) & ~allm) == 0 if op == "|" else ((~v & 0xff) & ~allm) == 0)
                nreads += 1
                chk.require(okv, "READ", "READ/adjust/%s" % fn, loc_str(p),
                            "the option field is adjusted only by setting/clearing option bits", expr_str(p))
                continue
            if pk == "BinaryOperator" and op == "&":
                other = kids(p)[1] if is_lhs else kids(p)[0]
                v = ConstEval(prog).try_eval(other)
                nreads += 1
                ok = v is not None and v in maskvals
                chk.require(ok, "READ", "READ/mask/%s" % fn, loc_str(p),
                            "a test of the option field masks it with exactly one option bit",
                            "%s (mask value %s)" % (expr_str(p), v))
                if ok:
                    per_fn.setdefault(fn, set()).add(name_of[v])
                continue
            if pk == "BinaryOperator" and op == "=" and not is_lhs:
                lhs = strip(kids(p)[0])
                if lhs.get("kind") == "MemberExpr" and lhs.get("name") == FIELD:
                    nreads += 1
                    chk.ok("READ", "READ/copy/%s" % fn, loc_str(p), "the options are copied whole into the per-line record")
                    continue
            nreads += 1
            chk.broken("READ", "READ/unknown/%s" % fn, loc_str(m), "every use of the option field is a store, a copy or a single-bit test",
                       "unrecognised use: %s" % expr_str(p))
    chk.floor("option read sites", nreads, 7)
    # dimension by effect: the function that stores `no_base` reads the no-base bit; the function that
    # exchanges .reg and .index of an operand reads the swap bit; nobody else does
    nobase_fn = sorted(fn for fn, e in fx.items() if ("instr", "no_base") in e["w"])
    swap_fn = []
    for fn, f in sorted(prog.lib_functions().items()):
        if fn in nobase_fn:
            continue
        for m in walk(prog.body(f)):
            if m.get("kind") == "BinaryOperator" and m.get("opcode") == "=":
                l, r = strip(kids(m)[0]), strip(kids(m)[1])
                if (l.get("kind") == "MemberExpr" and l.get("name") == "index" and
                        r.get("kind") == "MemberExpr" and r.get("name") == "reg"):
                    swap_fn.append(fn)
                    break
    if len(nobase_fn) != 1 or len(swap_fn) != 1:
        chk.broken("READ", "READ/roles", "-", "the no-base rewriting and the index/base swap each live in one function",
                   "no_base writers %s, reg/index swappers %s" % (nobase_fn, swap_fn))
        return
    exp = {nobase_fn[0]: {mk["nobase"]}, swap_fn[0]: {mk["swap"]}}
    for fn, got in sorted(per_fn.items()):
        want = exp.get(fn)
        if want is None:
            okk = got <= {mk["mov_nasm"], mk["mov_smart"]}
            what = "%s (not an addressing rewriter) consults only the mov-immediate bits" % fn
        else:
            okk = got == want
            what = "%s consults exactly %s" % (fn, sorted(want))
        chk.require(okk, "READ", "READ/dimension/%s" % fn, loc_str(prog.fn(fn)), what, "reads %s" % sorted(got))
    for fn, want in exp.items():
        if fn not in per_fn:
            chk.bad("READ", "READ/dimension/%s" % fn, loc_str(prog.fn(fn)),
                    "%s consults %s" % (fn, sorted(want)), "does not read the option field")
