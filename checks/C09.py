"""C09 - arbitrary input text never causes memory errors: bounds obligations at every fixed-size object."""
from valib.core import kids, strip, walk, walk_with_parents, expr_str, loc_str, callee_name, call_args, ConstEval, ref_name, qtype
from valib import absint as ABS
from valib import scan as SC
from valib import strb as SB
from valib import pipeline as PL
from valib import chunk as CH

LEVEL = "other"

# first-token calls of strtok_r whose result is used without a NULL test: the premise that makes them safe
AUDITED_NULL = {
    ("instr_tok", "instruction_str"): "the filtered line starts with a letter (the filter's BEGIN state stores nothing else) and is not empty "
                                      "(str_to_instr tests filter_str[0]), so the first token exists",
    ("operand_tok", "all_opd"): "the operand text is the non-empty rest after the mnemonic and does not start with ',' (tested on entry)",
    ("imm_tok", "imme"): "the operand was classified 'i', i.e. it has a non-blank character",
}


def run(chk, prog, tier):
    res = ABS.run_world(prog)
    chk.analysed["abs_passes"] = res["passes"]
    chk.analysed["abs_functions"] = res["functions"]
    chk.analysed["pointer_parameters_bound_to_arrays"] = res["param_bounds"]
    n = ABS.report(chk, res, ("IDX", "COPY", "STR", "DIVZ", "SENT"))
    chk.floor("bounds obligations", n, 140)
    kw_rule(chk, prog)
    null_rule(chk, prog)
    term_rule(chk, prog, res)
    roles = PL.Roles(prog)
    strb_rule(chk, prog, res)
    # stores into the code buffer are memory accesses too: every encoder / padding call is gated by a passed room check (as in C07)
    PL.gate_rule(chk, prog, roles)
    from checks import C07
    C07.room_predicate(chk, prog, roles)
    from valib import bytelen as BL
    BL.usub_rule(chk, prog)
    # termination of the per-line loop: the scanner makes progress on every text, the driver advances by what was consumed
    SC.progress_rule(chk, prog, roles)
    SC.driver_advance_rule(chk, prog, roles)
    CH.division_sites_rule(chk, prog, roles)
    CH.setter_mode_rule(chk, prog)
    CH.counting_mode_rule(chk, prog, roles)
    # the invariant (mode in {COUNT, FITTING} => chunk_size >= 2) is preserved by every entry point: they restore both fields
    PL.restore_rule(chk, prog, roles, rule="KEEP", fields=("assembly_mode", "chunk_size"))
    from checks import C06
    C06.fresh_record_rule(chk, prog, roles, rule="INIT")
    chk.explanation = (
        "An interval / small-value-set abstract interpretation of the whole library (parameters joined over call sites, "
        "return and field summaries, pointer parameters bound to the fixed arrays their callers pass) discharges: every "
        "subscript of a fixed-size array stays inside it, strncpy lengths fit and leave a terminator, every char array read as "
        "a C string is zero-initialised and never written in its last byte, every divisor excludes 0, the offset used as "
        "write position is non-negative; plus keyword clearing lengths, NULL tests of tokeniser results (3 audited sites), "
        "bounded recursion, chunk-size division guarded by the mode invariant, and a fresh zeroed per-line record. "
        "(STRB) a string-length-relative abstract interpretation (cursor <= strlen(S)+c relations from character tests, "
        "first/last-character sets, scanned-prefix sets, context-sensitive over call sites, callee outcomes kept apart per "
        "constant result and per struct field they are stored to) discharges every read, write and pointer advance through a "
        "pointer into a NUL-terminated string: mem[i+/-k], imme[2], mem[len-1], pointer++, mem+index. NOT decided: signed "
        "overflow in value arithmetic, libc preconditions other than string arguments. (PROGRESS/ADVANCE) termination of the per-line loop: a prefix-concrete "
        "abstract interpretation of the line parser and its filter (first two characters fixed per character class, rest unknown) shows "
        "that every non-failing call consumes at least one character whenever the text is not at its NUL, and the driver loop "
        "advances its cursor by exactly that count, unconditionally, while the character under it is not NUL.")
    chk.assumptions += ["sentinel-terminated const tables are covered by T1/T4 (C01) and SUCC (C05), not by IDX"]


def strb_rule(chk, prog, abs_res):
    """every read / write / pointer advance through a pointer into a NUL-terminated string stays within the string"""
    res = SB.run_world(prog)
    chk.analysed["strb_contexts"] = {k: v for k, v in sorted(res["contexts"].items()) if k in res["need"]}
    absok = {}
    for o in abs_res["obligations"]:
        if o["kind"] == "IDX" and o["ok"]:
            absok.setdefault((o["fn"], o["where"]), []).append(o["key"])
    unreached = sorted(fn for fn in res["need"] if fn not in res["contexts"])
    for fn in unreached:
        chk.broken("STRB", "STRB/unreached/%s" % fn, loc_str(prog.fn(fn)),
                   "every function that reads through a string pointer is reached from a public entry point by the string analysis", fn)
    n = 0
    for key, v in sorted(res["sites"].items()):
        n += 1
        oid = "STRB/%s/%s/%s@%s" % (v["kind"], v["fn"], v["text"][:40], v["where"])
        what = {"read": "the character read is inside the string or its terminator",
                "write": "the store stays strictly inside the string (or inside the fixed array the pointer is bound to)",
                "advance": "the pointer is advanced at most to the terminator"}[v["kind"]]
        if v["ok"]:
            chk.ok("STRB", oid, v["where"], what)
        elif v["kind"] == "write" and any(v["text"] in k for k in absok.get((v["fn"], v["where"]), [])):
            chk.ok("STRB", oid, v["where"], what + " - capacity-bound: discharged by the interval engine (%s)" % absok[(v["fn"], v["where"])][0])
        else:
            chk.bad("STRB", oid, v["where"], what, v["witness"])
    recorded = {(v["fn"], v["where"], v["text"]) for v in res["sites"].values()}
    for fn, nodes in sorted(res["need"].items()):
        for m in nodes:
            k = (fn, loc_str(m), expr_str(m))
            if k not in recorded and fn not in unreached:
                chk.broken("STRB", "STRB/unvisited/%s/%s@%s" % (fn, k[2][:40], k[1]), k[1],
                           "every subscript / dereference of a string pointer is visited by the string analysis", "%s in %s" % (k[2], fn))
    chk.floor("string-pointer accesses", n, 90)


def kw_rule(chk, prog):
    """clearstring(p, n) after strstr(p, "kw") == p clears at most strlen("kw") characters"""
    n = 0
    for fn, f in sorted(prog.lib_functions().items()):
        for st in walk(prog.body(f)):
            if st.get("kind") != "IfStmt":
                continue
            c = strip(kids(st)[0])
            if c.get("kind") != "BinaryOperator" or c.get("opcode") != "==":
                continue
            lit = None
            for side in kids(c):
                sd = strip(side, casts=True)
                if sd.get("kind") == "CallExpr" and callee_name(sd) == "strstr":
                    a = strip(call_args(sd)[1], casts=True)
                    if a.get("kind") == "StringLiteral":
                        lit = a.get("value", '""')[1:-1]
                # the same test written as a prefix comparison: strncmp(p, "kw", strlen("kw")) == 0
                if sd.get("kind") == "CallExpr" and callee_name(sd) == "strncmp" and len(call_args(sd)) == 3:
                    a = strip(call_args(sd)[1], casts=True)
                    n3 = strip(call_args(sd)[2], casts=True)
                    whole = ConstEval(prog).try_eval(n3)
                    if whole is None and n3.get("kind") == "CallExpr" and callee_name(n3) == "strlen" and \
                            strip(call_args(n3)[0], casts=True).get("kind") == "StringLiteral":
                        whole = len(strip(call_args(n3)[0], casts=True).get("value", '""')[1:-1])
                    if a.get("kind") == "StringLiteral" and whole is not None and whole >= len(a.get("value", '""')[1:-1]):
                        lit = a.get("value", '""')[1:-1]
            if lit is None:
                continue
            for call in walk(kids(st)[1]):
                if call.get("kind") == "CallExpr" and callee_name(call) in prog.functions:
                    cf = prog.fn(callee_name(call))
                    # a helper that blanks n characters: (char *, int) with a store loop
                    args = call_args(call)
                    if len(args) == 2 and "char *" in prog.params(cf)[0]["type"]["qualType"]:
                        v = ConstEval(prog).try_eval(args[1])
                        if v is None:
                            continue
                        n += 1
                        chk.require(v <= len(lit), "KW", "KW/%s/%s" % (fn, lit), loc_str(call),
                                    "after matching the keyword \"%s\" at most %d characters are blanked" % (lit, len(lit)),
                                    "%s blanks %d characters" % (callee_name(call), v))
    chk.floor("keyword clearing sites", n, 7)


def _premise_holds(prog, fname, var):
    """structural premise of an audited first-token site (the audit applies only while it holds); decided on the path facts
    that hold at the relevant call sites (valib/guards.py), not on the shape of the surrounding statements"""
    from valib import guards as GD
    lib = prog.lib_functions()
    if (fname, var) == ("operand_tok", "all_opd") or var == "all_opd":
        # every strtok_r(X, ...) that starts a new scan is reached only with X[0] != ',' established and X unchanged since
        n = 0
        for call, facts in GD.facts_at_calls(prog, fname):
            if callee_name(call) != "strtok_r":
                continue
            x = strip(call_args(call)[0], casts=True)
            if x.get("kind") != "DeclRefExpr":
                continue        # continuation call strtok_r(NULL, ...)
            n += 1
            if not GD.holds(facts, lambda t: t == "%s[0]" % ref_name(x), ord(","), False):
                return False, "no leading-comma test before the strtok_r at %s in %s" % (loc_str(call), fname)
        return (n > 0), ("" if n else "no strtok_r scan found in %s" % fname)
    if var == "instruction_str":
        # the filtered text reaches the tokeniser only through call sites where its first character is known not to be NUL
        guarded = unguarded = 0
        for fn2 in lib:
            for call, facts in GD.facts_at_calls(prog, fn2):
                cn = callee_name(call)
                if cn not in lib or cn == fn2 or not (cn == fname or fname in _reach(prog, cn)):
                    continue
                args = [expr_str(strip(a, casts=True)) for a in call_args(call) if "char" in qtype(strip(a, casts=True))]
                if any(GD.holds(facts, lambda t, a=a: t == "%s[0]" % a, 0, False) for a in args):
                    guarded += 1
        if guarded:
            return True, ""
        return False, "no caller tests the first character of the filtered line"
    if var == "imme":
        # imm_tok is called only where the operand type is known to be 'i'
        n = 0
        for fn2 in lib:
            for call, facts in GD.facts_at_calls(prog, fn2):
                if callee_name(call) != fname:
                    continue
                n += 1
                if not GD.holds(facts, lambda t: t.endswith(".type") or t.endswith("->type"), ord("i"), True):
                    return False, "%s is called at %s without the operand type being known to be 'i'" % (fname, loc_str(call))
        return (n > 0), ("" if n else "%s is never called" % fname)
    return True, ""


def _reach(prog, fn, _memo={}):
    from valib import eff as EFF
    key = (prog.tree_hash, fn)
    if key not in _memo:
        _memo[key] = EFF.reachable(EFF.call_graph(prog), [fn])
    return _memo[key]


def null_rule(chk, prog):
    """results of strtok_r / strstr / strchr are tested before use, or the site is audited"""
    from valib import err as ERR
    from checks import C17
    kinds = {"strtok_r": "null", "strstr": "null", "strchr": "null"}
    fnames = sorted(fn for fn, f in prog.lib_functions().items()
                    if any(c.get("kind") == "CallExpr" and callee_name(c) in kinds for c in walk(prog.body(f))))
    nsites = 0
    for fname in fnames:
        reports = []
        dom = ERR.analyse_function(prog, fname, kinds, lambda k, n, t, r=reports: r.append((k, n, t)))
        sites = {id(s): s for s in dom.sites}
        nsites += len(sites)
        flagged = {}
        for k, node, text in reports:
            if k != "CHK":
                continue
            nm = ref_name(node) or expr_str(node)
            flagged.setdefault(nm, (node, text))
        for nm, (node, text) in sorted(flagged.items()):
            aud = AUDITED_NULL.get((fname, nm))
            key = "NULL/%s/%s" % (fname, nm)
            if aud and "strtok_r" in text and "compared with a pointer" not in text:
                holds, why = _premise_holds(prog, fname, nm)
                chk.require(holds, "NULL", key, loc_str(node), "audited: %s" % aud, "the premise of the audit no longer holds: %s" % why)
            elif "tested against something that is not its failure value" in text and "strstr" in text:
                # strstr(p, lit) == p : a comparison with the haystack pointer is a test of the result
                chk.ok("NULL", key, loc_str(node), "the strstr result is only compared with a pointer, never dereferenced")
            else:
                chk.bad("NULL", key, loc_str(node), "a tokeniser/search result is tested for NULL before it is used", text)
        for s in sites.values():
            chk.ok("NULL", "NULL/site/%s/%s@%s" % (fname, callee_name(s), loc_str(s)), loc_str(s), "call site analysed")
    chk.floor("tokeniser/search call sites", nsites, 13)


def term_rule(chk, prog, res):
    """self-recursion is bounded: an integer parameter with a finite range grows in the recursive call"""
    n = 0
    for fn, f in sorted(prog.lib_functions().items()):
        for c in walk(prog.body(f)):
            if c.get("kind") == "CallExpr" and callee_name(c) == fn:
                n += 1
                ps = prog.params(f)
                if not any("char" in qtype(p) and ("*" in qtype(p) or "[" in qtype(p)) for p in ps):
                    # recursion that is not driven by the input text (a retry written as a tail call): like the loops of the
                    # emitters its termination is not claimed by this rule
                    chk.ok("TERM", "TERM/recursion/%s" % fn, loc_str(c),
                           "the self-recursive call in %s does not walk the input text (termination not claimed here, as for the emitters' loops)" % fn)
                    continue
                ok = False
                why = "no growing bounded parameter"
                for i, p in enumerate(ps):
                    a = strip(call_args(c)[i], casts=True)
                    if a.get("kind") == "BinaryOperator" and a.get("opcode") == "+" and ref_name(kids(a)[0]) == p["name"]:
                        inc = ConstEval(prog).try_eval(kids(a)[1])
                        # the parameter's range must be finite: some subscript obligation with it as index was discharged
                        bounded = any(o["fn"] == fn and o["ok"] and "[%s]" % p["name"] in o["key"] for o in res["obligations"])
                        if inc and inc > 0 and bounded:
                            ok = True
                if not ok:
                    # recursion after consuming input: the recursive call sits in a branch that blanked characters first
                    for st, parents in walk_with_parents(prog.body(f)):
                        if st is c:
                            for p in parents:
                                if p.get("kind") == "CompoundStmt":
                                    before = [x for x in kids(p)]
                                    for x in before:
                                        if any(m is c for m in walk(x)):
                                            break
                                        if any(m.get("kind") == "CallExpr" and m is not c and len(call_args(m)) == 2 and
                                               ConstEval(prog).try_eval(call_args(m)[1]) not in (None, 0) for m in walk(x)):
                                            ok = True
                                            why = ""
                chk.require(ok, "TERM", "TERM/recursion/%s" % fn, loc_str(c),
                            "the self-recursive call in %s makes progress (a bounded index grows, or characters were consumed first)" % fn, why)
    chk.floor("self-recursive calls", n, 0)    # a tree without recursion has nothing to bound
