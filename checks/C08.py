"""C08 - the library-managed buffer grows transparently: growth protocol."""
from valib.core import (AnalysisBroken, ConstEval, kids, strip, walk, walk_with_parents, expr_str, loc_str, qtype, ref_name,
                        callee_name, call_args)
from valib.macros import macro_values
from valib import eff as EFF
from valib import pipeline as PL
from valib.flow import Flow

LEVEL = "other"

PROT_RWX = 7          # PROT_READ | PROT_WRITE | PROT_EXEC on Linux
MAP_ANON_PRIVATE = 0x22
MREMAP_MAYMOVE = 1


def _flows_to_buffer(prog, f, call):
    """does the result of `call` end up in <instance>->buffer inside f?"""
    holder = None
    for m, parents in walk_with_parents(prog.body(f)):
        if m is call:
            for p in reversed(parents):
                if p.get("kind") == "VarDecl":
                    holder = p.get("name")
                    break
                if p.get("kind") == "BinaryOperator" and p.get("opcode") == "=":
                    l = strip(kids(p)[0])
                    if l.get("kind") == "MemberExpr" and l.get("name") == "buffer":
                        return True
                    holder = ref_name(l)
                    break
    if not holder:
        return False
    for m in walk(prog.body(f)):
        if m.get("kind") == "BinaryOperator" and m.get("opcode") == "=":
            l, r = strip(kids(m)[0]), strip(kids(m)[1], casts=True)
            if l.get("kind") == "MemberExpr" and l.get("name") == "buffer" and ref_name(r) == holder:
                return True
    return False


class StaleDomain:
    """locals holding a pointer derived from the instance's buffer become stale when a call may move the buffer"""

    def __init__(self, prog, movers, derive_calls=()):
        self.prog, self.movers, self.derive_calls = prog, movers, set(derive_calls)
        self.viol = []
        self.nptr = 0

    def copy(self, s): return dict(s)

    def join(self, a, b):
        out = {}
        for k in set(a) | set(b):
            va, vb = a.get(k), b.get(k)
            out[k] = "stale" if "stale" in (va, vb) else (va or vb)
        return out

    def equal(self, a, b): return a == b
    def widen(self, o, n): return n

    def _derived(self, e):
        e = strip(e, casts=True)
        if e.get("kind") == "CallExpr" and callee_name(e) in self.derive_calls:
            return True
        for m in walk(e):
            if m.get("kind") == "MemberExpr" and m.get("name") == "buffer" and EFF.owner_field(m)[0] == "assemblyline":
                return True
            if m.get("kind") == "CallExpr" and callee_name(m) in self.derive_calls:
                return True
        return False

    def decl(self, vd, s):
        init = kids(vd)
        if init:
            s = self.eval(init[-1], s)
            if "*" in qtype(vd) and self._derived(init[-1]):
                s["v:" + vd["id"]] = "fresh"
                self.nptr += 1
        return s

    def eval(self, e, s):
        e0 = strip(e)
        if not e0:
            return s
        k, ks = e0.get("kind"), kids(e0)
        if k == "BinaryOperator" and e0.get("opcode") == "=":
            s = self.eval(ks[1], s)
            l = strip(ks[0], casts=True)
            if l.get("kind") == "DeclRefExpr" and "*" in qtype(l):
                key = "v:" + l.get("referencedDecl", {}).get("id", "")
                if self._derived(ks[1]):
                    s[key] = "fresh"
                    self.nptr += 1
                else:
                    s.pop(key, None)
            return s
        if k == "DeclRefExpr":
            key = "v:" + e0.get("referencedDecl", {}).get("id", "")
            if s.get(key) == "stale":
                self.viol.append((e0, "%s was derived from the buffer before a call that may move the buffer" % ref_name(e0)))
            return s
        if k == "CallExpr":
            for a in call_args(e0):
                s = self.eval(a, s)
            if callee_name(e0) in self.movers:
                for kk in list(s):
                    s[kk] = "stale"
            return s
        for c in ks:
            s = self.eval(c, s)
        return s

    def assume(self, e, t, s): return s
    def ret(self, n, s): pass


def stale_rule(chk, prog, fnames, movers, derive_calls=(), rule="STALE"):
    total = 0
    for fn in fnames:
        f = prog.fn(fn)
        dom = StaleDomain(prog, movers, derive_calls)
        Flow(dom).function(prog, f, {})
        total += dom.nptr
        seen = set()
        for node, text in dom.viol:
            key = "%s/%s/%s" % (rule, fn, ref_name(node))
            if key in seen:
                continue
            seen.add(key)
            chk.bad(rule, key, loc_str(node), "no pointer derived from the instance's buffer is used after a call that may move the buffer", text)
        if not dom.viol:
            chk.ok(rule, "%s/%s" % (rule, fn), loc_str(f), "%s uses no buffer-derived pointer across a call that may move the buffer" % fn)
    return total


def preserve_rule(chk, prog, roles, buffer_writers, rule="PRESERVE"):
    lib = prog.lib_functions()
    n = 0
    for fn in buffer_writers:
        f = lib[fn]
        inst = prog.params(f)[0]["name"]
        posp = [p["name"] for p in prog.params(f)[1:] if qtype(p) in ("int", "unsigned int", "size_t", "unsigned int *")]
        calls = [c for c in walk(prog.body(f)) if c.get("kind") == "CallExpr"]
        if any(callee_name(c) == "mremap" for c in calls):
            n += 1
            chk.ok(rule, "%s/%s" % (rule, fn), loc_str(f), "%s grows the buffer with mremap, which keeps the old contents" % fn)
            continue
        copies = [c for c in calls if callee_name(c) in ("memcpy", "memmove")]
        ok = False
        why = "no mremap and no copy of the old contents"
        for c in copies:
            a = call_args(c)
            src = expr_str(strip(a[1], casts=True))
            ln = expr_str(strip(a[2], casts=True))
            if src == inst + "->buffer":
                if ln == inst + "->buffer_len" or ln in posp or ln in ["*" + p for p in posp]:
                    ok = True
                else:
                    why = "copies %s bytes: neither the old length nor the current position (a field that is only updated when the call returns is stale here)" % ln
        n += 1
        chk.require(ok, rule, "%s/%s" % (rule, fn), loc_str(copies[0]) if copies else loc_str(f),
                    "%s keeps every byte written so far when it replaces the buffer" % fn, why)
    return n


def run(chk, prog, tier):
    roles = PL.Roles(prog)
    chk.analysed["roles"] = roles.describe()
    lib = prog.lib_functions()
    mv = macro_values(prog, ["MEM_BUFFER", "BUFFER_TOLERANCE"])
    ce = ConstEval(prog)
    # every mapping that becomes the code buffer is readable, writable and executable
    nmap = 0
    for fn, f in sorted(lib.items()):
        for c in walk(prog.body(f)):
            if c.get("kind") == "CallExpr" and callee_name(c) == "mmap" and _flows_to_buffer(prog, f, c):
                nmap += 1
                a = call_args(c)
                prot, flags, fd = ce.try_eval(a[2]), ce.try_eval(a[3]), ce.try_eval(a[4])
                chk.require(prot == PROT_RWX, "PROT", "PROT/%s" % fn, loc_str(c),
                            "a mapping that becomes the code buffer is requested PROT_READ|PROT_WRITE|PROT_EXEC", "prot = %s" % prot)
                chk.require(flags is not None and flags & MAP_ANON_PRIVATE == MAP_ANON_PRIVATE and fd == -1, "PROT", "PROT/anon/%s" % fn, loc_str(c),
                            "the code buffer is a private anonymous mapping", "flags %s fd %s" % (flags, fd))
                ln = expr_str(strip(a[1], casts=True))
                chk.require("buffer_len" in ln, "LEN", "LEN/initial/%s" % fn, loc_str(c),
                            "the initial mapping has exactly buffer_len bytes", "length %s" % ln)
    chk.floor("mappings that become the code buffer", nmap, 1)
    create = prog.fn("asm_create_instance")
    init_len = None
    # creation and the static helpers only it calls
    creators = [create] + [lib[c] for c in sorted(roles.g.get("asm_create_instance", ())) if c in lib and
                           lib[c].get("storageClass") == "static" and EFF.callers_of(roles.g, c) == ["asm_create_instance"]]
    for m in [x for cf in creators for x in walk(prog.body(cf))]:
        if m.get("kind") == "BinaryOperator" and m.get("opcode") == "=":
            l = strip(kids(m)[0])
            if l.get("kind") == "MemberExpr" and l.get("name") == "buffer_len":
                v = ce.try_eval(kids(m)[1])
                if v is not None:
                    init_len = v
                    chk.require(v >= 2 * mv["BUFFER_TOLERANCE"], "LEN", "LEN/initial-size", loc_str(m),
                                "the internal buffer starts larger than the reserve", "buffer_len = %d" % v)
    chk.require(init_len is not None, "LEN", "LEN/initial-const", loc_str(create), "the internal buffer length is a constant set at creation", "not found")
    # growth protocol
    growers = [fn for fn, f in lib.items() if any(c.get("kind") == "CallExpr" and callee_name(c) == "mremap" for c in walk(prog.body(f)))]
    creator_names = {"asm_create_instance"} | {c for c in roles.g.get("asm_create_instance", ()) if c in lib and
                                                 lib[c].get("storageClass") == "static" and EFF.callers_of(roles.g, c) == ["asm_create_instance"]}
    buffer_writers = sorted(fn for fn, f in lib.items() if fn not in creator_names and
                            any(a.owner == "assemblyline" and a.field == "buffer" and a.ctx in ("w", "rw") and strip(a.node).get("kind") == "MemberExpr"
                                for a in EFF.accesses(prog.body(f))))
    chk.analysed["buffer_writers"] = buffer_writers
    for fn in buffer_writers:
        chk.require(fn in growers or any(callee_name(c) == "mmap" and _flows_to_buffer(prog, lib[fn], c) for c in walk(prog.body(lib[fn])) if c.get("kind") == "CallExpr"),
                    "GROW", "GROW/writer/%s" % fn, loc_str(lib[fn]), "only creation and the growth routine assign <instance>->buffer", fn)
    chk.floor("growth routines", len(growers) + len([w for w in buffer_writers if w not in growers]), 1)
    # an assignment of the whole instance (`*al = saved`, memcpy(al, ...)) assigns buffer and buffer_len too: after a growth in
    # between it brings back a mapping that no longer exists
    for fn, f in sorted(lib.items()):
        if fn in creator_names or any(callee_name(c) == "free" for c in walk(prog.body(f)) if c.get("kind") == "CallExpr"):
            continue
        for m in walk(prog.body(f)):
            tgt = None
            if m.get("kind") == "BinaryOperator" and m.get("opcode") == "=" and qtype(strip(kids(m)[0])).replace("const ", "") in ("struct assemblyline",):
                tgt = kids(m)[0]
            elif m.get("kind") == "CallExpr" and callee_name(m) in ("memcpy", "memmove", "memset", "__builtin_memcpy") and call_args(m):
                a0 = strip(call_args(m)[0], casts=True)
                if qtype(a0) in ("assemblyline_t", "struct assemblyline *") and a0.get("kind") == "DeclRefExpr":
                    tgt = a0
            if tgt is not None:
                chk.bad("GROW", "GROW/whole/%s@%s" % (fn, loc_str(m)), loc_str(m), "only creation and the growth routine assign <instance>->buffer",
                        "%s assigns the whole instance, buffer and buffer_len included: %s" % (fn, expr_str(m)[:80]))
    # the fields the growth protocol reads are initialised by creation on every successful path
    from checks import C15
    C15.init_rule(chk, prog, ["buffer", "buffer_len", "external", "offset"], rule="INIT", what="buffer, buffer_len, external and offset")
    for fn in growers:
        f = lib[fn]
        inst = prog.params(f)[0]["name"]
        for c in walk(prog.body(f)):
            if c.get("kind") != "CallExpr" or callee_name(c) != "mremap":
                continue
            a = call_args(c)
            old_ok = expr_str(strip(a[0], casts=True)) == inst + "->buffer" and expr_str(strip(a[1], casts=True)) == inst + "->buffer_len"
            chk.require(old_ok, "GROW", "GROW/old/%s" % fn, loc_str(c), "mremap is given the current buffer and its current length",
                        "(%s, %s)" % (expr_str(a[0]), expr_str(a[1])))
            fl = ce.try_eval(a[3])
            chk.require(fl is not None and fl & MREMAP_MAYMOVE, "GROW", "GROW/maymove/%s" % fn, loc_str(c), "growth may move the mapping (MREMAP_MAYMOVE)", "flags %s" % fl)
            new_len = strip(a[2], casts=True)
            inc = None
            if new_len.get("kind") == "BinaryOperator" and new_len.get("opcode") == "+" and expr_str(kids(new_len)[0]) == inst + "->buffer_len":
                inc = ce.try_eval(kids(new_len)[1])
            chk.require(inc is not None and inc >= mv["BUFFER_TOLERANCE"], "GROW", "GROW/step/%s" % fn, loc_str(c),
                        "the new length is buffer_len plus a constant step that restores the reserve", "new length %s" % expr_str(new_len))
            # on the success path buffer_len grows by the same step and buffer takes the result
            len_ok = buf_ok = False
            for m in walk(prog.body(f)):
                if m.get("kind") == "CompoundAssignOperator" and m.get("opcode") == "+=" and expr_str(kids(m)[0]) == inst + "->buffer_len":
                    len_ok = ce.try_eval(kids(m)[1]) == inc
                if m.get("kind") == "BinaryOperator" and m.get("opcode") == "=" and expr_str(kids(m)[0]) == inst + "->buffer_len":
                    len_ok = expr_str(strip(kids(m)[1], casts=True)) == expr_str(new_len)
                if m.get("kind") == "BinaryOperator" and m.get("opcode") == "=" and expr_str(kids(m)[0]) == inst + "->buffer":
                    buf_ok = True
            chk.require(len_ok, "GROW", "GROW/len-update/%s" % fn, loc_str(c), "after a successful growth buffer_len equals the length given to mremap", "no matching update")
            chk.require(buf_ok, "GROW", "GROW/buf-update/%s" % fn, loc_str(c), "after a successful growth <instance>->buffer is refreshed", "no assignment")
    # PRESERVE: whatever replaces the buffer keeps every byte written so far - mremap does; a fresh mapping must be filled by a
    # copy of the whole old mapping (buffer_len bytes) or of at least the current position handed to the routine
    preserve_rule(chk, prog, roles, buffer_writers)
    # ORDER / CHK / ATOMIC for the growth routine
    from checks import C17
    from valib import err as ERR
    kinds = dict(ERR.OS_FAIL)
    doms = C17.check_functions(chk, prog, sorted(set(growers) | {"asm_create_instance"}), kinds)
    C17.atomic_rule(chk, prog, sorted(growers), doms)
    # STALE
    movers = {fn for fn in lib if set(growers) & EFF.reachable(roles.g, [fn])}
    users = sorted(set(roles.emitters) | {roles.driver} | set(roles.entries))
    stale_rule(chk, prog, users, movers)
    # room check result is honoured (GATE) so growth happens before the write, and the test that triggers growth is sound
    PL.gate_rule(chk, prog, roles)
    from checks import C07
    C07.room_predicate(chk, prog, roles)
    chk.explanation = (
        "Decides the growth protocol: the code buffer is a private anonymous RWX mapping of buffer_len bytes; growth calls "
        "mremap(buffer, buffer_len, buffer_len + step, MREMAP_MAYMOVE), compares the result with MAP_FAILED before touching the "
        "instance, then sets buffer_len to the new length and buffer to the result; a failed growth leaves both untouched; only "
        "creation and the growth routine assign buffer; no pointer derived from the buffer is used after a call that may move "
        "it; every write is gated by the room check. NOT decided: byte equality with a reference run, sufficiency of one "
        "growth step for offsets set far beyond the mapping.")
