"""C17 - OS resource failures are reported, never crash or corrupt."""
from valib.core import kids, strip, walk, expr_str, loc_str, callee_name, call_args, ConstEval, qtype
from valib import err as ERR
from valib import eff as EFF

LEVEL = "proof"


def os_inventory(prog, units_prefix="src/"):
    inv = []
    names = set(ERR.OS_FAIL) | set(ERR.OPTIONAL) - {"perror", "fprintf", "printf"}
    for fn, f in sorted(prog.functions.items()):
        if not prog.func_unit[fn].startswith(units_prefix):
            continue
        for c in walk(prog.body(f)):
            if c.get("kind") == "CallExpr" and callee_name(c) in names and callee_name(c) not in prog.functions:
                inv.append((fn, callee_name(c), c))
    return inv


_SK = {}


def _status_kinds(prog):
    if id(prog) not in _SK:
        _SK[id(prog)] = ERR.internal_status_kinds(prog)
    return _SK[id(prog)]


def check_functions(chk, prog, fnames, kinds, rule_prefix=""):
    """run the ERR domain over the functions; returns {fname: domain}"""
    doms = {}
    for fname in fnames:
        reports = []

        def report(kind, node, text, fname=fname, reports=reports):
            reports.append((kind, node, text))
        dom = ERR.analyse_function(prog, fname, kinds, report)
        doms[fname] = dom
        seen = set()
        for kind, node, text in reports:
            key = "%s%s/%s/%s" % (rule_prefix, kind, fname, expr_str(node)[:50])
            if key in seen:
                continue
            seen.add(key)
            chk.bad(rule_prefix + kind, key, loc_str(node), "every OS result is compared with its failure value before any use, "
                    "and instance state is written only after the check", text)
        # one discharged obligation per must-check call site without a report
        bad_nodes = {id(n) for _, n, _ in reports}
        for site in {id(sn): sn for sn in dom.sites}.values():
            cn = callee_name(site)
            chk.ok(rule_prefix + "CHK", "%sCHK/%s/%s@%s" % (rule_prefix, fname, cn, expr_str(site)[:40]), loc_str(site),
                   "result of %s() is checked before use" % cn) if not any(
                       (k == "CHK" and cn in t) for k, _, t in reports) else None
        # RET: failure paths return failure; nothing unchecked reaches a successful return
        conv = _status_kinds(prog).get(fname)
        for n, s in dom.rets:
            failed = s.get("__failed")
            if conv == "status" and n.get("kind") == "ReturnStmt" and kids(n):
                # the documented failure value is EXIT_FAILURE: the raw result of an OS call (-1 / EOF on failure) is not a status
                ck = dom._call_kind(kids(n)[0])
                raw = ck[0] if ck else None
                rk0 = dom.key_of(kids(n)[0])
                if raw is None and rk0 and isinstance(s.get(rk0), ERR.U) and not s[rk0].kind.startswith("flag"):
                    raw = s[rk0].callee
                if raw is not None and raw.split("|")[0] in ERR.OS_FAIL:
                    chk.bad(rule_prefix + "RET", "%sRET/value/%s/%s" % (rule_prefix, fname, raw), loc_str(n),
                            "%s reports failure through EXIT_FAILURE, the value its callers compare with" % fname,
                            "returns the raw result of %s(), whose failure value is not EXIT_FAILURE" % raw)
                    continue
            isf = ERR.return_is_failure(prog, dom, n) if n.get("kind") == "ReturnStmt" else None
            retkey = None
            if n.get("kind") == "ReturnStmt" and kids(n):
                retkey = dom.key_of(kids(n)[0])
            retstat = s.get(retkey) if retkey else None
            where = loc_str(n)
            ops = ERR.out_param_state(prog, dom, s)
            if failed and ops != "n/a":
                # the function reports failure through its out-parameter: on a failed path it must hold the failure value
                ok = ops in (ERR.FAILED, "mixed") or isinstance(ops, ERR.U)
                chk.require(bool(ok), rule_prefix + "RET", "%sRET/%s/%s@%s" % (rule_prefix, fname, failed[0], where), where,
                            "a path on which %s() (%s) failed leaves the failure value in the out-parameter" % failed,
                            "out-parameter state at this return: %s" % ops)
                continue
            if failed:
                ok = (isf is True) or (isf is None and retkey and (retstat in (ERR.FAILED, "mixed") or isinstance(retstat, ERR.U)))
                chk.require(bool(ok), rule_prefix + "RET", "%sRET/%s/%s@%s" % (rule_prefix, fname, failed[0], where), where,
                            "a path on which %s() (%s) failed returns the failure value" % failed,
                            "returns %s" % (expr_str(kids(n)[0]) if n.get("kind") == "ReturnStmt" and kids(n) else "by falling off the end"))
            for k, v in s.items():
                if isinstance(v, ERR.U) and k != retkey and isf is not True:
                    chk.bad(rule_prefix + "CHK", "%sCHK/%s/unchecked-at-return/%s" % (rule_prefix, fname, v.callee), where,
                            "no result of %s() reaches a non-failure return unchecked" % v.callee,
                            "%s() at %s is never compared with its failure value on this path" % (v.callee, loc_str(v.node)))
    return doms


def atomic_rule(chk, prog, fnames, doms=None, rule="ATOMIC"):
    """a failing return of the room check / growth routine leaves buffer and buffer_len as they were"""
    kinds = dict(ERR.OS_FAIL)
    kinds.update(ERR.internal_summaries(prog))
    n = 0
    for fn in fnames:
        dom = (doms or {}).get(fn) or ERR.analyse_function(prog, fn, kinds, lambda *a: None)
        for r, s in dom.rets:
            isf = ERR.return_is_failure(prog, dom, r) if r.get("kind") == "ReturnStmt" else None
            if isf:
                n += 1
                w = s.get("__written", frozenset()) & {"buffer", "buffer_len"}
                chk.require(not w, rule, "%s/%s@%s" % (rule, fn, loc_str(r)), loc_str(r),
                            "a failing return of %s leaves buffer and buffer_len as they were" % fn,
                            "fields written on this path: %s" % sorted(w))
    return n


def run(chk, prog, tier):
    kinds = dict(ERR.OS_FAIL)
    kinds.update(ERR.internal_summaries(prog))
    inv = os_inventory(prog)
    chk.analysed["os_call_sites"] = ["%s: %s at %s" % (fn, cn, loc_str(c)) for fn, cn, c in inv]
    chk.analysed["internal_sentinel_functions"] = sorted(k for k in kinds if k in prog.functions)
    chk.analysed["optional_results"] = ERR.OPTIONAL
    chk.floor("OS call sites in the library", len(inv), 15)
    fnames = sorted({fn for fn, _, _ in inv} | {fn for fn, f in prog.lib_functions().items()
                                                 if any(callee_name(c) in kinds for c in walk(prog.body(f)) if c.get("kind") == "CallExpr")})
    doms = check_functions(chk, prog, fnames, kinds)
    npair = ERR.pair_rule(chk, prog, fnames)
    chk.floor("acquire/release pairs", npair, 5)
    # every must-check call site was seen by the flow analysis
    seen = set()
    for d in doms.values():
        seen |= {id(s) for s in d.sites}
    for fn, cn, c in inv:
        if cn in ERR.OS_FAIL:
            chk.require(id(c) in seen, "INV", "INV/%s/%s@%s" % (fn, cn, loc_str(c)), loc_str(c),
                        "the call site is reachable in the function's flow graph and was analysed", "not visited")
    # growth is atomic: a failing growth leaves buffer and buffer_len untouched
    growers = sorted(fn for fn, cn, _ in inv if cn == "mremap")
    chk.floor("growth routines", len(set(growers)), 1)
    atomic_rule(chk, prog, sorted(set(growers)), doms)
    # the failure of an OS call inside an internal routine travels to the public entry through internal statuses
    ERR.prop_rules(chk, prog)
    chk.trusted_base = ["clang 14 front end", "the checker (valib/flow.py, valib/err.py)",
                        "failure conventions of the libc calls as listed in valib/err.py:OS_FAIL (POSIX)"]
    chk.explanation = ("Every call site of an OS/libc resource function in the library is enumerated from resolved callees; "
                       "a typestate analysis on the structured control flow shows that its result is compared with the call's "
                       "failure value before any use, that instance fields are written only after the check, that every path "
                       "on which the call failed returns the documented failure value (EXIT_FAILURE or NULL, never a raw OS result), that a "
                       "failing growth leaves the buffer fields untouched, and (PROP) that every internal status on the way to the "
                       "public entry is tested and passed on.  A result of read()/write() held in an unsigned variable is not "
                       "accepted as tested by an ordering comparison.")
    chk.assumptions += ["close() on a read-only descriptor and munmap()/free() results may be ignored (listed in the evidence)",
                        "glibc reports failure as POSIX documents"]
