"""C18 - independent instances can be used concurrently: structural race freedom."""
from valib.core import (AnalysisBroken, kids, strip, walk, walk_with_parents, expr_str, loc_str, qtype, ref_name,
                        callee_name, ConstEval)
from valib import eff as EFF

LEVEL = "proof"

# libc functions that keep hidden static state or are documented MT-Unsafe
NON_REENTRANT = {
    "strtok", "strerror", "rand", "srand", "random", "srandom", "drand48", "lrand48", "localtime", "gmtime", "asctime",
    "ctime", "getenv", "setenv", "putenv", "setlocale", "tmpnam", "tempnam", "readdir", "getpwnam", "getpwuid", "getgrnam",
    "gethostbyname", "inet_ntoa", "basename", "dirname", "ttyname", "getlogin", "crypt", "ecvt", "fcvt", "gcvt", "l64a",
    "strsignal", "getopt", "getopt_long", "nl_langinfo", "wcstombs", "mbstowcs", "hsearch", "ptsname",
}


def static_objects(prog):
    """every object with static storage duration defined in library units"""
    objs = []
    for unit, tops in prog.units.items():
        if not unit.startswith("src/"):
            continue
        for n in tops:
            if n.get("kind") == "VarDecl" and n.get("storageClass") != "extern":
                objs.append((unit, None, n))
            if n.get("kind") == "FunctionDecl":
                for m in walk(n):
                    if m.get("kind") == "VarDecl" and m.get("storageClass") == "static":
                        objs.append((unit, n.get("name"), m))
    return objs


def _is_const_object(qt):
    qt = qt.strip()
    if qt.startswith("_Atomic") or "_Atomic(" in qt.split("[")[0] and not qt.startswith("const"):
        return False
    base = qt.split("[")[0].strip()
    if "*" in base:
        # pointer (array of pointers): the pointer itself must be const (qualifier after the last '*')
        return base.rsplit("*", 1)[1].strip().startswith("const")
    return base.startswith("const ") or " const" in base


def run(chk, prog, tier):
    objs = static_objects(prog)
    mutable = []
    for unit, fn, n in objs:
        qt = n["type"]["qualType"]
        name = n.get("name")
        if fn is not None:
            # SH3: a function-local static is shared by all callers
            chk.require(_is_const_object(qt), "SH3", "SH3/local-static/%s/%s" % (fn, name), loc_str(n),
                        "no mutable function-local static in the library", "static %s %s in %s" % (qt, name, fn))
            continue
        if _is_const_object(qt):
            chk.ok("SH1", "SH1/const/%s" % name, loc_str(n), "%s is const (%s)" % (name, qt))
        else:
            mutable.append((unit, n))
    chk.analysed["static_objects"] = ["%s %s%s" % (n["type"]["qualType"], n.get("name"), " (in %s)" % fn if fn else "") for _, fn, n in objs]
    chk.floor("objects with static storage", len(objs), 18)
    chk.floor("mutable shared objects", len(mutable), 2)
    names = set()
    for unit, n in mutable:
        qt = n["type"]["qualType"]
        names.add(n["name"])
        chk.require(qt.startswith("_Atomic"), "SH1", "SH1/atomic/%s" % n["name"], loc_str(n),
                    "the mutable shared object %s is _Atomic-qualified" % n["name"], "type %s" % qt)
    # compound literals at file scope are reached only through pointers to const
    for unit, tops in prog.units.items():
        if not unit.startswith("src/"):
            continue
        for n in tops:
            if n.get("kind") != "VarDecl":
                continue
            if any(m.get("kind") == "CompoundLiteralExpr" for m in walk(n)):
                qt = n["type"]["qualType"]
                chk.require(qt.replace(" ", "").startswith("const") and "*const" in qt.replace(" ", ""), "SH1",
                            "SH1/literal/%s" % n["name"], loc_str(n),
                            "file-scope compound literals of %s are only reachable through pointers to const" % n["name"], qt)
    # access sites of the mutable objects
    g = EFF.call_graph(prog)
    writers, readers = {}, {}
    nsites = 0
    for fn, f in sorted(prog.lib_functions().items()):
        for m, parents in walk_with_parents(prog.body(f)):
            if m.get("kind") != "DeclRefExpr" or ref_name(m) not in names:
                continue
            rd = m.get("referencedDecl", {})
            if rd.get("kind") != "VarDecl":
                continue
            # local shadowing?
            if any(p.get("kind") in ("VarDecl", "ParmVarDecl") and p.get("name") == ref_name(m) for p in walk(f) if p.get("id") == rd.get("id")):
                continue
            nsites += 1
            chain = list(parents)
            ok = (len(chain) >= 2 and chain[-1].get("kind") == "ImplicitCastExpr" and chain[-1].get("castKind") == "ArrayToPointerDecay"
                  and chain[-2].get("kind") == "ArraySubscriptExpr" and strip(kids(chain[-2])[0]) is m)
            key = "SH1/access/%s/%s@%s" % (ref_name(m), fn, loc_str(m))
            chk.require(ok, "SH1", key, loc_str(m), "the atomic table %s is accessed only by plain subscript (no address taken, no cast)" % ref_name(m),
                        "used as %s" % expr_str(chain[-2] if len(chain) >= 2 else m))
            if not ok:
                continue
            sub = chain[-2]
            up = chain[-3] if len(chain) >= 3 else None
            # skip casts/parens above the subscript
            i = len(chain) - 3
            while i >= 0 and chain[i].get("kind") in ("ImplicitCastExpr", "ParenExpr"):
                i -= 1
            up = chain[i] if i >= 0 else None
            is_store = (up is not None and up.get("kind") in ("BinaryOperator", "CompoundAssignOperator") and
                        up.get("opcode", "").endswith("=") and up.get("opcode") not in ("==", "!=", "<=", ">=") and
                        strip(kids(up)[0]) is sub)
            is_rmw = up is not None and up.get("kind") == "UnaryOperator" and up.get("opcode") in ("++", "--")
            if is_store or is_rmw:
                writers.setdefault(fn, []).append((ref_name(m), sub, up, parents))
            else:
                readers.setdefault(fn, []).append((ref_name(m), sub))
    chk.floor("access sites of the shared tables", nsites, 4)
    chk.analysed["writers"] = sorted(writers)
    chk.analysed["readers"] = sorted(readers)
    # SH2: stores are idempotent: value = forward loop index, one store per slot per build
    for fn, ws in sorted(writers.items()):
        f = prog.fn(fn)
        for (tab, sub, up, parents) in ws:
            key = "SH2/%s/%s@%s" % (tab, fn, loc_str(up))
            if up.get("kind") != "BinaryOperator" or up.get("opcode") != "=":
                chk.bad("SH2", key, loc_str(up), "stores to %s are plain assignments of the scan index" % tab, expr_str(up))
                continue
            val = strip(kids(up)[1], casts=True)
            idx_var = ref_name(val)
            # pointer scan: the index is `cursor - TABLE` with the cursor a forward-moving pointer into that const table
            if not idx_var and val.get("kind") == "BinaryOperator" and val.get("opcode") == "-":
                lp_, rp_ = strip(kids(val)[0], casts=True), strip(kids(val)[1], casts=True)
                if lp_.get("kind") == "DeclRefExpr" and "*" in qtype(lp_) and rp_.get("kind") == "DeclRefExpr" and \
                        ref_name(rp_) in prog.globals and "const" in qtype(rp_):
                    idx_var = ref_name(lp_)
            loops = [p for p in parents if p.get("kind") in ("WhileStmt", "ForStmt", "DoStmt")]
            ok_val = bool(idx_var) and bool(loops) and _is_forward_induction(loops[-1], idx_var) and _writes_only_by_increment(f, idx_var)
            chk.require(ok_val, "SH2", key + "/value", loc_str(up),
                        "the stored value is the forward scan index of the enclosing loop (a pure function of the const table)",
                        "stores %s" % expr_str(val))
            # once per slot: the subscript is the loop index itself, or the store is guarded by `prev != key`
            subidx = strip(kids(sub)[1], casts=True)
            once = ref_name(subidx) == idx_var and bool(idx_var)
            guard = None
            for p in reversed(parents):
                if p.get("kind") == "IfStmt":
                    guard = kids(p)[0]
                    break
                if p.get("kind") in ("WhileStmt", "ForStmt", "DoStmt"):
                    break
            if not once and guard is not None:
                once = _guard_is_key_change(prog, f, guard, subidx, loops[-1] if loops else None)
            chk.require(once, "SH2", key + "/once", loc_str(up),
                        "each slot is stored at most once per build (so concurrent rebuilds never expose a transient value)",
                        "subscript %s, guard %s" % (expr_str(subidx), expr_str(guard) if guard is not None else "none"))
    # every create performs the whole build: the builder has no early exit and its scans are not conditional
    for fn in sorted(writers):
        f = prog.fn(fn)
        rets = [m for m in walk(prog.body(f)) if m.get("kind") == "ReturnStmt"]
        top = kids(prog.body(f))
        loops_with_store = []
        for (tab, sub, up, parents) in writers[fn]:
            lp = [p for p in parents if p.get("kind") in ("WhileStmt", "ForStmt", "DoStmt")]
            if lp and not any(lp[0] is x for x in loops_with_store):
                loops_with_store.append(lp[0])
        uncond = all(any(l is t for t in top) for l in loops_with_store)
        chk.require(not rets and uncond, "SH2", "SH2/unconditional/%s" % fn, loc_str(f),
                    "every call of %s runs its complete scans (no early return, scans not under a condition): a thread's own create always "
                    "leaves the tables complete" % fn,
                    "%d return statement(s); scans at top level: %s" % (len(rets), uncond))
        # the builder is called unconditionally on every successful path of asm_create_instance
    # only the table builder (reached from asm_create_instance) writes; nobody else
    entry_writers = EFF.reachable(g, ["asm_create_instance"])
    for fn in sorted(writers):
        chk.require(fn in entry_writers and fn not in EFF.reachable(g, ["asm_assemble_str", "asm_assemble_string_counting_chunks"]),
                    "SH2", "SH2/writer-role/%s" % fn, loc_str(prog.fn(fn)),
                    "the shared tables are written only on the instance-creation path, never while assembling",
                    "%s is reachable from an assemble entry point" % fn)
    # SH3: non-reentrant libc
    ncalls = 0
    for fn, f in sorted(prog.lib_functions().items()):
        for c in walk(prog.body(f)):
            if c.get("kind") == "CallExpr":
                ncalls += 1
                cn = callee_name(c)
                if cn in NON_REENTRANT:
                    chk.bad("SH3", "SH3/libc/%s/%s" % (fn, cn), loc_str(c), "no call to a non-reentrant libc function from the library",
                            "%s() keeps hidden static state" % cn)
    for cn in ("strtok_r",):
        sites = [c for fn, f in prog.lib_functions().items() for c in walk(prog.body(f))
                 if c.get("kind") == "CallExpr" and callee_name(c) == cn]
        for c in sites:
            from valib.core import call_args
            sv = strip(call_args(c)[2], casts=True)
            ok = sv.get("kind") == "UnaryOperator" and sv.get("opcode") == "&" and \
                strip(kids(sv)[0]).get("referencedDecl", {}).get("kind") in ("VarDecl", "ParmVarDecl") and \
                ref_name(kids(sv)[0]) not in prog.globals
            ok = ok or (sv.get("kind") == "DeclRefExpr" and sv.get("referencedDecl", {}).get("kind") == "ParmVarDecl")
            chk.require(ok, "SH3", "SH3/strtok_r/%s" % loc_str(c), loc_str(c), "strtok_r keeps its position in a local save pointer", expr_str(sv))
    chk.ok("SH3", "SH3/libc/deny-list", "src/", "%d call sites checked against the non-reentrant deny-list" % ncalls)
    chk.floor("call sites inspected", ncalls, 100)
    # SH4: assemble entry points touch no other global
    fx = EFF.field_effects(prog, g)
    entries = [fn for fn in prog.lib_functions() if fn.startswith(("asm_", "assemble_")) and prog.fn(fn).get("storageClass") != "static"]
    for fn in sorted(entries):
        reach = EFF.reachable(g, [fn])
        gw, gr = set(), set()
        for r in reach:
            if r in fx:
                gw |= fx[r]["gw"]
                gw |= {x for x in fx[r]["gaddr"] if x in prog.globals and not _is_const_object(prog.globals[x]["type"]["qualType"])}
                gr |= fx[r]["gr"]
        bad_w = sorted(x for x in gw if x not in names)
        bad_r = sorted(x for x in gr if x not in names and not _is_const_object(prog.globals[x]["type"]["qualType"]))
        chk.require(not bad_w and not bad_r, "SH4", "SH4/%s" % fn, loc_str(prog.fn(fn)),
                    "%s touches only its instance, its arguments, its stack, const tables and the atomic index tables" % fn,
                    "writes %s reads %s" % (bad_w, bad_r))
    chk.floor("public entry points", len(entries), 20)
    chk.trusted_base = ["clang 14 front end", "the checker", "C11 _Atomic semantics (seq_cst loads/stores of int)",
                        "glibc's documented MT-safety of fprintf/perror/strtoul/tolower/strtok_r/mmap family"]
    chk.explanation = ("Race freedom by construction: every object with static storage in the library is inventoried; all are "
                       "const except the two _Atomic first-letter index tables, which are accessed only by plain subscript, "
                       "written only on the creation path with the forward scan index and at most once per slot per build "
                       "(idempotent rebuilds; relies on T1's one-run-per-letter rule checked under C01), and no "
                       "non-reentrant libc function or function-local static is used. Everything else an entry point touches "
                       "is its instance, arguments or stack.")
    chk.assumptions += ["T1 (one first-letter run per letter, checked by C01) makes the guarded store fire once per letter"]


def _is_forward_induction(loop, var):
    """the loop advances `var` by ++ (in its condition, increment or body) and never decrements it"""
    inc = dec = 0
    for m in walk(loop):
        if m.get("kind") == "UnaryOperator" and m.get("opcode") in ("++", "--") and ref_name(kids(m)[0]) == var:
            if m["opcode"] == "++":
                inc += 1
            else:
                dec += 1
        if m.get("kind") == "CompoundAssignOperator" and ref_name(kids(m)[0]) == var:
            if m.get("opcode") == "+=":
                inc += 1
            else:
                dec += 1
    return inc >= 1 and dec == 0


def _writes_only_by_increment(f, var):
    """apart from constant (re)initialisation, `var` changes only by ++"""
    for m in walk(f):
        if m.get("kind") == "BinaryOperator" and m.get("opcode") == "=" and ref_name(kids(m)[0]) == var:
            r = strip(kids(m)[1], casts=True)
            if r.get("kind") != "IntegerLiteral":
                return False
        if m.get("kind") == "UnaryOperator" and m.get("opcode") == "--" and ref_name(kids(m)[0]) == var:
            return False
    return True


def _guard_is_key_change(prog, f, guard, subidx, loop):
    """guard is `prev != K` where the subscript is `K - const` and `prev = K` is assigned in the loop"""
    g = strip(guard)
    if g.get("kind") != "BinaryOperator" or g.get("opcode") != "!=":
        return False
    a, b = strip(kids(g)[0], casts=True), strip(kids(g)[1], casts=True)
    s = strip(subidx, casts=True)
    keytxt = None
    if s.get("kind") == "BinaryOperator" and s.get("opcode") == "-":
        keytxt = expr_str(kids(s)[0])
    else:
        keytxt = expr_str(s)
    for prev, key in ((a, b), (b, a)):
        pn = ref_name(prev)
        if pn and expr_str(key) == keytxt and loop is not None:
            for m in walk(loop):
                if m.get("kind") == "BinaryOperator" and m.get("opcode") == "=" and ref_name(kids(m)[0]) == pn and \
                        expr_str(kids(m)[1]) == keytxt:
                    return True
    return False
