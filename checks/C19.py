"""C19 - file entry points equal their in-memory counterparts: delegation, string origin, failure returns."""
from valib.core import (AnalysisBroken, ConstEval, kids, strip, walk, walk_with_parents, expr_str, loc_str, qtype, ref_name,
                        callee_name, call_args)
from valib import eff as EFF
from valib import err as ERR
from valib import pipeline as PL

LEVEL = "other"

O_TRUNC = 0o1000


def _loader(prog):
    """the function that turns a path into a buffer: opens the file and returns a pointer"""
    c = [fn for fn, f in prog.lib_functions().items()
         if any(x.get("kind") == "CallExpr" and callee_name(x) == "open" for x in walk(prog.body(f))) and
         (qtype(f).split("(")[0].strip().endswith("*") or any(qtype(p).count("*") >= 2 for p in prog.params(f)))]
    if len(c) != 1:
        raise AnalysisBroken("file loader not identified: %s" % c)
    return c[0]


def _assignments(prog, f):
    """{lvalue text: [rhs nodes]} of plain assignments and initialisations in f"""
    out = {}
    for m in walk(prog.body(f)):
        if m.get("kind") == "BinaryOperator" and m.get("opcode") == "=":
            out.setdefault(expr_str(kids(m)[0]), []).append(kids(m)[1])
        if m.get("kind") == "VarDecl" and kids(m):
            out.setdefault(m["name"], []).append(kids(m)[-1])
    return out


def _eval_with(prog, e, env, asg, depth=0):
    """numeric value of an expression with symbols bound (for computing a witness)"""
    e = strip(e, casts=True)
    v = ConstEval(prog).try_eval(e)
    if v is not None:
        return v
    txt = expr_str(e)
    if txt in env:
        return env[txt]
    k = e.get("kind")
    if k == "BinaryOperator":
        a = _eval_with(prog, kids(e)[0], env, asg, depth)
        b = _eval_with(prog, kids(e)[1], env, asg, depth)
        if a is None or b is None:
            return None
        op = e["opcode"]
        try:
            return {"+": a + b, "-": a - b, "*": a * b, "/": a // b if b else None, "%": a % b if b else None,
                    "<<": a << b, ">>": a >> b, "&": a & b, "|": a | b, "<": int(a < b), ">": int(a > b), "<=": int(a <= b),
                    ">=": int(a >= b), "==": int(a == b), "!=": int(a != b), "&&": int(bool(a and b)), "||": int(bool(a or b))}.get(op)
        except (TypeError, ValueError):
            return None
    if k == "ConditionalOperator":
        c = _eval_with(prog, kids(e)[0], env, asg, depth)
        if c is None:
            return None
        return _eval_with(prog, kids(e)[1] if c else kids(e)[2], env, asg, depth)
    if k == "UnaryOperator" and e.get("opcode") in ("-", "~", "!"):
        a = _eval_with(prog, kids(e)[0], env, asg, depth)
        if a is None:
            return None
        return {"-": -a, "~": ~a, "!": int(not a)}[e["opcode"]]
    if k == "CallExpr" and callee_name(e) in ("sysconf", "getpagesize"):
        return 4096
    if depth < 4 and txt in asg and len(asg[txt]) == 1:
        return _eval_with(prog, asg[txt][0], env, asg, depth + 1)
    if depth < 4 and txt in asg and len(asg[txt]) > 1:
        # several assignments: a constant initialiser that is overwritten by one computed value before it is used
        # (`size_t n = 0; ... n = st.st_size;`) evaluates to the computed value
        nonconst = [r for r in asg[txt] if ConstEval(prog).try_eval(strip(r, casts=True)) is None]
        if len(nonconst) == 1:
            return _eval_with(prog, nonconst[0], env, asg, depth + 1)
    if k == "MemberExpr" and e.get("name") == "st_size":
        return env.get("$size")
    return None


def _loader_call(prog, f, loader):
    for m in walk(prog.body(f)):
        if m.get("kind") == "CallExpr" and callee_name(m) == loader:
            return m
    return None


def _text_var(prog, f, loader):
    """the local that holds the loaded text: initialised from the loader's pointer result, or handed to it by address (char **)"""
    lf = prog.fn(loader)
    ptr_result = qtype(lf).split("(")[0].strip().endswith("*")
    for m in walk(prog.body(f)):
        if ptr_result and m.get("kind") == "VarDecl" and kids(m) and strip(kids(m)[-1], casts=True).get("kind") == "CallExpr" and \
                callee_name(strip(kids(m)[-1], casts=True)) == loader:
            return m["name"]
    c = _loader_call(prog, f, loader)
    if c is not None and not ptr_result:
        for p, a in zip(prog.params(lf), call_args(c)):
            a0 = strip(a, casts=True)
            if qtype(p).count("*") >= 2 and a0.get("kind") == "UnaryOperator" and a0.get("opcode") == "&":
                return ref_name(strip(kids(a0)[0], casts=True))
    return None


def _length_var(prog, f, loader):
    """the local that holds the mapped length: handed to the loader by address (size_t *), or initialised from its integer result"""
    lf = prog.fn(loader)
    c = _loader_call(prog, f, loader)
    if c is None:
        return None
    for p, a in zip(prog.params(lf), call_args(c)):
        a0 = strip(a, casts=True)
        if qtype(p).replace(" ", "") in ("size_t*", "unsignedlong*") and a0.get("kind") == "UnaryOperator" and a0.get("opcode") == "&":
            return ref_name(strip(kids(a0)[0], casts=True))
    for m in walk(prog.body(f)):
        if m.get("kind") == "VarDecl" and kids(m) and strip(kids(m)[-1], casts=True) is c:
            return m["name"]
    return None


def delegation_rule(chk, prog, roles):
    lib = prog.lib_functions()
    loader = _loader(prog)
    ce = ConstEval(prog)
    # ---- DELEG: the wrappers call the matching string entry on the loaded text and return its result --------
    # A wrapper is a public function; the loader call may sit in the wrapper itself or in a static helper the wrapper calls with
    # constant selectors (one helper serving both wrappers).  The helper is then interpreted per wrapper with those constants.
    from valib.flow import Flow

    class _Spec:
        """calls made by f when some parameters are bound to constants (branches decided by them are pruned)"""
        def __init__(self, consts):
            self.ce = ConstEval(prog, consts)
            self.calls = []
        def copy(self, s): return s
        def join(self, a, b): return a
        def equal(self, a, b): return True
        def widen(self, o, n): return n
        def decl(self, vd, s):
            for c in kids(vd):
                s = self.eval(c, s)
            return s
        def eval(self, e, s):
            e0 = strip(e)
            if not e0:
                return s
            if e0.get("kind") == "ConditionalOperator":
                c = self.ce.try_eval(strip(kids(e0)[0]))
                self.eval(kids(e0)[0], s)
                if c is not None:
                    return self.eval(kids(e0)[1] if c else kids(e0)[2], s)
            for c in kids(e0):
                self.eval(c, s)
            if e0.get("kind") == "CallExpr" and callee_name(e0) in lib and not any(e0 is x for x in self.calls):
                self.calls.append(e0)
            return s
        def assume(self, e, t, s):
            v = self.ce.try_eval(strip(e))
            return None if (v is not None and bool(v) != t) else s
        def ret(self, n, s): pass

    units = []      # (wrapper, body function, constants bound in the body, body parameter -> wrapper expression text)
    for fn, f in sorted(lib.items()):
        if not any(x.get("kind") == "CallExpr" and callee_name(x) == loader for x in walk(prog.body(f))):
            continue
        callers = [(g, c) for g, gf in lib.items() for c in walk(prog.body(gf)) if c.get("kind") == "CallExpr" and callee_name(c) == fn]
        if f.get("storageClass") == "static" and callers:
            for g, c in callers:
                hp = prog.params(f)
                consts = {p["name"]: ce.try_eval(strip(a, casts=True)) for p, a in zip(hp, call_args(c)) if ce.try_eval(strip(a, casts=True)) is not None}
                amap = {p["name"]: expr_str(strip(a, casts=True)) for p, a in zip(hp, call_args(c))}
                units.append((g, fn, consts, amap, c))
        else:
            units.append((fn, fn, {}, {p["name"]: p["name"] for p in prog.params(f)}, None))
    pairs = []
    for wname, fn, consts, amap, hcall in units:
        w, f = lib[wname], lib[fn]
        wps = [p["name"] for p in prog.params(w)]
        counting = "int *" in [qtype(p) for p in prog.params(w)]
        want = [e for e in roles.direct_entries if ("int *" in [qtype(p) for p in prog.params(prog.fn(e))]) == counting]
        spec = _Spec(consts)
        Flow(spec).function(prog, f, ())
        calls = [x for x in spec.calls if callee_name(x) in roles.direct_entries]
        key = "DELEG/%s" % wname
        if len(calls) != 1 or callee_name(calls[0]) not in want:
            chk.bad("DELEG", key, loc_str(w), "%s delegates to the %s string entry point" % (wname, "counting" if counting else "plain"),
                    "calls %s" % [callee_name(x) for x in calls])
            continue
        call = calls[0]
        pairs.append((fn, callee_name(call)))
        a = call_args(call)
        # the wrapper does nothing else with the library: no shortcut through another entry point
        def instance_free(gname, depth=0):
            """a static helper that is given no instance and reaches no library function that takes one (clean-up of the loaded text)"""
            g = lib.get(gname)
            if g is None or g.get("storageClass") != "static" or depth > 3:
                return False
            if any("assemblyline" in qtype(p_) for p_ in prog.params(g)):
                return False
            return all(instance_free(callee_name(x), depth + 1) for x in walk(prog.body(g))
                       if x.get("kind") == "CallExpr" and callee_name(x) in lib)
        extra = sorted(c_ for c_ in {callee_name(x) for x in spec.calls} - {loader, callee_name(call)} if not instance_free(c_))
        if wname != fn:
            extra += sorted(c_ for c_ in {callee_name(x) for x in walk(prog.body(w)) if x.get("kind") == "CallExpr" and callee_name(x) in lib} - {fn}
                            if not instance_free(c_))
        chk.require(not extra, "DELEG", key + "/only", loc_str(w),
                    "%s calls no library function besides the loader and its string counterpart (every call takes the same route)" % wname,
                    "also calls %s" % extra)
        # ... and the delegation does not depend on the wrapper's own arguments (selectors bound to constants are decided already)
        cond_on_args = []
        fps = [p["name"] for p in prog.params(f) if p["name"] not in consts]
        for m, parents in walk_with_parents(prog.body(f)):
            if m is call:
                for pnode in parents:
                    if pnode.get("kind") in ("IfStmt", "ConditionalOperator", "SwitchStmt", "WhileStmt", "ForStmt"):
                        cnd = (pnode.get("inner") or [None])[2 if pnode["kind"] == "ForStmt" else 0]
                        if cnd and any(d.get("kind") == "DeclRefExpr" and ref_name(d) in fps for d in walk(cnd)):
                            cond_on_args.append(pnode)
        chk.require(not cond_on_args, "DELEG", key + "/unconditional", loc_str(call),
                    "the call of the string entry point does not depend on the wrapper's own arguments", "nested in %s on an argument" % [x.get("kind") for x in cond_on_args])
        # same instance, the loaded text, and (for counting) the caller's chunk size and result pointer
        txtvar = _text_var(prog, f, loader)
        passed = [amap.get(expr_str(strip(x, casts=True)), expr_str(strip(x, casts=True))) for x in a]
        expect = [wps[0], txtvar] + [p for p in wps[2:]]
        chk.require(passed == expect, "DELEG", key + "/args", loc_str(call),
                    "%s passes its instance, the loaded text and its remaining arguments unchanged" % wname, "passes %s, expected %s" % (passed, expect))
        # the delegate's result is what the body returns on its last return, and the wrapper returns the body's result
        def returns_result_of(g, c):
            resvar = None
            for m, parents in walk_with_parents(prog.body(g)):
                if m is c:
                    for p in reversed(parents):
                        if p.get("kind") == "VarDecl":
                            resvar = p["name"]
                            break
                        if p.get("kind") == "BinaryOperator" and p.get("opcode") == "=" and ref_name(strip(kids(p)[0], casts=True)):
                            resvar = ref_name(strip(kids(p)[0], casts=True))
                            break
                        if p.get("kind") == "ReturnStmt":
                            resvar = "<direct>"
                            break
            rets = [m for m in walk(prog.body(g)) if m.get("kind") == "ReturnStmt" and kids(m)]
            last = rets[-1] if rets else None
            okr = resvar == "<direct>" or (last is not None and ref_name(strip(kids(last)[0], casts=True)) == resvar)
            if not okr and last is not None and resvar:
                # `return release(text, len, status)`: a helper that hands the status back unless its own work fails
                le = strip(kids(last)[0], casts=True)
                if le.get("kind") == "CallExpr" and callee_name(le) in lib:
                    pt = ERR.passthrough_params(prog, callee_name(le))
                    okr = any(i in pt and ref_name(strip(x, casts=True)) == resvar for i, x in enumerate(call_args(le)))
            others = [r for r in rets if r is not last and ce.try_eval(strip(kids(r)[0], casts=True)) in (0,)]
            return okr and not others, last
        okr, last = returns_result_of(f, call)
        if okr and wname != fn:
            okr, last = returns_result_of(w, hcall)
        chk.require(okr, "DELEG", key + "/result", loc_str(last) if last else loc_str(w),
                    "%s returns the result of the string entry point (and never EXIT_SUCCESS on its own)" % wname,
                    "returns %s" % (expr_str(kids(last)[0]) if last else "nothing"))
    # a file entry point that does not load the text itself but goes through another file entry point: what it ends up
    # delegating to must still be the string entry point of its own kind (plain for the plain one, counting for the counting one)
    unit_names = {u[0] for u in units}
    by_wrapper = dict(pairs)
    for fn, f in sorted(lib.items()):
        if fn in unit_names or f.get("storageClass") == "static" or "file" not in fn or "assemble" not in fn:
            continue
        inner = [c for c in walk(prog.body(f)) if c.get("kind") == "CallExpr" and callee_name(c) in unit_names]
        if len(inner) != 1:
            continue
        target = callee_name(inner[0])
        counting = "int *" in [qtype(p) for p in prog.params(f)]
        tcount = "int *" in [qtype(p) for p in prog.params(lib[target])]
        legacy_alias = len(prog.params(f)) == len(prog.params(lib[target])) and counting == tcount
        chk.require(legacy_alias, "DELEG", "DELEG/%s" % fn, loc_str(inner[0]),
                    "%s delegates to the %s string entry point" % (fn, "counting" if counting else "plain"),
                    "goes through %s, which delegates to %s" % (target, by_wrapper.get(target, "?")))
        if legacy_alias and target in by_wrapper:
            pairs.append((fn, by_wrapper[target]))
    pairs = sorted(set(pairs))
    chk.floor("file wrappers", len(pairs), 2)
    chk.analysed["delegation"] = pairs
    return pairs


def unmap_length_rule(chk, prog, loader, maps, asg, pairs):
    """UNMAP: every munmap of the loaded text is given exactly the length that was mapped (munmap(p, 0) fails with EINVAL and a
    shorter length leaks pages)"""
    lf = prog.fn(loader)
    outs = [p for p in prog.params(lf) if qtype(p).replace(" ", "") in ("size_t*", "unsignedlong*")]
    n = 0
    if len(maps) != 1:
        return
    mlen = call_args(maps[0])[1]
    sizes = (0, 1, 4095, 4096, 4097, 1 << 20)

    def norm_text(e, depth=0):
        """expression text with single-assignment names replaced by what they were assigned"""
        e = strip(e, casts=True)
        t = expr_str(e)
        if depth < 4 and t in asg and len(asg[t]) == 1:
            return norm_text(asg[t][0], depth + 1)
        return t

    def same_length(e, env_extra=None):
        if norm_text(e) == norm_text(mlen):
            return True, None       # literally the same quantity
        for size in sizes:
            env = {"$size": size}
            a = _eval_with(prog, mlen, env, asg)
            b = _eval_with(prog, e, env, asg)
            if a is None or b is None:
                return None, size
            if a != b:
                return False, (size, a, b)
        return True, None
    # inside the loader
    for c in walk(prog.body(lf)):
        if c.get("kind") == "CallExpr" and callee_name(c) == "munmap":
            n += 1
            ok, w = same_length(call_args(c)[1])
            if ok is None:
                chk.broken("UNMAP", "UNMAP/%s@%s" % (loader, loc_str(c)), loc_str(c), "the munmap length can be compared with the mapped length", expr_str(call_args(c)[1]))
            else:
                chk.require(ok, "UNMAP", "UNMAP/%s@%s" % (loader, loc_str(c)), loc_str(c),
                            "the loader unmaps exactly the length it mapped", "for a file of %s bytes: mapped %s, unmapped %s" % (w or (0, 0, 0)))
    # the length reported to the callers: stored through the size_t * out-parameter, or returned
    stores = []
    for m in walk(prog.body(lf)):
        if m.get("kind") == "BinaryOperator" and m.get("opcode") == "=":
            l = strip(kids(m)[0], casts=True)
            if l.get("kind") == "UnaryOperator" and l.get("opcode") == "*" and outs and ref_name(strip(kids(l)[0], casts=True)) == outs[0]["name"]:
                stores.append(m)
    if not outs:
        for m in walk(prog.body(lf)):
            if m.get("kind") == "ReturnStmt" and kids(m) and ConstEval(prog).try_eval(strip(kids(m)[0], casts=True)) is None:
                stores.append({"kind": "ret", "inner": [None, kids(m)[0]], "_node": m})
    for m in stores:
        n += 1
        if m.get("kind") == "ret":
            rhs, m = m["inner"][1], m["_node"]
        else:
            rhs = kids(m)[1]
        ok, w = same_length(rhs)
        if ok is None:
            chk.broken("UNMAP", "UNMAP/reported@%s" % loc_str(m), loc_str(m), "the reported length can be compared with the mapped length", expr_str(rhs))
        else:
            chk.require(ok, "UNMAP", "UNMAP/reported@%s" % loc_str(m), loc_str(m),
                        "the length the loader reports to its callers is the mapped length", "for a file of %s bytes: mapped %s, reported %s" % (w or (0, 0, 0)))
    # the wrappers hand exactly that variable to munmap, for the pointer the loader returned
    for fn, _ in pairs:
        f = prog.fn(fn)
        pv, lv = _text_var(prog, f, loader), _length_var(prog, f, loader)
        for c in walk(prog.body(f)):
            if c.get("kind") == "CallExpr" and callee_name(c) == "munmap":
                n += 1
                a = call_args(c)
                ok = ref_name(strip(a[0], casts=True)) == pv and ref_name(strip(a[1], casts=True)) == lv and lv is not None
                chk.require(ok, "UNMAP", "UNMAP/%s" % fn, loc_str(c),
                            "%s unmaps the loaded text with the length the loader reported" % fn, "munmap(%s, %s)" % (expr_str(a[0]), expr_str(a[1])))
            # ... or hand both to a static helper that unmaps its parameters (clean-up extracted into a function)
            elif c.get("kind") == "CallExpr" and callee_name(c) in prog.lib_functions() and \
                    prog.lib_functions()[callee_name(c)].get("storageClass") == "static":
                g = prog.lib_functions()[callee_name(c)]
                gps = [p_["name"] for p_ in prog.params(g)]
                for um in walk(prog.body(g)):
                    if um.get("kind") == "CallExpr" and callee_name(um) == "munmap":
                        ua = call_args(um)
                        pi = gps.index(ref_name(strip(ua[0], casts=True))) if ref_name(strip(ua[0], casts=True)) in gps else None
                        li = gps.index(ref_name(strip(ua[1], casts=True))) if ref_name(strip(ua[1], casts=True)) in gps else None
                        ca = call_args(c)
                        if pi is None or ref_name(strip(ca[pi], casts=True)) != pv:
                            continue            # not the loaded text
                        n += 1
                        ok = li is not None and li < len(ca) and ref_name(strip(ca[li], casts=True)) == lv and lv is not None
                        chk.require(ok, "UNMAP", "UNMAP/%s/%s" % (fn, callee_name(c)), loc_str(c),
                                    "%s unmaps the loaded text (through %s) with the length the loader reported" % (fn, callee_name(c)),
                                    "%s(...) unmaps (%s, %s)" % (callee_name(c), expr_str(ca[pi]), expr_str(ca[li]) if li is not None and li < len(ca) else expr_str(ua[1])))
        # the length variable is written by nobody but the loader
        if lv:
            for a in EFF.accesses(prog.body(f)):
                nd = strip(a.node)
                if nd.get("kind") == "DeclRefExpr" and ref_name(nd) == lv and a.ctx in ("w", "rw"):
                    chk.bad("UNMAP", "UNMAP/%s/length-modified" % fn, loc_str(a.node), "the reported length reaches munmap unmodified", a.text)
    chk.floor("unmap length sites", n, 3)


def bin_rule(chk, prog):
    ce = ConstEval(prog)
    # ---- BIN: the binary file holds exactly [0, offset) ----------------------------------------------------------
    bf = prog.fn("asm_create_bin_file")
    inst = prog.params(bf)[0]["name"]
    basg = _assignments(prog, bf)

    def resolves_to(e, field, getter):
        e = strip(e, casts=True)
        t = expr_str(e)
        if t in ("%s->%s" % (inst, field), "%s(%s)" % (getter, inst)):
            return True
        if t in basg and len(basg[t]) == 1:
            return resolves_to(basg[t][0], field, getter)
        return False
    fw = [c for c in walk(prog.body(bf)) if c.get("kind") == "CallExpr" and callee_name(c) == "fwrite"]
    chk.floor("fwrite calls", len(fw), 1)
    for c in fw:
        a = call_args(c)
        chk.require(resolves_to(a[0], "buffer", "asm_get_code") or resolves_to(a[0], "buffer", "asm_get_buffer"), "BIN", "BIN/data", loc_str(c),
                    "fwrite is given the start of the code buffer", expr_str(a[0]))
        chk.require(ce.try_eval(a[1]) == 1 and resolves_to(a[2], "offset", "asm_get_offset"), "BIN", "BIN/count", loc_str(c),
                    "fwrite is asked for exactly offset bytes (element size 1)", "size %s count %s" % (expr_str(a[1]), expr_str(a[2])))
    opens = [c for c in walk(prog.body(bf)) if c.get("kind") == "CallExpr" and callee_name(c) in ("fopen", "open", "creat")]
    chk.floor("output file opens", len(opens), 1)
    for c in opens:
        a = call_args(c)
        if callee_name(c) == "fopen":
            mode = strip(a[1], casts=True)
            mv = mode.get("value", "") if mode.get("kind") == "StringLiteral" else ""
            chk.require(mv.strip('"').startswith("w"), "BIN", "BIN/truncate", loc_str(c),
                        "the output file is opened for writing with truncation (mode \"w...\")", "mode %s" % mv)
        elif callee_name(c) == "open":
            fl = ce.try_eval(a[1])
            chk.require(fl is not None and fl & O_TRUNC, "BIN", "BIN/truncate", loc_str(c),
                        "the output file is opened with O_TRUNC (an existing longer file must not keep its tail)", "flags %s" % (oct(fl) if fl is not None else "?"))


def run(chk, prog, tier):
    roles = PL.Roles(prog)
    lib = prog.lib_functions()
    loader = _loader(prog)
    lf = lib[loader]
    chk.analysed["loader"] = loader
    asg = _assignments(prog, lf)
    ce = ConstEval(prog)
    # ---- CSTR: what the loader returns is a NUL-terminated string -----------------------------------
    maps = [c for c in walk(prog.body(lf)) if c.get("kind") == "CallExpr" and callee_name(c) == "mmap"]
    reads = [c for c in walk(prog.body(lf)) if c.get("kind") == "CallExpr" and callee_name(c) == "read"]
    chk.floor("mappings in the loader", len(maps), 1)
    for c in maps:
        a = call_args(c)
        fd = ce.try_eval(a[4])
        flags = ce.try_eval(a[3])
        anon = fd == -1 and flags is not None and flags & 0x20
        if not anon:
            chk.bad("CSTR", "CSTR/file-mapping", loc_str(c), "the text handed to the string entry points is NUL-terminated",
                    "a mapping of the file itself has no terminator when the size is a multiple of the page size, and an empty file cannot be mapped")
            continue
        # anonymous zero-filled mapping: its length must exceed the number of bytes read into it, for every file size
        bad_at = None
        undecided = False
        for size in (0, 1, 4095, 4096, 4097, 8192, 12288, 1 << 20):
            L = _eval_with(prog, a[1], {"$size": size}, asg)
            if L is None:
                undecided = True
                break
            rmax = 0
            for r in reads:
                cnt = _eval_with(prog, call_args(r)[2], {"$size": size, "done": 0}, asg)
                if cnt is None:
                    undecided = True
                    break
                rmax = max(rmax, cnt)
            if undecided:
                break
            if not (L >= rmax + 1 and L >= size + 1):
                bad_at = (size, L, rmax)
                break
        if undecided:
            chk.broken("CSTR", "CSTR/length", loc_str(c), "the length of the anonymous mapping can be compared with the bytes read", expr_str(a[1]))
        else:
            chk.require(bad_at is None, "CSTR", "CSTR/terminator-room", loc_str(c),
                        "the zero-filled mapping is at least one byte longer than the file contents read into it (so the text is NUL-terminated, also for empty and page-multiple files)",
                        "for a file of %s bytes the mapping has %s bytes and up to %s are read" % (bad_at or (0, 0, 0)))
        # the mapping is written only by read() into it and is returned (or discarded) as a whole
    for r in reads:
        a = call_args(r)
        cnt = strip(a[2], casts=True)
        ok = cnt.get("kind") == "BinaryOperator" and cnt.get("opcode") == "-"
        chk.require(ok, "CSTR", "CSTR/read-bound", loc_str(r), "each read() asks for at most the bytes still missing (file size minus bytes done)", expr_str(cnt))
    pairs = delegation_rule(chk, prog, roles)
    unmap_length_rule(chk, prog, loader, maps, asg, pairs)
    # ---- failure returns of loader and wrappers (ERR) ----------------------------------------------------------
    from checks import C17
    kinds = dict(ERR.OS_FAIL)
    kinds.update(ERR.internal_summaries(prog))
    C17.check_functions(chk, prog, sorted({loader} | {p[0] for p in pairs} | {"asm_create_bin_file"}), kinds)
    npair = ERR.pair_rule(chk, prog, sorted({loader} | {p[0] for p in pairs} | {"asm_create_bin_file"}))
    chk.floor("acquire/release pairs in the file entry points", npair, 3)
    bin_rule(chk, prog)
    chk.explanation = (
        "Decides: both file wrappers load the text with one loader and return the result of the matching string entry point "
        "called with their own instance and arguments; the loader returns a zero-filled anonymous mapping at least one byte "
        "longer than the file contents it reads in (evaluated for sizes 0, 1, around and at page multiples), so the text is a "
        "NUL-terminated C string; open/fstat/map/read failures return the failure value; the binary file is opened truncating "
        "and fwrite gets buffer start, element size 1 and count offset, with its result and fclose checked. NOT decided: "
        "equality of results for all contents (follows from C06 only).")
