"""C10 - malformed or unencodable lines are rejected: propagation, format tables, scale set."""
from valib import tabrules as TR
from valib.tabrules import Tab
from valib import construles as CR

from valib.core import loc_str as loc_str_

LEVEL = "other"


def run(chk, prog, tier):
    tab = Tab(prog)
    n = TR.fmt_only(chk, tab, lambda r: True)
    chk.floor("format cells checked", n, 400)
    # injectivity of the kind-string -> format-value map
    seen = {}
    for e in tab.fmt:
        if e["ident"] == "opd_error":
            continue
        seen.setdefault(e["val"], []).append(e)
    for v, es in sorted(seen.items()):
        strs = sorted(e["str"] for e in es)
        chk.require(len(es) == 1, "FMT", "FMT/injective/%s" % es[0]["ident"], es[0]["loc"],
                    "one operand-kind string per format value (rows cannot tell two strings of one value apart)",
                    "strings %s share value %s" % (strs, es[0]["ident"]))
    CR.c02_addressing_constants(chk, prog, rule="SCALE")
    try:
        from valib import err as ERR
    except ImportError:
        ERR = None
    if ERR is not None:
        ERR.c10_rules(chk, prog, tab) if hasattr(ERR, "c10_rules") else None
    # validators stay on every accepting path (must-pass-through; instances from the pinned tree, ref/mustcall.json)
    if ERR is not None:
        from valib import mustcall as MC
        MC.mustcall_rule(chk, prog, ERR.internal_status_kinds(prog))
    PLz = __import__("valib.pipeline", fromlist=["x"])
    PLz.zero_read_rule(chk, prog, PLz.Roles(prog))
    # empty operands: every operand (not only the first) passes the leading-comma test of the operand tokenizer
    from checks import C09
    for fn, f in sorted(prog.lib_functions().items()):
        from valib.core import walk, callee_name, call_args, strip
        def _comma_scan(c):
            if c.get("kind") != "CallExpr" or callee_name(c) != "strtok_r":
                return False
            d = strip(call_args(c)[1], casts=True)
            return d.get("kind") == "StringLiteral" and "," in d.get("value", "")
        if any(_comma_scan(c) for c in walk(prog.body(f))):
            holds, why = C09._premise_holds(prog, fn, "all_opd")
            chk.require(holds, "EMPTY", "EMPTY/%s" % fn, loc_str_(f), "the recursive operand tokenizer rejects an empty operand (leading comma) at every recursion level", why)
    # LOOKUP: the table lookups compare whole strings (a length-limited comparison accepts every prefix of an entry)
    from valib.core import walk as _walk, callee_name as _cn, loc_str as _ls, expr_str as _es
    TABLES = ("INSTR_TABLE", "OPD_FORMAT_TABLE", "REG_TABLE")
    nlook = 0
    for fn, f in sorted(prog.lib_functions().items()):
        txt_tables = [m for m in _walk(prog.body(f)) if m.get("kind") == "DeclRefExpr" and (m.get("referencedDecl") or {}).get("name") in TABLES]
        if not txt_tables:
            continue
        # locals that point into a table (`const struct reg_table *entry = REG_TABLE + row;`): a comparison through them is a lookup too
        from valib.core import kids as _kids, strip as _strip, qtype as _qt
        tptr = set()
        for m in _walk(prog.body(f)):
            if m.get("kind") == "VarDecl" and "*" in _qt(m) and _kids(m) and \
                    any(x.get("kind") == "DeclRefExpr" and (x.get("referencedDecl") or {}).get("name") in TABLES for x in _walk(_kids(m)[-1])):
                tptr.add(m["name"])
        for c in _walk(prog.body(f)):
            if c.get("kind") == "CallExpr" and _cn(c) in ("strcmp", "strcasecmp", "strncmp", "strncasecmp", "memcmp"):
                if not any(m.get("kind") == "DeclRefExpr" and ((m.get("referencedDecl") or {}).get("name") in TABLES or
                                                               (m.get("referencedDecl") or {}).get("name") in tptr) for m in _walk(c)):
                    continue
                nlook += 1
                chk.require(_cn(c) in ("strcmp", "strcasecmp"), "LOOKUP", "LOOKUP/%s/%s" % (fn, _cn(c)), _ls(c),
                            "%s compares a whole table string with the whole token" % fn, "%s: a length-limited comparison matches prefixes" % _es(c)[:70])
    chk.floor("string comparisons against the tables", nlook, 3)
    # line structure: a terminator ends the line, so an invalid line behind it is still seen (and rejected)
    from valib import pipeline as PL
    from valib import scan as SC
    roles = PL.Roles(prog)
    SC.noswallow_rule(chk, prog, roles)
    chk.explanation = ("Decides: every row accepts only operand-kind tuples the ISA defines for that form (rows x kind strings, "
                       "against the x86 reference), the kind-string -> format map, the scale set. (MUSTCALL) every status-returning validator the pinned tree calls on all accepting paths of a function is still "
                       "called on all of them. Known findings: the \"\"/\"i\" "
                       "format conflation (per row). NOT decided: which concrete strings reach which check.")
