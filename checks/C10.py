"""C10 - malformed or unencodable lines are rejected: propagation, format tables, scale set."""
from valib import tabrules as TR
from valib.tabrules import Tab
from valib import construles as CR

from valib.core import loc_str as loc_str_

LEVEL = "other"


def run(chk, prog, tier):
    tab = Tab(prog)
    n = TR.fmt_only(chk, tab, lambda r: True)
    chk.floor("format cells checked", n, 400)
    # injectivity of the kind-string -> format-value map
    seen = {}
    for e in tab.fmt:
        if e["ident"] == "opd_error":
            continue
        seen.setdefault(e["val"], []).append(e)
    for v, es in sorted(seen.items()):
        strs = sorted(e["str"] for e in es)
        chk.require(len(es) == 1, "FMT", "FMT/injective/%s" % es[0]["ident"], es[0]["loc"],
                    "one operand-kind string per format value (rows cannot tell two strings of one value apart)",
                    "strings %s share value %s" % (strs, es[0]["ident"]))
    CR.c02_addressing_constants(chk, prog, rule="SCALE")
    try:
        from valib import err as ERR
    except ImportError:
        ERR = None
    if ERR is not None:
        ERR.c10_rules(chk, prog, tab) if hasattr(ERR, "c10_rules") else None
    # empty operands: every operand (not only the first) passes the leading-comma test of the operand tokenizer
    from checks import C09
    for fn, f in sorted(prog.lib_functions().items()):
        from valib.core import walk, callee_name
        if any(c.get("kind") == "CallExpr" and callee_name(c) == fn for c in walk(prog.body(f))) and \
                any(c.get("kind") == "CallExpr" and callee_name(c) == "strtok_r" for c in walk(prog.body(f))):
            holds, why = C09._premise_holds(prog, fn, "all_opd")
            chk.require(holds, "EMPTY", "EMPTY/%s" % fn, loc_str_(f), "the recursive operand tokenizer rejects an empty operand (leading comma) at every recursion level", why)
    chk.explanation = ("Decides: every row accepts only operand-kind tuples the ISA defines for that form (rows x kind strings, "
                       "against the x86 reference), the kind-string -> format map, the scale set. Known findings: the \"\"/\"i\" "
                       "format conflation (per row). NOT decided: which concrete strings reach which check.")
