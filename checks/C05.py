"""C05 - relative jumps and calls: row pairing and successor rule."""
from valib import tabrules as TR
from valib.tabrules import Tab
from valib import succ as SUCC

LEVEL = "other"


class _TypeFixed:
    """a predicate interpreted with its instruction-type parameter fixed: which constants can it return"""

    def __init__(self, prog, pname, value):
        from valib.core import ConstEval
        self.ce = ConstEval(prog, {pname: value})
        self.rets = []

    def copy(self, s): return s
    def join(self, a, b): return a
    def equal(self, a, b): return True
    def widen(self, o, n): return n
    def decl(self, vd, s):
        # a named condition (`const bool wide = ... && type != CONTROL_FLOW;`): remember its three-valued value
        from valib.core import kids
        if kids(vd) and "const" in (vd.get("type") or {}).get("qualType", ""):
            if not hasattr(self, "named"):
                self.named = {}
            self.named[vd["id"]] = self.tv(kids(vd)[-1])
        return s
    def eval(self, e, s): return s

    def assume(self, e, t, s):
        from valib.core import strip
        v = self.ce.try_eval(strip(e))
        if v is not None and bool(v) != t:
            return None
        return s

    def tv(self, e):
        """three-valued: 0 / non-zero constant / None, short-circuiting through && || ! ?: with unknown operands"""
        from valib.core import strip, kids
        e = strip(e, casts=True)
        v = self.ce.try_eval(e)
        if v is not None:
            return v
        k = e.get("kind")
        if k == "DeclRefExpr" and (e.get("referencedDecl") or {}).get("id") in getattr(self, "named", {}):
            return self.named[e["referencedDecl"]["id"]]
        if k == "BinaryOperator" and e.get("opcode") in ("&&", "||"):
            a, b = self.tv(kids(e)[0]), self.tv(kids(e)[1])
            if e["opcode"] == "&&":
                if a == 0 or b == 0:
                    return 0
                return 1 if (a is not None and b is not None) else None
            if (a is not None and a != 0) or (b is not None and b != 0):
                return 1
            return 0 if (a == 0 and b == 0) else None
        if k == "UnaryOperator" and e.get("opcode") == "!":
            a = self.tv(kids(e)[0])
            return None if a is None else int(a == 0)
        if k == "ConditionalOperator":
            c = self.tv(kids(e)[0])
            if c is None:
                a, b = self.tv(kids(e)[1]), self.tv(kids(e)[2])
                return a if a == b else None
            return self.tv(kids(e)[1] if c else kids(e)[2])
        return None

    def eval_ret(self, e, s):
        self.rets.append((e, self.tv(e)))
        return s

    def ret(self, n, s): pass


def branch_no_extra_byte_rule(chk, prog, rule="CFPAD"):
    """the predicate that adds a zero byte to an immediate in 0x80000000..0xffffffff (so that it is not read as negative)
    must be false for CONTROL_FLOW rows: a rel32 displacement is exactly four bytes"""
    from valib.core import kids, strip, walk, qtype, loc_str, callee_name, expr_str
    from valib.flow import Flow
    from valib import bytelen as BL
    counters = BL.byte_counters(prog)
    lib = prog.lib_functions()
    emitters = [fn for fn, f in lib.items() if any(c.get("kind") == "CallExpr" and callee_name(c) in counters for c in walk(prog.body(f)))]
    preds = []
    for fn in emitters:
        for c in walk(prog.body(lib[fn])):
            if c.get("kind") == "CallExpr" and callee_name(c) in lib:
                g = lib[callee_name(c)]
                tp = [p for p in prog.params(g) if qtype(p).replace("enum ", "").strip() == "instr_type"]
                if tp and qtype(g).split("(")[0].strip() in ("_Bool", "bool", "int"):
                    preds.append((callee_name(c), tp[0]["name"]))
    cf = prog.enums.get("CONTROL_FLOW")
    if cf is None:
        from valib.core import AnalysisBroken
        raise AnalysisBroken("enumerator CONTROL_FLOW not found")
    if not preds:
        chk.ok(rule, rule + "/no-separate-predicate", "src/", "the immediate emitter calls no separate instruction-type predicate (nothing to decide here)")
        return 0
    n = 0
    for name, pname in sorted(set(preds)):
        f = lib[name]
        dom = _TypeFixed(prog, pname, cf)
        Flow(dom).function(prog, f, ())
        n += 1
        bad = [(e, v) for e, v in dom.rets if v != 0]
        chk.require(not bad, rule, "%s/%s" % (rule, name), loc_str(bad[0][0]) if bad else loc_str(f),
                    "with the instruction type CONTROL_FLOW every reachable return of %s is false (no extra byte after a rel32 displacement)" % name,
                    "may return %s" % (expr_str(bad[0][0]) if bad else ""))
    return n


def run(chk, prog, tier):
    tab = Tab(prog)
    ref = tab.ref["forms"]
    branch = lambda r: any(F["enc"] in ("D", "S", "O") and (F["enc"] != "O" or tab.mnemonic(r) in ("jmp", "call"))
                           for F in ref.get(tab.mnemonic(r), [])) or r.ident.get("type") == "CONTROL_FLOW"
    TR.t1_wellformed(chk, tab, select=branch)
    TR.t1e_exhaustive(chk, tab)
    matched, unref = TR.t2_reference(chk, tab, branch, rule="PAIR")
    SUCC.branch_type_rule(chk, tab)
    TR.t3_siblings(chk, tab, rule="CC", parts=("cc",))
    n = SUCC.succ_rule(chk, tab, prog, only={("type", "CONTROL_FLOW")})
    from valib import rel8 as REL8
    # relative-branch rows whose successor (the row `key += is_short` selects) has no imm8 marker
    noib = []
    for r in tab.rows[3:-1]:
        hits, _ = TR.match_row(tab, r)
        if hits and any(F["enc"] in ("D", "S") for F in hits) and "n" in tab.fmts_of(r) and r.instr_name:
            nxt = tab.rows[r.idx + 1]
            if nxt.f["name"] == r.f["name"] and not tab.dec[nxt.idx].get("ib"):
                noib.append(tab.mnemonic(r))
    REL8.rel8_rule(chk, prog, short_rows_without_ib=noib)
    branch_no_extra_byte_rule(chk, prog)
    # the row selection must not happen inside the encoder, which runs again after padding (chunk fitting)
    from valib import pipeline as PL
    PL.encoder_idempotence_rule(chk, prog, PL.Roles(prog))
    ns = TR.signcmp_rule(chk, tab, prog)
    chk.floor("ordering comparisons on table columns", ns, 1)
    chk.floor("branch rows", sum(1 for r in tab.rows[3:-1] if branch(r)), 43)
    chk.floor("branch rows matched against the reference", matched, 43)
    chk.floor("successor obligations", n, 19)
    chk.explanation = (
        "Decides the table side of C05: every jmp/jcc/call/jrcxz/xbegin row encodes the architectural rel32/rel8/"
        "indirect form (opcode, condition code, imm8 marker, /digit), displacement rows are typed CONTROL_FLOW, and "
        "for every row the `key += is_short` increment can fire from, the next row is the rel8 twin of the same "
        "mnemonic (or an exact duplicate where no short form exists). Increment sites and their guards are "
        "enumerated from the AST. The short/long decision is covered by a value-set analysis (REL8): the set of displacement "
        "values for which the short flag reaches the key increment is computed path-sensitively and must lie inside the "
        "rel8-representable values, and `long` must exclude it. (IDEM) the encoder, which runs twice on a line that is padded, stores nothing into the record that a second run would change (the key increment stays in the line parser). (SIGNCMP) ordering tests on table columns keep the signedness the NA cells were written for. (CFPAD) the zero-byte predicate of the immediate emitter is false for CONTROL_FLOW. NOT decided: displacement emission in full.")
