"""C05 - relative jumps and calls: row pairing and successor rule."""
from valib import tabrules as TR
from valib.tabrules import Tab
from valib import succ as SUCC

LEVEL = "other"


def run(chk, prog, tier):
    tab = Tab(prog)
    ref = tab.ref["forms"]
    branch = lambda r: any(F["enc"] in ("D", "S", "O") and (F["enc"] != "O" or tab.mnemonic(r) in ("jmp", "call"))
                           for F in ref.get(tab.mnemonic(r), [])) or r.ident.get("type") == "CONTROL_FLOW"
    TR.t1_wellformed(chk, tab, select=branch)
    TR.t1e_exhaustive(chk, tab)
    matched, unref = TR.t2_reference(chk, tab, branch, rule="PAIR")
    SUCC.branch_type_rule(chk, tab)
    TR.t3_siblings(chk, tab, rule="CC", parts=("cc",))
    n = SUCC.succ_rule(chk, tab, prog, only={("type", "CONTROL_FLOW")})
    from valib import rel8 as REL8
    # relative-branch rows whose successor (the row `key += is_short` selects) has no imm8 marker
    noib = []
    for r in tab.rows[3:-1]:
        hits, _ = TR.match_row(tab, r)
        if hits and any(F["enc"] in ("D", "S") for F in hits) and "n" in tab.fmts_of(r) and r.instr_name:
            nxt = tab.rows[r.idx + 1]
            if nxt.f["name"] == r.f["name"] and not tab.dec[nxt.idx].get("ib"):
                noib.append(tab.mnemonic(r))
    REL8.rel8_rule(chk, prog, short_rows_without_ib=noib)
    chk.floor("branch rows", sum(1 for r in tab.rows[3:-1] if branch(r)), 43)
    chk.floor("branch rows matched against the reference", matched, 43)
    chk.floor("successor obligations", n, 19)
    chk.explanation = (
        "Decides the table side of C05: every jmp/jcc/call/jrcxz/xbegin row encodes the architectural rel32/rel8/"
        "indirect form (opcode, condition code, imm8 marker, /digit), displacement rows are typed CONTROL_FLOW, and "
        "for every row the `key += is_short` increment can fire from, the next row is the rel8 twin of the same "
        "mnemonic (or an exact duplicate where no short form exists). Increment sites and their guards are "
        "enumerated from the AST. The short/long decision is covered by a value-set analysis (REL8): the set of displacement "
        "values for which the short flag reaches the key increment is computed path-sensitively and must lie inside the "
        "rel8-representable values, and `long` must exclude it. NOT decided: displacement emission, the 32-bit truncation.")
