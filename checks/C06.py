"""C06 - a program's code is the concatenation of its lines' code: non-interference argument."""
from valib.core import (AnalysisBroken, ConstEval, kids, strip, walk, walk_with_parents, expr_str, loc_str, qtype, ref_name,
                        callee_name, call_args)
from valib import eff as EFF
from valib import pipeline as PL

LEVEL = "other"


def _driver_loop(prog, roles):
    drv = prog.fn(roles.driver)
    for m in walk(prog.body(drv)):
        if m.get("kind") in ("WhileStmt", "ForStmt", "DoStmt"):
            if any(c.get("kind") == "CallExpr" and callee_name(c) == roles.line_parser for c in walk(m)):
                return drv, m
    raise AnalysisBroken("the per-line loop of %s was not found" % roles.driver)


def _record_var(prog, roles, loop):
    for c in walk(loop):
        if c.get("kind") == "CallExpr" and callee_name(c) == roles.line_parser:
            for a in call_args(c):
                a = strip(a)
                if a.get("kind") == "UnaryOperator" and a.get("opcode") == "&" and "struct instr" in qtype(strip(kids(a)[0])):
                    return strip(kids(a)[0]).get("referencedDecl", {})
    raise AnalysisBroken("the per-line record handed to %s was not found" % roles.line_parser)


def _is_zero_init(prog, vd):
    init = kids(vd)
    if not init:
        return False
    il = strip(init[-1])
    if il.get("kind") != "InitListExpr":
        return False

    def zero(n):
        n = strip(n, casts=True)
        k = n.get("kind")
        if k == "ImplicitValueInitExpr":
            return True
        if k == "InitListExpr":
            els = kids(n) + [c for c in n.get("array_filler", []) if isinstance(c, dict) and c]
            return all(zero(c) for c in els)
        v = ConstEval(prog).try_eval(n)
        return v == 0
    return zero(il)


def fresh_record_rule(chk, prog, roles, rule="E1"):
    drv, loop = _driver_loop(prog, roles)
    rd = _record_var(prog, roles, loop)
    body = kids(loop)[-1]
    decl = None
    for m in walk(body):
        if m.get("kind") == "VarDecl" and m.get("id") == rd.get("id"):
            decl = m
    ok = False
    how = "declared outside the loop without a full clear at the top of each iteration"
    if decl is not None:
        ok = _is_zero_init(prog, decl)
        how = "declared in the loop body %s zero initialiser" % ("with a" if ok else "without a complete")
    else:
        # accepted alternative: the first statement of the body clears the whole record
        first = kids(body)[0] if body.get("kind") == "CompoundStmt" and kids(body) else None
        if first is not None:
            for c in walk(first):
                if c.get("kind") == "CallExpr" and callee_name(c) == "memset":
                    a = call_args(c)
                    tgt = strip(a[0], casts=True)
                    sz = strip(a[2], casts=True)
                    whole = (sz.get("kind") == "UnaryExprOrTypeTraitExpr" and
                             ("struct instr" in (sz.get("argType", {}).get("qualType", "") or "") or
                              (kids(sz) and ref_name(strip(kids(sz)[0])) == rd.get("name"))))
                    if tgt.get("kind") == "UnaryOperator" and ref_name(kids(tgt)[0]) == rd.get("name") and \
                            ConstEval(prog).try_eval(a[1]) == 0 and whole:
                        ok = True
                        how = "cleared by memset(&%s, 0, sizeof ...) first thing in the loop body" % rd.get("name")
    chk.require(ok, rule, "%s/fresh-record" % rule, loc_str(decl or loop),
                "the per-line instruction record is completely zeroed at the start of every iteration of the per-line loop", how)
    # loop-carried locals
    outside = {}
    for m in walk(prog.body(drv)):
        if m.get("kind") == "VarDecl":
            outside[m["id"]] = m
    for m in walk(loop):
        if m.get("kind") == "VarDecl":
            outside.pop(m["id"], None)
    carried = {}
    for a in EFF.accesses(kids(loop)[-1]):
        n = strip(a.node)
        if n.get("kind") == "DeclRefExpr" and a.ctx in ("w", "rw", "addr"):
            i = n.get("referencedDecl", {}).get("id")
            if i in outside:
                carried[i] = outside[i]
    for i, vd in sorted(carried.items(), key=lambda kv: kv[1]["name"]):
        qt = qtype(vd)
        if i == rd.get("id") and ok:
            continue        # the record itself, fully cleared at the top of each iteration
        role = None
        if qt.replace(" ", "") == "constchar*":
            role = "text cursor"
        elif qt in ("unsigned int", "size_t", "unsigned long", "int"):
            # the write position: its address goes to the emitters
            if any(c.get("kind") == "CallExpr" and callee_name(c) in roles.emitters and
                   any(strip(x).get("kind") == "UnaryOperator" and ref_name(kids(strip(x))[0]) == vd["name"] for x in call_args(c))
                   for c in walk(loop)):
                role = "write position"
        if role is None:
            # a local that every iteration sets to a constant before anything reads it carries nothing from line to line
            body_ = kids(loop)[-1]
            for st_ in (kids(body_) if body_.get("kind") == "CompoundStmt" else [body_]):
                mentions = [m_ for m_ in walk(st_) if m_.get("kind") == "DeclRefExpr" and m_.get("referencedDecl", {}).get("id") == i]
                if not mentions:
                    continue
                s1 = strip(st_)
                if s1.get("kind") == "BinaryOperator" and s1.get("opcode") == "=" and strip(kids(s1)[0], casts=True) is mentions[0] and \
                        len(mentions) == 1 and ConstEval(prog).try_eval(kids(s1)[1]) is not None:
                    role = "reset first thing in the loop body"
                break
        chk.require(role is not None, rule, "%s/loop-carried/%s" % (rule, vd["name"]), loc_str(vd),
                    "the only locals carried from one line to the next are the text cursor and the write position",
                    "%s %s is modified inside the loop" % (qt, vd["name"]))


def run(chk, prog, tier):
    roles = PL.Roles(prog)
    chk.analysed["roles"] = roles.describe()
    fresh_record_rule(chk, prog, roles)
    PL.zero_read_rule(chk, prog, roles)
    # each emitter is entered only from the per-line driver, which selects it by the mode: plain assembly cannot reach the padding
    # emitter through another emitter (a chunk size left behind by an earlier setting would then pad plain code)
    from checks import C07
    C07.who_rule(chk, prog, roles)
    # errno is process-wide state that survives from one line (and one instance) to the next: it is read only after being cleared
    from checks import C15
    C15.errno_rule(chk, prog)
    # E2: no hidden state
    from checks import C18
    objs = C18.static_objects(prog)
    for unit, fn, n in objs:
        qt = n["type"]["qualType"]
        if C18._is_const_object(qt):
            continue
        chk.require(fn is None and qt.startswith("_Atomic") and n["name"].endswith("_index"), "E2", "E2/static/%s" % n["name"], loc_str(n),
                    "the only mutable objects with static storage are the two atomic first-letter index tables (rebuilt identically)",
                    "%s %s%s" % (qt, n["name"], " in %s" % fn if fn else ""))
    chk.floor("objects with static storage", len(objs), 18)
    # E3: write-only destination, position-independent encoder
    g = roles.g
    enc_fns = sorted((EFF.reachable(g, [roles.encode]) | {roles.padder}) & set(prog.lib_functions()))
    nacc = 0
    for fn in enc_fns:
        f = prog.fn(fn)
        ptrs = {p["name"] for p in prog.params(f) if qtype(p).replace("const ", "") in ("uint8_t *", "unsigned char *")}
        for m in walk(prog.body(f)):      # local aliases of the destination
            if m.get("kind") == "VarDecl" and qtype(m) in ("uint8_t *", "unsigned char *") and kids(m):
                if EFF.lvalue_root(strip(kids(m)[-1], casts=True))[0] in ptrs:
                    ptrs.add(m["name"])
        for a in EFF.accesses(prog.body(f)):
            n = strip(a.node)
            if a.root in ptrs and n.get("kind") in ("ArraySubscriptExpr", "UnaryOperator") and n.get("kind") != "DeclRefExpr":
                if n.get("kind") == "UnaryOperator" and n.get("opcode") != "*":
                    continue
                nacc += 1
                chk.require(a.ctx == "w", "E3", "E3/write-only/%s/%s" % (fn, a.text[:40]), loc_str(a.node),
                            "the destination buffer is only stored to, never read (emitted bytes cannot depend on prior contents)",
                            "%s is %s" % (a.text, {"r": "read", "rw": "read-modified-written", "addr": "address-taken"}.get(a.ctx, a.ctx)))
            if a.owner == "assemblyline":
                chk.bad("E3", "E3/no-instance/%s/%s" % (fn, a.text[:40]), loc_str(a.node),
                        "the encoder does not look at the instance (position, buffer, options come only through the per-line record)", a.text)
    chk.floor("destination accesses in the encoder", nacc, 12)
    PL.encoder_idempotence_rule(chk, prog, roles)
    from valib import cover as CV
    CV.cover_rule(chk, prog, roles)
    # E4: position continuity
    drv, loop = _driver_loop(prog, roles)
    pos = None
    for m in walk(prog.body(drv)):
        if m.get("kind") == "VarDecl" and kids(m):
            i = strip(kids(m)[-1], casts=True)
            if i.get("kind") == "MemberExpr" and i.get("name") == "offset":
                pos = m
    chk.require(pos is not None, "E4", "E4/start", loc_str(drv), "the write position starts at <instance>->offset", "no local initialised from offset")
    if pos is not None:
        rets = [m for m in walk(prog.body(drv)) if m.get("kind") == "ReturnStmt" and kids(m)]
        succ = [r for r in rets if ref_name(strip(kids(r)[0], casts=True)) == pos["name"]]
        other = [r for r in rets if r not in succ and ConstEval(prog).try_eval(strip(kids(r)[0], casts=True)) not in (-1,)]
        # FAIL_IF_ERR returns ASM_ERROR; anything else must be the position
        chk.require(len(succ) >= 1 and not other, "E4", "E4/return", loc_str(succ[0]) if succ else loc_str(drv),
                    "the driver returns the final write position on success (and only the error sentinel otherwise)",
                    "returns %s" % [expr_str(kids(r)[0]) for r in other])
        for fn in roles.direct_entries:
            f = prog.fn(fn)
            okk = False
            for m in walk(prog.body(f)):
                if m.get("kind") == "BinaryOperator" and m.get("opcode") == "=":
                    l, r = strip(kids(m)[0]), strip(kids(m)[1], casts=True)
                    if l.get("kind") == "MemberExpr" and l.get("name") == "offset" and r.get("kind") == "CallExpr" and callee_name(r) == roles.driver:
                        okk = True
                    # ... or through a local that holds nothing but the driver's result
                    if l.get("kind") == "MemberExpr" and l.get("name") == "offset" and r.get("kind") == "DeclRefExpr":
                        defs = [x for x in walk(prog.body(f)) if x.get("kind") == "VarDecl" and x.get("id") == (r.get("referencedDecl") or {}).get("id")]
                        asg = [x for x in walk(prog.body(f)) if x.get("kind") in ("BinaryOperator", "CompoundAssignOperator") and x.get("opcode", "").endswith("=") and
                               x.get("opcode") not in ("==", "!=", "<=", ">=") and strip(kids(x)[0]).get("kind") == "DeclRefExpr" and
                               (strip(kids(x)[0]).get("referencedDecl") or {}).get("id") == (r.get("referencedDecl") or {}).get("id")]
                        if defs and kids(defs[0]) and not asg:
                            i0 = strip(kids(defs[0])[-1], casts=True)
                            if i0.get("kind") == "CallExpr" and callee_name(i0) == roles.driver:
                                okk = True
            chk.require(okk, "E4", "E4/store/%s" % fn, loc_str(f), "%s stores the driver's result into <instance>->offset" % fn, "no such store")
    # growth in the middle of a call keeps the code emitted so far (see C08)
    from checks import C08
    lib_ = prog.lib_functions()
    bw = sorted(fn for fn, f in lib_.items() if fn != "asm_create_instance" and
                any(a.owner == "assemblyline" and a.field == "buffer" and a.ctx in ("w", "rw") and strip(a.node).get("kind") == "MemberExpr"
                    for a in EFF.accesses(prog.body(f))) and
                not (f.get("storageClass") == "static" and EFF.callers_of(roles.g, fn) == ["asm_create_instance"]))
    C08.preserve_rule(chk, prog, roles, bw)
    # the line splitter: a terminator ends the line, what follows it is left for the next call; progress
    from valib import scan as SC
    SC.noswallow_rule(chk, prog, roles)
    SC.room_only_when_emitting_rule(chk, prog, roles)
    SC.progress_rule(chk, prog, roles)
    SC.driver_advance_rule(chk, prog, roles)
    chk.explanation = (
        "Non-interference argument: (E1) the per-line record is fully zeroed every iteration and only the text cursor and the "
        "write position are carried across lines; (E2) no mutable static state besides the idempotent index tables; (E3) the "
        "encoder only stores to its destination and never sees the instance, so bytes do not depend on prior buffer contents or "
        "position; (E4) the position starts at offset, is returned and stored back. Hence per-line code is a function of (line "
        "text, option bits). (COVER) every encoder function writes exactly the leading bytes "
        "whose count it returns (symbolic write-coverage: no byte below the returned length keeps old buffer contents). (LINE/PROGRESS/ADVANCE) a "
        "prefix-concrete abstract interpretation of the line parser and filter (first two characters fixed per character class) shows "
        "that a terminator in first position consumes exactly itself, a terminator in second position ends the line there, every "
        "non-failing call consumes at least one character, and the driver advances by exactly the reported count. NOT decided: "
        "terminators deeper than the second character of a line (covered only through the loop structure being position-independent); "
        "equality in the chunk modes.")
