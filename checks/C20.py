"""C20 - asmline: flag mapping and exit-status discipline."""
import json
import os
import re

from valib.core import (VERIF, AnalysisBroken, ConstEval, kids, strip, walk, walk_with_parents, expr_str, loc_str, qtype,
                        ref_name, callee_name, call_args)
from valib.macros import macro_values
from valib import err as ERR
from valib import eff as EFF
from valib.opt import SetterInterp, Xfer, FULL
from valib import tables as T

LEVEL = "other"


def tool_functions(prog):
    return {n: f for n, f in prog.functions.items() if prog.func_unit[n].startswith("tools/")}


def long_options(prog, tf):
    """rows of the getopt_long table: name -> {'field': FIELD or None, 'val': int, 'val_ident': str}"""
    for fn, f in tf.items():
        for vd in walk(prog.body(f)):
            if vd.get("kind") == "VarDecl" and "struct option" in qtype(vd) and kids(vd):
                il = strip(kids(vd)[-1])
                rows = {}
                els = kids(il) or [c for c in il.get("array_filler", [])[1:] if isinstance(c, dict) and c]
                for r in els:
                    r = strip(r)
                    cells = kids(r)
                    if len(cells) < 4:
                        continue
                    nm = strip(cells[0], casts=True)
                    if nm.get("kind") != "StringLiteral":
                        continue
                    name = nm["value"].strip('"')
                    flag = strip(cells[2], casts=True)
                    field = None
                    for m in walk(flag):
                        if m.get("kind") == "MemberExpr":
                            field = m.get("name")
                    if field is None and flag.get("kind") == "UnaryOperator" and flag.get("opcode") == "&":
                        # the target is a plain local that the function copies into the parsed-options field afterwards
                        tgt = strip(kids(flag)[0], casts=True)
                        if tgt.get("kind") == "DeclRefExpr" and (tgt.get("referencedDecl") or {}).get("kind") == "VarDecl":
                            backs = [strip(kids(m)[0]).get("name") for m in walk(prog.body(f))
                                     if m.get("kind") == "BinaryOperator" and m.get("opcode") == "=" and strip(kids(m)[0]).get("kind") == "MemberExpr" and
                                     strip(kids(m)[1], casts=True).get("kind") == "DeclRefExpr" and
                                     (strip(kids(m)[1], casts=True).get("referencedDecl") or {}).get("id") == tgt["referencedDecl"].get("id")]
                            if len(set(backs)) == 1:
                                field = backs[0]
                    val = ConstEval(prog).try_eval(cells[3])
                    rows[name] = {"field": field, "val": val, "val_ident": expr_str(cells[3]), "loc": loc_str(r)}
                return fn, vd, rows
    raise AnalysisBroken("getopt_long option table not found in tools/")


class _CodeDomain:
    """a helper (instance, option code) interpreted for one concrete code: the sequence of library setter calls it makes"""

    def __init__(self, prog, pname, value, lib_setters):
        self.prog, self.pname, self.value, self.setters = prog, pname, value, lib_setters
        self.ce = ConstEval(prog, {pname: value})
        self.final = []

    def copy(self, s): return s

    def join(self, a, b):
        return a if a == b else a + (("?", None),)      # two different call sequences for one code: not a function of the code

    def equal(self, a, b): return a == b
    def widen(self, o, n): return n

    def decl(self, vd, s):
        for c in kids(vd):
            s = self.eval(c, s)
        return s

    def eval(self, e, s):
        for c in walk(strip(e) or {}):
            if c.get("kind") == "CallExpr" and callee_name(c) in self.setters:
                a = call_args(c)
                s = s + ((callee_name(c), self.ce.try_eval(a[1]) if len(a) > 1 else None),)
        return s

    def assume(self, e, t, s):
        v = self.ce.try_eval(strip(e))
        if v is not None and bool(v) != t:
            return None
        return s

    def assume_case(self, cnd, case, s):
        a, b = self.ce.try_eval(strip(cnd, casts=True)), self.ce.try_eval(case)
        if a is not None and b is not None and a != b:
            return None
        return s

    def assume_default(self, cnd, cases, s):
        a = self.ce.try_eval(strip(cnd, casts=True))
        if a is not None and any(self.ce.try_eval(c) == a for c in cases):
            return None
        return s

    def ret(self, n, s):
        self.final.append(s)


def helper_map(prog, tf, lib_setters):
    """{helper: {option code: [(setter, mode value)]}} for the tool functions (instance, code) that call library setters:
    each is interpreted once per enumerator of the code's type (switch, if-chain or any mixture)"""
    from valib.flow import Flow
    out = {}
    for fn, f in tf.items():
        ps = prog.params(f)
        if len(ps) != 2:
            continue
        if not any(c.get("kind") == "CallExpr" and callee_name(c) in lib_setters for c in walk(prog.body(f))):
            continue
        qt = qtype(ps[1]).replace("enum ", "").strip()
        members = prog.enum_members(qt)
        if not members:
            continue
        cases = {}
        for nm, val in members:
            dom = _CodeDomain(prog, ps[1]["name"], val, lib_setters)
            end = Flow(dom).function(prog, f, ())
            finals = dom.final + ([end] if end is not None else [])
            seqs = {tuple(x) for x in finals}
            if len(seqs) == 1:
                seq = list(seqs.pop())
            elif not seqs:
                seq = []
            else:
                seq = [("?", None)]
            if seq:
                cases[val] = seq
        if cases:
            out[fn] = cases
    return out


def run(chk, prog, tier):
    _PROG[0] = prog
    tf = tool_functions(prog)
    if "main" not in tf:
        raise AnalysisBroken("tools/asmline.c: main not found")
    with open(os.path.join(VERIF, "ref", "contract_options.json")) as fh:
        con = json.load(fh)
    mk = con["masks"]
    mv = macro_values(prog, list(mk.values()))
    M = {role: mv[name] for role, name in mk.items()}
    OPT = {v: prog.enums[v] for v in ("STRICT", "NASM", "SMART")}
    setters = list(con["setters"])
    si = SetterInterp(prog)

    def decode(raw):
        nasm, smart = bool(raw & M["mov_nasm"]), bool(raw & M["mov_smart"])
        if nasm and smart:
            return None
        return ("NASM" if nasm else "SMART" if smart else "STRICT", int(bool(raw & M["swap"])), int(bool(raw & M["nobase"])))

    def encode(st):
        mov, swap, nobase = st
        return ({"NASM": M["mov_nasm"], "SMART": M["mov_smart"], "STRICT": 0}[mov] | (M["swap"] if swap else 0) | (M["nobase"] if nobase else 0))
    states = [(m, s, n) for m in ("STRICT", "NASM", "SMART") for s in (0, 1) for n in (0, 1)]

    def effect_ok(calls, updates):
        """do the extracted setter calls, applied in order, realise `updates` on all 12 option states?"""
        x = Xfer()
        for (setter, mode) in calls:
            x = x.then(si.summary(setter, mode))
        for st in states:
            want = dict(zip(("mov", "swap", "nobase"), st))
            want.update(updates)
            got = decode(x.apply(encode(st)))
            if got != (want["mov"], want["swap"], want["nobase"]):
                return False, "from %s the calls %s give %s, the flag's name promises %s" % (st, calls, got, (want["mov"], want["swap"], want["nobase"]))
        return True, ""

    def promised(name):
        m = re.match(r"^(nasm|strict|smart)-(mov-imm|sib-index-base-swap|sib-no-base|sib)$", name)
        if not m:
            return None
        mode = m.group(1).upper()
        dim = m.group(2)
        if dim == "mov-imm":
            return {"mov": mode}
        val = {"NASM": 1, "STRICT": 0}.get(mode)
        if val is None:
            return None
        if dim == "sib-index-base-swap":
            return {"swap": val}
        if dim == "sib-no-base":
            return {"nobase": val}
        return {"swap": val, "nobase": val}

    # ---- MAP ---------------------------------------------------------------------------------
    pfn, table, rows = long_options(prog, tf)
    chk.analysed["long_options"] = {k: (v["field"], v["val_ident"]) for k, v in rows.items()}
    helpers = helper_map(prog, tf, set(setters))
    chk.analysed["helpers"] = {h: {str(k): v for k, v in c.items()} for h, c in helpers.items()}
    main = tf["main"]
    # which helper consumes which parsed field: helper(al, ops.FIELD) in main
    field_helper = {}
    for c in walk(prog.body(main)):
        if c.get("kind") == "CallExpr" and callee_name(c) in helpers:
            a = call_args(c)
            if len(a) == 2:
                fld = strip(a[1], casts=True)
                if fld.get("kind") == "MemberExpr":
                    field_helper.setdefault(fld["name"], []).append(callee_name(c))
    # a composite flag (its helper calls a superset of another helper's setters) is applied before the specific ones, so that a
    # specific flag given together with it refines it instead of being overwritten
    order = []
    for c in walk(prog.body(main)):
        if c.get("kind") == "CallExpr" and callee_name(c) in helpers:
            order.append(callee_name(c))
    setsof = {h: {sname for seq in cases.values() for (sname, _) in seq} for h, cases in helpers.items()}
    for a in order:
        for b in order:
            if a != b and setsof[b] < setsof[a]:
                chk.require(order.index(a) < order.index(b), "MAP", "MAP/order/%s>%s" % (a, b), loc_str(main),
                            "%s (composite: %s) runs before %s (specific: %s), so the specific flag is not overwritten" %
                            (a, sorted(setsof[a]), b, sorted(setsof[b])), "call order in main: %s" % order)
    nflag = 0
    for name, row in sorted(rows.items()):
        upd = promised(name)
        if upd is None:
            continue
        nflag += 1
        key = "MAP/--%s" % name
        if row["field"] is None:
            chk.bad("MAP", key, row["loc"], "--%s stores its code into a parsed-options field" % name, "flag pointer is null")
            continue
        hs = field_helper.get(row["field"], [])
        calls = []
        for h in hs:
            calls += helpers[h].get(row["val"], [])
        if not calls:
            chk.bad("MAP", key, row["loc"], "--%s reaches a library setter" % name,
                    "code %s in field %s is not handled by %s" % (row["val_ident"], row["field"], hs or "any helper called from main"))
            continue
        ok, why = effect_ok(calls, upd)
        chk.require(ok, "MAP", key, row["loc"], "--%s sets exactly %s" % (name, upd), why)
    chk.floor("mode flags in the option table", nflag, 9)
    # short options: the getopt switch
    sw_calls = {}
    ce = ConstEval(prog)
    pf = tf[pfn]
    for sw in walk(prog.body(pf)):
        if sw.get("kind") != "SwitchStmt":
            continue
        body = kids(sw)[-1]
        open_labels = []
        for st in kids(body):
            labs = []
            inner = st
            while inner.get("kind") in ("CaseStmt", "DefaultStmt"):
                if inner["kind"] == "CaseStmt":
                    labs.append(ce.try_eval(kids(inner)[0]))
                inner = kids(inner)[-1]
            if labs:
                open_labels = open_labels + labs
            for c in walk(inner):
                if c.get("kind") == "CallExpr" and (callee_name(c) or "").startswith("asm_"):
                    for lab in open_labels:
                        sw_calls.setdefault(lab, []).append(c)
            if any(m.get("kind") in ("BreakStmt", "ReturnStmt") for m in walk(inner)):
                open_labels = []
    for ch, mode in (("n", "NASM"), ("t", "STRICT"), ("s", "SMART")):
        calls = [(callee_name(c), ce.try_eval(call_args(c)[1])) for c in sw_calls.get(ord(ch), []) if callee_name(c) in setters]
        upd = {"mov": mode} if mode == "SMART" else {"mov": mode, "swap": int(mode == "NASM"), "nobase": int(mode == "NASM")}
        ok, why = effect_ok(calls, upd) if calls else (False, "no setter call under case '%s'" % ch)
        chk.require(ok, "MAP", "MAP/-%s" % ch, loc_str(sw_calls[ord(ch)][0]) if sw_calls.get(ord(ch)) else loc_str(pf),
                    "-%s sets %s" % (ch, upd), why)
        long_name = {"n": "nasm", "t": "strict", "s": "smart"}[ch]
        chk.require(rows.get(long_name, {}).get("val") == ord(ch) and rows[long_name]["field"] is None, "MAP", "MAP/--%s" % long_name,
                    rows.get(long_name, {}).get("loc", loc_str(table)), "--%s is the long spelling of -%s" % (long_name, ch),
                    str(rows.get(long_name)))
    # -c -> asm_set_chunk_size with the parsed number; -b -> the counting entries with the parsed number
    cc = [c for c in sw_calls.get(ord("c"), []) if callee_name(c) == "asm_set_chunk_size"]
    chk.require(len(cc) == 1, "MAP", "MAP/-c", loc_str(cc[0]) if cc else loc_str(pf), "-c N calls asm_set_chunk_size", "%d calls" % len(cc))
    if cc:
        arg = strip(call_args(cc[0])[1], casts=True)
        chk.require(_is_parsed_number(pf, arg), "MAP", "MAP/-c/value", loc_str(cc[0]), "-c passes the number parsed from its argument", expr_str(arg))
    bb = [c for c in sw_calls.get(ord("b"), [])]
    chk.require(not any(callee_name(c) == "asm_set_chunk_size" for c in bb), "MAP", "MAP/-b/no-fitting", loc_str(pf),
                "-b does not enable chunk fitting", "calls asm_set_chunk_size")
    bstore = None
    for sw in walk(prog.body(pf)):
        if sw.get("kind") == "SwitchStmt":
            for m in walk(sw):
                if m.get("kind") == "BinaryOperator" and m.get("opcode") == "=":
                    l = strip(kids(m)[0])
                    if l.get("kind") == "MemberExpr" and l.get("name") == "chunk_boundary":
                        bstore = m
    chk.require(bstore is not None and _is_parsed_number(pf, strip(kids(bstore)[1], casts=True)), "MAP", "MAP/-b/value",
                loc_str(bstore) if bstore else loc_str(pf), "-b stores the number parsed from its argument as the chunk boundary",
                expr_str(bstore) if bstore else "no store")
    # ---- SRC: stdin and FILE use the same instance and the matching variants ----------------------------------
    # main and the tool helpers it calls (the stdin loop may live in a helper): arguments of a helper are resolved to what main passes
    reach = {"main"}
    work = ["main"]
    while work:
        for c in walk(prog.body(tf[work.pop()])):
            if c.get("kind") == "CallExpr" and callee_name(c) in tf and callee_name(c) not in reach:
                reach.add(callee_name(c))
                work.append(callee_name(c))
    call_site_of = {}
    for fn in reach:
        for c in walk(prog.body(tf[fn])):
            if c.get("kind") == "CallExpr" and callee_name(c) in tf:
                call_site_of.setdefault(callee_name(c), []).append(c)

    def resolve(fn, e, depth=0):
        """expression text of e in fn with parameters replaced by the arguments of fn's unique call site"""
        e = strip(e, casts=True)
        if fn != "main" and depth < 4 and e.get("kind") == "DeclRefExpr" and len(call_site_of.get(fn, [])) == 1:
            ps = [p["name"] for p in prog.params(tf[fn])]
            if ref_name(e) in ps:
                site = call_site_of[fn][0]
                caller = next(g for g in reach if any(x is site for x in walk(prog.body(tf[g]))))
                return resolve(caller, call_args(site)[ps.index(ref_name(e))], depth + 1)
        return expr_str(e)
    asm_calls = [(fn, c) for fn in sorted(reach) for c in walk(prog.body(tf[fn]))
                 if c.get("kind") == "CallExpr" and (callee_name(c) or "").startswith("asm_assemble")]
    names = sorted(callee_name(c) for _, c in asm_calls)
    chk.require(names == sorted(["asm_assemble_file", "asm_assemble_file_counting_chunks", "asm_assemble_str", "asm_assemble_string_counting_chunks"]),
                "SRC", "SRC/variants", loc_str(main), "asmline uses the file and the string variant of both the plain and the counting entry", str(names))
    inst = None
    for m in walk(prog.body(main)):
        if m.get("kind") == "VarDecl" and kids(m) and strip(kids(m)[-1], casts=True).get("kind") == "CallExpr" and \
                callee_name(strip(kids(m)[-1], casts=True)) == "asm_create_instance":
            inst = m["name"]
    for fn, c in asm_calls:
        a = call_args(c)
        chk.require(resolve(fn, a[0]) == inst, "SRC", "SRC/instance/%s" % callee_name(c), loc_str(c), "%s works on the one instance main created" % callee_name(c), resolve(fn, a[0]))
        if "counting" in callee_name(c):
            chk.require(resolve(fn, a[2]).endswith("chunk_boundary"), "SRC", "SRC/boundary/%s" % callee_name(c), loc_str(c),
                        "the counting call gets the -b value", resolve(fn, a[2]))
    for fn in sorted(reach):
        for m, parents in walk_with_parents(prog.body(tf[fn])):
            if m.get("kind") == "ConditionalOperator" and any(x.get("kind") == "CallExpr" and (callee_name(x) or "").startswith("asm_assemble") for x in walk(m)):
                t = [callee_name(x) for x in walk(kids(m)[1]) if x.get("kind") == "CallExpr"]
                e = [callee_name(x) for x in walk(kids(m)[2]) if x.get("kind") == "CallExpr"]
                ctext = resolve(fn, kids(m)[0])
                ok = any("counting" in (x or "") for x in t) and not any("counting" in (x or "") for x in e) and "count" in ctext
                chk.require(ok, "SRC", "SRC/select@%s" % loc_str(m), loc_str(m), "the counting variant is chosen exactly when -b was given", ctext)
    # ---- LINEREAD: stdin is cut at line ends only: the text handed to the string entry points comes from a reader that returns
    # a whole line however long it is (getline / getdelim), not from a bounded read that splits long lines
    nread = 0
    for fn, c in asm_calls:
        if "file" in callee_name(c):
            continue
        txt = strip(call_args(c)[1], casts=True)
        src = ref_name(txt)
        readers = []
        for m in walk(prog.body(tf[fn])):
            if m.get("kind") == "CallExpr" and callee_name(m) in ("getline", "getdelim", "fgets", "fread", "read", "gets", "fscanf", "scanf"):
                if any(src and (ref_name(strip(a, casts=True)) == src or
                                (strip(a, casts=True).get("kind") == "UnaryOperator" and ref_name(strip(kids(strip(a, casts=True))[0], casts=True)) == src))
                       for a in call_args(m)):
                    readers.append(callee_name(m))
        nread += 1
        chk.require(bool(readers) and set(readers) <= {"getline", "getdelim"}, "SRC", "SRC/whole-lines/%s" % callee_name(c), loc_str(c),
                    "the text given to %s is read with getline (one whole line per call, however long)" % callee_name(c),
                    "read with %s" % (sorted(set(readers)) or "an unidentified reader"))
    # ---- COUNTSUM: a per-line count is added to the total only after the counting call of that same line ------------
    from valib.flow import Flow

    class _Fresh:
        """did the statement containing a call that receives &var execute on this path since the loop iteration began?"""
        def __init__(self, var, fixed=None): self.var, self.viol, self.nsum, self.fixed, self.nwrite = var, [], 0, fixed or {}, 0
        def copy(self, s): return s
        def join(self, a, b): return a and b
        def equal(self, a, b): return a == b
        def widen(self, o, n): return n
        def decl(self, vd, s):
            for c in kids(vd):
                s = self.eval(c, s)
            return s
        def eval(self, e, s):
            e0 = strip(e)
            if not e0:
                return s
            if e0.get("kind") == "ConditionalOperator" and expr_str(strip(kids(e0)[0])) in self.fixed:
                # a choice on a condition that does not change while the loop runs: only the arm of this world is executed
                return self.eval(kids(e0)[1] if self.fixed[expr_str(strip(kids(e0)[0]))] else kids(e0)[2], s)
            if e0.get("kind") in ("BinaryOperator", "ImplicitCastExpr", "ParenExpr", "CStyleCastExpr") or (e0.get("kind") == "VarDecl"):
                pass
            sub = [c_ for c_ in kids(e0) if strip(c_) and strip(c_).get("kind") == "ConditionalOperator" and
                   expr_str(strip(kids(strip(c_))[0])) in self.fixed]
            if sub:
                for c_ in kids(e0):
                    s = self.eval(c_, s)
                return s
            for m_ in walk(e0):
                if m_.get("kind") == "CallExpr" and any(strip(a).get("kind") == "UnaryOperator" and strip(a).get("opcode") == "&" and
                                                      ref_name(kids(strip(a))[0]) == self.var for a in call_args(m_)):
                    s = True
                    self.nwrite += 1
                if m_.get("kind") == "BinaryOperator" and m_.get("opcode") == "=" and ref_name(kids(m_)[0]) == self.var:
                    s = True
                    self.nwrite += 1
            for m_ in walk(e0):
                added = m_.get("kind") == "CompoundAssignOperator" and m_.get("opcode") == "+=" and ref_name(kids(m_)[1]) == self.var
                if m_.get("kind") == "BinaryOperator" and m_.get("opcode") == "=":
                    r_ = strip(kids(m_)[1], casts=True)
                    if r_.get("kind") == "BinaryOperator" and r_.get("opcode") == "+" and \
                            any(ref_name(strip(x, casts=True)) == self.var for x in kids(r_)) and \
                            any(expr_str(strip(x, casts=True)) == expr_str(strip(kids(m_)[0], casts=True)) for x in kids(r_)):
                        added = True
                if added:
                    self.nsum += 1
                    if not s:
                        self.viol.append(m_)
            return s
        def assume(self, e, t, s):
            k_ = expr_str(strip(e))
            if k_ in self.fixed and self.fixed[k_] != t:
                return None
            return s
        def ret(self, n, s): pass

    def _invariant_conditions(lp):
        """conditions of if-statements / conditional expressions in the loop that read nothing the loop writes and call nothing"""
        written = set()
        for m_ in walk(lp):
            if m_.get("kind") in ("BinaryOperator", "CompoundAssignOperator") and m_.get("opcode", "").endswith("=") and m_.get("opcode") not in ("==", "!=", "<=", ">="):
                written.add(EFF.lvalue_root(strip(kids(m_)[0]))[0])
            if m_.get("kind") == "UnaryOperator" and m_.get("opcode") in ("++", "--", "&"):
                written.add(EFF.lvalue_root(strip(kids(m_)[0], casts=True))[0])
        out = []
        for m_ in walk(lp):
            if m_.get("kind") in ("IfStmt", "ConditionalOperator") and kids(m_):
                c_ = strip(kids(m_)[0])
                while c_.get("kind") == "UnaryOperator" and c_.get("opcode") == "!":
                    c_ = strip(kids(c_)[0])
                if any(x.get("kind") == "CallExpr" for x in walk(c_)):
                    continue
                roots = {ref_name(x) for x in walk(c_) if x.get("kind") == "DeclRefExpr"}
                if roots and not (roots & written) and expr_str(c_) not in out:
                    out.append(expr_str(c_))
        return out[:3]
    import itertools
    for lp in [x for fn in sorted(reach) for x in walk(prog.body(tf[fn]))]:
        if lp.get("kind") in ("WhileStmt", "ForStmt", "DoStmt"):
            addr_vars = {ref_name(kids(strip(a))[0]) for c in walk(lp) if c.get("kind") == "CallExpr" and "counting" in (callee_name(c) or "")
                         for a in call_args(c) if strip(a).get("kind") == "UnaryOperator" and strip(a).get("opcode") == "&"}
            for v in sorted(x for x in addr_vars if x):
                # one world per valuation of the conditions that cannot change while the loop runs; in a world in which the count is
                # never written at all it still holds its initial value, and adding that is not adding a stale count
                inv = _invariant_conditions(lp)
                doms = []
                for vals in itertools.product((True, False), repeat=len(inv)):
                    d_ = _Fresh(v, dict(zip(inv, vals)))
                    Flow(d_).stmt(kids(lp)[-1], False)
                    if d_.nwrite:
                        doms.append(d_)
                if not doms:
                    continue
                dom = max(doms, key=lambda d_: len(d_.viol))
                dom.nsum = max(d_.nsum for d_ in doms)
                if dom.nsum:
                    chk.require(not dom.viol, "COUNTSUM", "COUNTSUM/%s" % v, loc_str(dom.viol[0]) if dom.viol else loc_str(lp),
                                "inside the input loop the per-line count %s is added to the total only on paths that made the counting call for that line" % v,
                                "a path reaches the addition without the call (a stale count of an earlier line would be added again)")
                else:
                    # the library reports the breaks of *this* call; the loop makes one call per line, so the total is their sum
                    chk.bad("COUNTSUM", "COUNTSUM/%s/added" % v, loc_str(lp),
                            "inside the input loop the per-line count %s is added to a total (`total += %s`)" % (v, v),
                            "the count is written by the counting call of every line but never added up")
    # ---- COUNTINIT: a total that per-call counts are added to starts from zero on every path that adds -------------------
    class _Init:
        """state of the total: 'zero' (assigned 0, or handed to a counting call that stores into it) or 'raw' (anything else)"""
        def __init__(self, total, counts, fixed):
            self.total, self.counts, self.fixed, self.viol, self.nadd, self.nwrite = total, counts, fixed, [], 0, 0
        def copy(self, s): return s
        def join(self, a, b): return "zero" if a == b == "zero" else "raw"
        def equal(self, a, b): return a == b
        def widen(self, o, n): return n
        def decl(self, vd, s):
            for c in kids(vd):
                s = self.eval(c, s)
            if vd.get("name") == self.total:
                v_ = ConstEval(prog).try_eval(self._arm(kids(vd)[-1])) if kids(vd) else None
                return "zero" if v_ == 0 else "raw"
            return s
        def _arm(self, e):
            """the arm of `c ? a : b` this world takes when c is one of its fixed conditions"""
            e0 = strip(e, casts=True)
            while e0.get("kind") == "ConditionalOperator":
                c_, t_ = strip(kids(e0)[0]), True
                while c_.get("kind") == "UnaryOperator" and c_.get("opcode") == "!":
                    c_, t_ = strip(kids(c_)[0]), not t_
                if expr_str(c_) not in self.fixed:
                    break
                e0 = strip(kids(e0)[1] if self.fixed[expr_str(c_)] == t_ else kids(e0)[2], casts=True)
            return e0
        def eval(self, e, s):
            e0 = strip(e)
            if not e0:
                return s
            if e0.get("kind") == "ConditionalOperator" and expr_str(strip(kids(e0)[0])) in self.fixed:
                return self.eval(kids(e0)[1] if self.fixed[expr_str(strip(kids(e0)[0]))] else kids(e0)[2], s)
            if e0.get("kind") not in ("CallExpr", "CompoundAssignOperator") and not (e0.get("kind") == "BinaryOperator" and e0.get("opcode") == "="):
                for c_ in kids(e0):
                    s = self.eval(c_, s)
                return s
            for c_ in kids(e0):
                s = self.eval(c_, s)
            if e0.get("kind") == "CallExpr":
                for a in call_args(e0):
                    a0 = strip(a, casts=True)
                    if a0.get("kind") == "UnaryOperator" and a0.get("opcode") == "&":
                        nm_ = ref_name(strip(kids(a0)[0], casts=True))
                        if nm_ == self.total and "counting" in (callee_name(e0) or ""):
                            s = "zero"
                        if nm_ in self.counts and "counting" in (callee_name(e0) or ""):
                            self.nwrite += 1
            elif e0.get("kind") == "BinaryOperator" and ref_name(strip(kids(e0)[0], casts=True)) == self.total:
                s = "zero" if ConstEval(prog).try_eval(self._arm(kids(e0)[1])) == 0 else "raw"
            elif e0.get("kind") == "CompoundAssignOperator" and e0.get("opcode") == "+=" and ref_name(strip(kids(e0)[0], casts=True)) == self.total and \
                    ref_name(strip(kids(e0)[1], casts=True)) in self.counts:
                self.nadd += 1
                if s != "zero":
                    self.viol.append(e0)
                s = "zero"          # from here on the total is a sum of counts
            return s
        def assume(self, e, t, s):
            k_ = expr_str(strip(e))
            if k_ in self.fixed and self.fixed[k_] != t:
                return None
            return s
        def ret(self, n, s): pass
    for fn in sorted(reach):
        f = tf[fn]
        body = prog.body(f)
        sums = [(ref_name(strip(kids(m_)[0], casts=True)), ref_name(strip(kids(m_)[1], casts=True))) for m_ in walk(body)
                if m_.get("kind") == "CompoundAssignOperator" and m_.get("opcode") == "+=" and strip(kids(m_)[0], casts=True).get("kind") == "DeclRefExpr"]
        count_vars = {ref_name(kids(strip(a))[0]) for c in walk(body) if c.get("kind") == "CallExpr" and "counting" in (callee_name(c) or "")
                      for a in call_args(c) if strip(a).get("kind") == "UnaryOperator" and strip(a).get("opcode") == "&"}
        for total in sorted({t_ for t_, v_ in sums if v_ in count_vars and t_}):
            counts = {v_ for t_, v_ in sums if t_ == total and v_ in count_vars}
            # conditions the function never changes, restricted to those that guard a counting call or a store to the total
            written = set()
            for m_ in walk(body):
                if m_.get("kind") in ("BinaryOperator", "CompoundAssignOperator") and m_.get("opcode", "").endswith("=") and m_.get("opcode") not in ("==", "!=", "<=", ">="):
                    written.add(EFF.lvalue_root(strip(kids(m_)[0]))[0])
                if m_.get("kind") == "UnaryOperator" and m_.get("opcode") in ("++", "--", "&"):
                    written.add(EFF.lvalue_root(strip(kids(m_)[0], casts=True))[0])
            inv = []
            for m_, parents_ in walk_with_parents(body):
                if m_.get("kind") in ("IfStmt", "ConditionalOperator") and kids(m_):
                    sub_txt = [expr_str(x) for x in walk(m_) if x.get("kind") in ("CallExpr", "BinaryOperator", "CompoundAssignOperator")]
                    feeds_total = m_.get("kind") == "ConditionalOperator" and any(
                        (p_.get("kind") == "VarDecl" and p_.get("name") == total) or
                        (p_.get("kind") == "BinaryOperator" and p_.get("opcode") == "=" and ref_name(strip(kids(p_)[0], casts=True)) == total)
                        for p_ in parents_[-3:])
                    if not feeds_total and not any("counting" in t_ or (total + " ") in t_ or t_.startswith(total) for t_ in sub_txt):
                        continue
                    c_ = strip(kids(m_)[0])
                    while c_.get("kind") == "UnaryOperator" and c_.get("opcode") == "!":
                        c_ = strip(kids(c_)[0])
                    if any(x.get("kind") == "CallExpr" for x in walk(c_)):
                        continue
                    roots = {ref_name(x) for x in walk(c_) if x.get("kind") == "DeclRefExpr" and (x.get("referencedDecl") or {}).get("kind") in ("VarDecl", "ParmVarDecl")}
                    if roots and not (roots & written) and expr_str(c_) not in inv:
                        inv.append(expr_str(c_))
            inv = inv[:4]
            worst = None
            for vals in itertools.product((True, False), repeat=len(inv)):
                d_ = _Init(total, counts, dict(zip(inv, vals)))
                Flow(d_).function(prog, f, "raw")
                if d_.nwrite and d_.nadd and (worst is None or len(d_.viol) > len(worst.viol)):
                    worst = d_
            if worst is not None:
                chk.require(not worst.viol, "COUNTSUM", "COUNTSUM/init/%s" % total, loc_str(worst.viol[0]) if worst.viol else loc_str(f),
                            "the total %s starts from zero on every path on which a count written by a counting call is added to it" % total,
                            "on some path the addition meets the initial (non-zero) value of %s" % total)
    # ---- EXIT: library failures reach a non-zero exit status ----------------------------------------------------
    kinds = {"asm_assemble_str": "status", "asm_assemble_file": "status", "asm_assemble_string_counting_chunks": "status",
             "asm_assemble_file_counting_chunks": "status", "asm_create_bin_file": "status"}
    noret = {fn for fn, f in tf.items() if _always_exits(prog, f)}
    chk.analysed["noreturn_helpers"] = sorted(noret)
    for fn in sorted(tf):
        if any(c.get("kind") == "CallExpr" and callee_name(c) in kinds for c in walk(prog.body(tf[fn]))):
            kinds_here = dict(kinds)
    def _returns_status(f):
        """a tool helper hands a status on: it returns EXIT_FAILURE somewhere, or directly returns a status call"""
        for r in walk(prog.body(f)):
            if r.get("kind") == "ReturnStmt" and kids(r):
                v = strip(kids(r)[0], casts=True)
                if v.get("kind") == "CallExpr" and callee_name(v) in kinds:
                    return True
                if ConstEval(prog).try_eval(v) == 1 and "EXIT_FAILURE" in (prog.spelling_text(kids(r)[0]) or prog.text(kids(r)[0]) or ""):
                    return True
        return False
    tool_status = {fn: "status" for fn, f in tf.items() if fn != "main" and qtype(f).startswith("int") and
                   any(c.get("kind") == "CallExpr" and callee_name(c) in kinds for c in walk(prog.body(f))) and _returns_status(f)}
    kinds.update(tool_status)
    nsite = 0
    for fn in sorted(tf):
        f = tf[fn]
        if not any(c.get("kind") == "CallExpr" and callee_name(c) in kinds for c in walk(prog.body(f))):
            continue
        reports = []
        dom = ERR.analyse_function(prog, fn, kinds, lambda k, n, t, r=reports: r.append((k, n, t)), noreturn=noret)
        nsite += len({id(s) for s in dom.sites})
        seen = set()
        for k, node, text in reports:
            key = "EXIT/%s/%s/%s" % (k, fn, expr_str(node)[:40])
            if key not in seen:
                seen.add(key)
                chk.bad("EXIT", key, loc_str(node), "every status-returning library call in asmline is tested", text)
        for s_ in {id(x): x for x in dom.sites}.values():
            if not any(n_ is s_ for _, n_, _ in reports):
                chk.ok("EXIT", "EXIT/checked/%s/%s@%s" % (fn, callee_name(s_), loc_str(s_)), loc_str(s_), "the status of %s() is tested or returned" % callee_name(s_))
        for n, s in dom.rets:
            failed = s.get("__failed")
            if not failed or n.get("kind") != "ReturnStmt":
                continue
            v = ConstEval(prog).try_eval(strip(kids(n)[0], casts=True)) if kids(n) else None
            rk = dom.key_of(kids(n)[0]) if kids(n) else None
            ok = (v is not None and v != 0) or (v is None and rk is not None)
            chk.require(ok, "EXIT", "EXIT/return/%s@%s" % (fn, loc_str(n)), loc_str(n),
                        "after %s() failed, %s does not return success" % (failed[0], fn), "returns %s" % (expr_str(kids(n)[0]) if kids(n) else ""))
        for n, s in dom.exits:
            failed = s.get("__failed")
            if failed:
                v = ConstEval(prog).try_eval(call_args(n)[0]) if call_args(n) else None
                chk.require(v not in (0,), "EXIT", "EXIT/exit/%s@%s" % (fn, loc_str(n)), loc_str(n),
                            "after %s() failed the process exits with a non-zero status" % failed[0], "exit(%s)" % v)
    chk.floor("status-returning calls in asmline", nsite, 6)
    # ---- the code pointer used for -r / output is taken after assembly ---------------------------------------------
    from checks import C08
    C08.stale_rule(chk, prog, ["main"], movers=set(k for k in kinds if k.startswith("asm_assemble")),
                   derive_calls=("asm_get_code", "asm_get_buffer"))
    # ---- premises in the library that "stdin and FILE give the same result" and the exit status rest on ------------
    from valib import pipeline as PL
    from valib import chunk as CH
    roles = PL.Roles(prog)
    CH.emitter_shape_rules(chk, prog, roles, want=("DEST", "GRID", "ADV"), rule="SAME")   # chunk grid independent of how the text is split into calls
    from checks import C19
    C19.delegation_rule(chk, prog, roles)                                                   # the file entry points return what the string entry points return
    C19.bin_rule(chk, prog)                                                                 # the file is truncated and gets buffer[0, offset)
    from valib import err as ERR2
    ERR2.prop_rules(chk, prog)                                                              # the library's own statuses reach its entries
    wide_pointer_rule(chk, prog)
    # ---- output file name ---------------------------------------------------------------------------------------------
    bin_calls = [c for fn, f in tf.items() for c in walk(prog.body(f)) if c.get("kind") == "CallExpr" and callee_name(c) == "asm_create_bin_file"]
    chk.require(len(bin_calls) == 1, "OUT", "OUT/writer", loc_str(main), "the binary outputs go through asm_create_bin_file", "%d calls" % len(bin_calls))
    fmt = [strip(a, casts=True).get("value", "") for fn, f in tf.items() for c in walk(prog.body(f))
           if c.get("kind") == "CallExpr" and callee_name(c) in ("snprintf", "sprintf") for a in call_args(c)
           if strip(a, casts=True).get("kind") == "StringLiteral"]
    chk.require(any(x.strip('"') == "%s.bin" for x in fmt), "OUT", "OUT/suffix", loc_str(main), "-o FILENAME writes FILENAME.bin", str(fmt))
    chk.explanation = (
        "Decides: the getopt table, the getopt switch and the set_* helpers are evaluated into flag -> sequence of library setter "
        "calls, and that sequence, composed with the library's own per-bit transfer functions (C12), realises on all 12 option "
        "states exactly what the flag's name promises; -c/-b route the parsed number to asm_set_chunk_size / the counting entries; "
        "stdin and FILE use the same instance and matching variants; every status-returning library call is tested and a failure "
        "reaches a non-zero return or exit; the code pointer is taken after assembly. NOT decided: hex/chunk-row formatting, -r "
        "output, equality of stdin and FILE results (rests on C06).")


_SIZES = {"char": 1, "signed char": 1, "unsigned char": 1, "_Bool": 1, "bool": 1, "uint8_t": 1, "int8_t": 1,
          "short": 2, "unsigned short": 2, "uint16_t": 2, "int16_t": 2,
          "int": 4, "unsigned int": 4, "unsigned": 4, "uint32_t": 4, "int32_t": 4, "float": 4,
          "long": 8, "unsigned long": 8, "size_t": 8, "ssize_t": 8, "uint64_t": 8, "int64_t": 8, "long long": 8, "unsigned long long": 8, "double": 8}


def _sizeof(prog, t):
    t = t.replace("const ", "").replace("volatile ", "").strip()
    if t.endswith("*"):
        return 8
    for _ in range(5):
        if t in _SIZES:
            return _SIZES[t]
        td = prog.typedefs.get(t) or getattr(prog, "tool_typedefs", {}).get(t)
        if td is None:
            break
        t = ((td.get("type") or {}).get("desugaredQualType") or qtype(td)).replace("const ", "").strip()
    if t.startswith("enum ") or prog.enum_members(t) or t in getattr(prog, "tool_enum_types", ()):
        return 4
    return None


def wide_pointer_rule(chk, prog, rule="WIDEPTR"):
    """`(T *)&x` handed to something that stores a T (getopt's flag targets store an int): T must not be wider than x, or the
    store also overwrites what lies behind x (the neighbouring option fields)"""
    n = 0
    fns = dict(tool_functions(prog))
    fns.update(prog.lib_functions())
    for fn, f in sorted(fns.items()):
        for m in walk(prog.body(f)):
            if m.get("kind") != "CStyleCastExpr" or not qtype(m).rstrip().endswith("*"):
                continue
            inner = strip(kids(m)[0], casts=True) if kids(m) else None
            if not inner or inner.get("kind") != "UnaryOperator" or inner.get("opcode") != "&":
                continue
            obj = strip(kids(inner)[0])
            to = qtype(m).rstrip()[:-1].strip()
            if to.replace("const ", "") in ("void", "char", "unsigned char", "uint8_t"):
                continue
            tsz = _sizeof(prog, to)
            ot = (obj.get("type") or {})
            osz = _sizeof(prog, ot.get("desugaredQualType") or ot.get("qualType") or "")
            if osz is None and (ot.get("desugaredQualType") or "").startswith("enum"):
                osz = 4
            key = "%s/%s/%s@%s" % (rule, fn, expr_str(obj)[:30], loc_str(m))
            if tsz is None or osz is None:
                if "[" in (ot.get("qualType") or "") or "struct" in (ot.get("desugaredQualType") or ot.get("qualType") or "") or "struct" in to:
                    continue          # aggregates reinterpreted as a whole: not the pattern this rule is about
                chk.broken(rule, key, loc_str(m), "the sizes of %s and of %s are known" % (to, ot.get("qualType")), "unknown type size")
                continue
            n += 1
            chk.require(tsz <= osz, rule, key, loc_str(m),
                        "a pointer to %s is made to point at an object at least as large" % to,
                        "%s has %d bytes, a store through the pointer writes %d" % (expr_str(obj), osz, tsz))
    chk.analysed["pointer_casts_of_object_addresses"] = n       # may legitimately be none (flag targets declared int)
    return n


_PROG = [None]


def _parses_optarg(e, depth=0):
    """is the expression atoi/strtol(optarg), directly or through a tool helper that returns the conversion of the argument it is
    given (`parse_boundary_arg(optarg, msg)` returning `atoi(arg)` or a local that received it)"""
    r = strip(e, casts=True)
    if r.get("kind") != "CallExpr" or not call_args(r):
        return False
    if callee_name(r) in ("atoi", "strtol", "atol", "strtoul"):
        return "optarg" in expr_str(call_args(r)[0])
    prog = _PROG[0]
    g = tool_functions(prog).get(callee_name(r)) if prog is not None else None
    if g is None or depth > 2:
        return False
    idx = [i for i, a in enumerate(call_args(r)) if "optarg" in expr_str(a)]
    ps = prog.params(g)
    if len(idx) != 1 or idx[0] >= len(ps):
        return False
    pn = ps[idx[0]]["name"]

    def conv_of_param(x):
        x = strip(x, casts=True)
        return x.get("kind") == "CallExpr" and callee_name(x) in ("atoi", "strtol", "atol", "strtoul") and call_args(x) and \
            ref_name(strip(call_args(x)[0], casts=True)) == pn
    rets = [m for m in walk(prog.body(g)) if m.get("kind") == "ReturnStmt" and kids(m)]
    if not rets:
        return False
    for rt in rets:
        x = strip(kids(rt)[0], casts=True)
        if conv_of_param(x):
            continue
        nm = ref_name(x) if x.get("kind") == "DeclRefExpr" else None
        asg = [kids(m)[1] for m in walk(prog.body(g)) if m.get("kind") == "BinaryOperator" and m.get("opcode") == "=" and
               ref_name(strip(kids(m)[0], casts=True)) == nm] if nm else []
        if not asg or not all(conv_of_param(y) for y in asg):
            return False
    return True


def _is_parsed_number(f, e):
    """e is atoi/strtol(optarg) (possibly through a tool helper), or a local that receives it somewhere in f"""
    if _parses_optarg(e):
        return True
    nm = ref_name(e)
    if not nm:
        return False
    for m in walk(f):
        if m.get("kind") == "BinaryOperator" and m.get("opcode") == "=" and ref_name(kids(m)[0]) == nm:
            if _parses_optarg(kids(m)[1]):
                return True
    return False


def _always_exits(prog, f):
    body = prog.body(f)
    if body is None or any(m.get("kind") == "ReturnStmt" for m in walk(body)):
        return False
    ks = kids(body)
    if not ks:
        return False
    last = strip(ks[-1])
    return last.get("kind") == "CallExpr" and callee_name(last) in ("exit", "_exit", "abort")
