"""REL8: value-set analysis of the short/long decision of relative branches.

The set of displacement values for which the short (rel8) row is selected is
computed by a path-sensitive interpretation of the function that sets the
short flag, over the domain  {(interval of cons, is_short, is_long, in the
CONTROL_FLOW-with-immediate branch)}.  It must be a subset of the values whose
low byte sign-extends to the displacement, and `long` must exclude `short`."""
from .core import (AnalysisBroken, ConstEval, kids, strip, walk, expr_str, loc_str, ref_name, callee_name, call_args)
from .flow import Flow

U64 = (1 << 64) - 1
ALLOWED = [(0, 0x7f), (0xffffff80, 0xffffffff), (U64 - 127, U64)]


def _member(e, name):
    e = strip(e, casts=True)
    return e.get("kind") == "MemberExpr" and e.get("name") == name


DECISION_FIELDS = ("cons", "is_short", "is_long")


class Rel8Domain:
    def __init__(self, prog, parent=None):
        self.prog = prog
        self.at_site = parent.at_site if parent else []       # (node, state)
        self.at_exit = []       # (successful return, state)
        self.ce = ConstEval(prog)
        self.inlined = parent is not None
        self.rets = {}          # inlined helper: return constant (None = not constant) -> state
        self.callres = {}       # id(call node) -> {return constant: state}
        self.depth = parent.depth + 1 if parent else 0
        self.cons_alias = set()   # ids of locals that hold a copy of the constant field
        self.cond_def = {}        # id of a local -> the condition over the constant it was initialised with

    def _decides(self, name):
        """a helper of the line parser that takes the record and reads the decision fields: interpreted in place"""
        lib = self.prog.lib_functions()
        if name not in lib or self.depth >= 3:
            return False
        f = lib[name]
        if not any("struct instr *" in (p.get("type", {}).get("qualType", "")) for p in self.prog.params(f)):
            return False
        reads = set()
        for m in walk(self.prog.body(f)):
            if m.get("kind") == "MemberExpr" and m.get("name") in DECISION_FIELDS:
                reads.add(m["name"])
        # the tokeniser also touches these fields, but it is what gives them their (arbitrary) initial values
        calls_tok = any(c.get("kind") == "CallExpr" and callee_name(c) in ("strtok_r", "strtoul") for c in walk(self.prog.body(f)))
        return "cons" in reads and ("is_short" in reads or "is_long" in reads) and not calls_tok

    def _inline(self, call, s):
        sub = Rel8Domain(self.prog, parent=self)
        f = self.prog.fn(callee_name(call))
        end = Flow(sub).function(self.prog, f, s)
        if end is not None:
            sub.rets[None] = sub.rets[None] | end if None in sub.rets else end
        self.callres[id(call)] = sub.rets
        out = None
        for st in sub.rets.values():
            out = st if out is None else out | st
        return out

    def copy(self, s): return s
    def join(self, a, b): return a | b
    def equal(self, a, b): return a == b
    def widen(self, o, n): return n

    def _is_cons(self, e):
        e0 = strip(e, casts=True)
        if _member(e0, "cons"):
            return True
        return e0.get("kind") == "DeclRefExpr" and (e0.get("referencedDecl") or {}).get("id") in self.cons_alias

    def decl(self, vd, s):
        for c in kids(vd):
            s = self.eval(c, s)
        if kids(vd) and "const" in (vd.get("type") or {}).get("qualType", ""):
            init = kids(vd)[-1]
            i0 = strip(init, casts=True)
            if self._is_cons(i0):
                self.cons_alias.add(vd["id"])             # `const unsigned long target = x->cons;`
            elif i0.get("kind") in ("BinaryOperator", "UnaryOperator", "ParenExpr") and self._over_cons_only(i0):
                self.cond_def[vd["id"]] = init            # `const bool fits = target <= 0x7f || ...;` a condition over the constant only
        return s

    def _over_cons_only(self, e):
        """does the expression read nothing but the constant field (or copies of it) and literals"""
        for m in walk(e):
            k = m.get("kind")
            if k == "CallExpr":
                return False
            if k == "MemberExpr" and m.get("name") != "cons":
                return False
            if k == "DeclRefExpr" and (m.get("referencedDecl") or {}).get("kind") in ("VarDecl", "ParmVarDecl"):
                if (m.get("referencedDecl") or {}).get("id") not in self.cons_alias and not self._is_record_base(m):
                    return False
        return True

    @staticmethod
    def _is_record_base(m):
        """the record pointer itself (`instr_data` in `instr_data->cons`)"""
        t = (m.get("type") or {}).get("qualType", "")
        return "struct instr" in t

    def eval(self, e, s):
        e0 = strip(e)
        if not e0 or s is None:
            return s
        k, ks = e0.get("kind"), kids(e0)
        if k == "CallExpr" and self._decides(callee_name(e0)):
            for a in call_args(e0):
                s = self.eval(a, s)
                if s is None:
                    return None
            return self._inline(e0, s)
        if k in ("BinaryOperator", "CompoundAssignOperator") and e0.get("opcode", "").endswith("=") and \
                e0.get("opcode") not in ("==", "!=", "<=", ">="):
            l = strip(ks[0], casts=True)
            if _member(l, "key") and e0.get("opcode") == "+=" and _member(ks[1], "is_short"):
                self.at_site.append((e0, s))
                return s
            if _member(l, "is_short") or _member(l, "is_long"):
                v = self.ce.try_eval(ks[1])
                idx = 2 if l.get("name") == "is_short" else 3
                out = set()
                for t in s:
                    t = list(t)
                    if v is None:
                        for b in (0, 1):
                            t2 = list(t); t2[idx] = b; out.add(tuple(t2))
                    else:
                        t[idx] = 1 if v else 0
                        out.add(tuple(t))
                return frozenset(out)
            if _member(l, "cons"):
                self.cons_alias.clear()      # copies and named conditions taken before the constant changed say nothing about it now
                self.cond_def.clear()
                c = self.ce.try_eval(ks[1])
                if e0.get("opcode") == "&=" and c is not None and c & (c + 1) == 0:
                    return frozenset(((lo, hi) if hi <= c else (0, c)) + (sh, lg, cf) for (lo, hi, sh, lg, cf) in s)
                return frozenset((0, U64, t[2], t[3], t[4]) for t in s)
            return self.eval(ks[1], s)
        for c in ks:
            s = self.eval(c, s)
        return s

    def assume(self, e, truth, s):
        e0 = strip(e)
        k = e0.get("kind")
        if k == "CallExpr" and id(e0) in self.callres:
            out = None
            for c, st in self.callres[id(e0)].items():
                if c is None or bool(c) == truth:
                    out = st if out is None else out | st
            return out or None
        if k == "DeclRefExpr" and (e0.get("referencedDecl") or {}).get("id") in self.cond_def:
            # a named condition over the constant: decide it where it is used (the constant has not changed since: see eval)
            return Flow(self).cond(self.cond_def[e0["referencedDecl"]["id"]], truth, s)
        if k == "MemberExpr" and e0.get("name") == "imm" and not truth:
            # no immediate operand: the constant field still holds its zero initialiser
            out = frozenset((0, 0, sh, lg, cf) for (lo, hi, sh, lg, cf) in s if lo <= 0)
            return out or None
        if k == "MemberExpr" and e0.get("name") in ("is_short", "is_long"):
            idx = 2 if e0["name"] == "is_short" else 3
            out = frozenset(t for t in s if bool(t[idx]) == truth)
            return out or None
        if k == "BinaryOperator" and e0.get("opcode") in ("<", ">", "<=", ">=", "==", "!="):
            l, r = kids(e0)
            op = e0["opcode"]
            if self._is_cons(r) and not self._is_cons(l):
                l, r = r, l
                op = {"<": ">", ">": "<", "<=": ">=", ">=": "<="}.get(op, op)
            if self._is_cons(l):
                c = self.ce.try_eval(r)
                if c is not None:
                    c &= U64
                    if not truth:
                        op = {"<": ">=", ">": "<=", "<=": ">", ">=": "<", "==": "!=", "!=": "=="}[op]
                    out = set()
                    for (lo, hi, sh, lg, cf) in s:
                        for a, b in self._split(lo, hi, op, c):
                            out.add((a, b, sh, lg, cf))
                    return frozenset(out) or None
            # INSTR_TABLE[key].type == CONTROL_FLOW
            txt = expr_str(e0)
            if ".type ==" in txt and "CONTROL_FLOW" in txt:
                if truth:
                    return frozenset((lo, hi, sh, lg, 1) for (lo, hi, sh, lg, cf) in s)
                # not CONTROL_FLOW: contradicts paths on which the row was already seen to be one
                # (the row reached by `key += is_short` has the same type: PAIR/type and SUCC check that)
                out = frozenset(t for t in s if not t[4])
                return out or None
        return s

    def _split(self, lo, hi, op, c):
        if op == "<":
            return [(lo, min(hi, c - 1))] if lo <= c - 1 else []
        if op == "<=":
            return [(lo, min(hi, c))] if lo <= c else []
        if op == ">":
            return [(max(lo, c + 1), hi)] if hi >= c + 1 else []
        if op == ">=":
            return [(max(lo, c), hi)] if hi >= c else []
        if op == "==":
            return [(c, c)] if lo <= c <= hi else []
        if op == "!=":
            out = []
            if lo <= c - 1:
                out.append((lo, min(hi, c - 1)))
            if hi >= c + 1:
                out.append((max(lo, c + 1), hi))
            return out
        return [(lo, hi)]

    def ret(self, n, s):
        c = self.ce.try_eval(strip(kids(n)[0], casts=True)) if kids(n) else None
        if self.inlined:
            self.rets[c] = self.rets[c] | s if c in self.rets else s
            return
        if kids(n) and c == 0:
            self.at_exit.append((n, s))


def rel8_rule(chk, prog, rule="REL8", short_rows_without_ib=()):
    # the function that adds the short flag to the key
    site_fn = None
    for fn, f in sorted(prog.lib_functions().items()):
        for m in walk(prog.body(f)):
            if m.get("kind") == "CompoundAssignOperator" and m.get("opcode") == "+=" and _member(kids(m)[0], "key") and _member(kids(m)[1], "is_short"):
                site_fn = fn
    if site_fn is None:
        chk.broken(rule, rule + "/site", "-", "the statement that adds the short flag to the table key is visible", "not found")
        return
    f = prog.fn(site_fn)
    dom = Rel8Domain(prog)
    init = frozenset((0, U64, sh, lg, 0) for (sh, lg) in ((0, 0), (1, 0), (0, 1)))
    Flow(dom).function(prog, f, init)
    if not dom.at_site:
        chk.broken(rule, rule + "/site", loc_str(f), "the key increment is reachable", "unreachable in the flow analysis")
        return
    node, st = dom.at_site[-1]
    allst = frozenset().union(*[s for _, s in dom.at_site])
    bad = []
    longshort = []
    ncf = 0
    for (lo, hi, sh, lg, cf) in sorted(allst):
        if not cf:
            continue
        ncf += 1
        if sh:
            # [lo,hi] must be inside the union of allowed ranges
            cur = lo
            for a, b in ALLOWED:
                if cur < a:
                    break
                if a <= cur <= b:
                    cur = b + 1
                if cur > hi:
                    break
            if cur <= hi:
                bad.append((max(cur, lo), hi, lg))
            if lg:
                longshort.append((lo, hi))
    chk.analysed["rel8_states_at_increment"] = ["cons in [%#x,%#x] short=%d long=%d" % (lo, hi, sh, lg) for (lo, hi, sh, lg, cf) in sorted(allst) if cf]
    chk.floor("branch states at the key increment", ncf, 3)
    chk.require(not bad, rule, rule + "/range", loc_str(node),
                "the rel8 row is selected only for displacements whose low byte sign-extends to the value (0..0x7f, or negative -128..-1)",
                "short form reachable for cons in %s" % ", ".join("[%#x,%#x]" % (a, b) for a, b, _ in bad[:3]))
    chk.require(not longshort, rule, rule + "/long", loc_str(node),
                "the `long` keyword excludes the rel8 row", "with `long`, the short flag is still set for cons in %s" %
                ", ".join("[%#x,%#x]" % t for t in longshort[:3]))

    # REL32: a displacement leaves the function as a 32-bit quantity (the emitter writes every significant byte)
    wide_long, wide_short = [], []
    allex = frozenset().union(*[s for _, s in dom.at_exit]) if dom.at_exit else frozenset()
    NEG31 = (1 << 64) - (1 << 31)      # displacements in the property's domain -2^31..-1, as 64-bit values
    for (lo, hi, sh, lg, cf) in sorted(allex):
        if cf and hi >= NEG31:
            (wide_short if sh else wide_long).append((max(lo, NEG31), hi))
    where = loc_str(dom.at_exit[-1][0]) if dom.at_exit else loc_str(f)
    chk.floor("successful returns of the line parser", len(dom.at_exit), 1)
    chk.require(not wide_long, rule, rule + "/rel32-width", where,
                "a negative rel32 displacement (-2^31..-1 as a 64-bit value) is reduced to 32 bits before it is emitted",
                "cons in %s reaches the encoder with the long form" % ", ".join("[%#x,%#x]" % t for t in wide_long[:2]))
    if wide_short:
        chk.require(not short_rows_without_ib, rule, rule + "/short-width", where,
                    "with the short flag set a displacement wider than 32 bits is only kept where the selected row truncates it (imm8 marker)",
                    "cons in %s reaches %s, whose row after the increment has no imm8 marker and is emitted in full"
                    % (", ".join("[%#x,%#x]" % t for t in wide_short[:2]), ", ".join(short_rows_without_ib)))
    else:
        chk.ok(rule, rule + "/short-width", where, "no displacement wider than 32 bits reaches the encoder with the short flag set")
