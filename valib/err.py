"""ERR engine: must-check / propagation analysis for OS calls and internal
status-returning functions, on the structured flow interpreter."""
import re

from .core import (AnalysisBroken, ConstEval, kids, strip, walk, expr_str, loc_str, qtype, ref_name, ref_decl,
                   callee_name, call_args)
from .flow import Flow
from . import eff as EFF

# failure convention of the OS / libc calls the library makes
OS_FAIL = {
    "malloc": "null", "calloc": "null", "realloc": "null", "fopen": "null", "fdopen": "null",
    "strdup": "null", "strndup": "null", "aligned_alloc": "null", "tmpfile": "null", "opendir": "null",
    "mmap": "mapfailed", "mremap": "mapfailed",
    "open": "neg", "read": "neg", "write": "neg",
    "fstat": "nonzero", "stat": "nonzero", "fclose": "nonzero", "fflush": "nonzero",
    "fwrite": "count",
}
# results that may be ignored (reason recorded in the evidence)
OPTIONAL = {
    "close": "closing a read-only descriptor cannot lose data",
    "munmap": "unmapping is clean-up; its failure leaves nothing the caller can use",
    "free": "returns nothing",
    "perror": "diagnostic", "fprintf": "diagnostic", "printf": "diagnostic",
}


def is_map_failed(prog, e):
    e = strip(e)
    if e.get("kind") == "CStyleCastExpr" and "*" in qtype(e):
        v = ConstEval(prog).try_eval(strip(kids(e)[0], casts=True))
        return v == -1
    return False


def is_null(prog, e):
    e = strip(e, casts=True)
    v = ConstEval(prog).try_eval(e)
    return v == 0 and True


def is_unsigned_type(n):
    """does the declared / expression type of n resolve to an unsigned integer type"""
    t = (n.get("type") or {})
    txt = t.get("desugaredQualType") or t.get("qualType") or ""
    txt = txt.replace("const ", "").strip()
    return txt.startswith("unsigned") or txt in ("size_t", "uint8_t", "uint16_t", "uint32_t", "uint64_t", "uintptr_t", "_Bool", "bool")


class U:
    """unchecked result"""
    unsigned = False        # the result is held in a variable of unsigned type: `< 0` / `<= 0` can no longer see -1

    def __init__(self, kind, callee, node):
        self.kind, self.callee, self.node = kind, callee, node

    def held_unsigned(self):
        u = U(self.kind, self.callee, self.node)
        u.unsigned = True
        return u

    def __eq__(self, o):
        return isinstance(o, U) and o.node is self.node

    def __hash__(self):
        return id(self.node)


class UF(U):
    """a variable that holds the (still untested) outcome of a failure test: true means failed (pos) or ok (not pos)"""
    def __init__(self, base, pos):
        U.__init__(self, "flag+" if pos else "flag-", base.callee, base.node)


OK, FAILED = "ok", "failed"


class ErrDomain:
    """state: {key: U | OK | FAILED | 'mixed'} plus '__written' = frozenset of instance fields written"""

    def __init__(self, prog, fname, f, kinds, report):
        self.prog, self.fname, self.f = prog, fname, f
        self.kinds = kinds              # callee -> failure kind (OS + internal summaries)
        self.report = report            # callable(kind, node, text)
        self.rets = []                  # (ReturnStmt, state)
        self.exits = []                 # (call to a noreturn function, state)
        self.sites = []                 # call nodes of must-check callees
        self.params = {p["name"] for p in prog.params(f)}
        rt = qtype(f).split("(")[0].strip()
        td = prog.typedefs.get(rt)
        if td is not None:
            rt = qtype(td)
        self.ret_is_ptr = rt.endswith("*")
        self.ret_void = rt == "void"

    # ---- lattice -------------------------------------------------------------
    def copy(self, s):
        return dict(s)

    def join(self, a, b):
        out = {}
        for k in set(a) | set(b):
            if k == "__written":
                out[k] = a.get(k, frozenset()) | b.get(k, frozenset())
                continue
            if k == "__facts":
                out[k] = a.get(k, frozenset()) & b.get(k, frozenset())
                continue
            if k == "__failed":
                out[k] = a.get(k) or b.get(k)
                continue
            if k == "__ffacts":
                # facts that hold on every *failed* path reaching this point
                fa, fb = a.get("__failed"), b.get("__failed")
                if fa and fb:
                    out[k] = a.get(k, frozenset()) & b.get(k, frozenset())
                else:
                    out[k] = a.get(k, frozenset()) if fa else b.get(k, frozenset())
                continue
            va, vb = a.get(k), b.get(k)
            if va == vb:
                out[k] = va
            elif va is None or vb is None:
                # tracked on one path only: keep the more dangerous one
                out[k] = va if vb is None else vb
                if isinstance(out[k], U):
                    pass
            elif isinstance(va, U) or isinstance(vb, U):
                out[k] = va if isinstance(va, U) else vb
            else:
                out[k] = "mixed"
        return out

    def equal(self, a, b):
        return a == b

    # ---- path facts: canonical strings of atoms known to hold ------------------
    def _kill(self, s, name):
        import re
        fs = s.get("__facts")
        if fs and name:
            pat = re.compile(r"(?<![A-Za-z0-9_])%s(?![A-Za-z0-9_])" % re.escape(name))
            s["__facts"] = frozenset(f for f in fs if not pat.search(f))
        ff = s.get("__ffacts")
        if ff and name:
            pat = re.compile(r"(?<![A-Za-z0-9_])%s(?![A-Za-z0-9_])" % re.escape(name))
            s["__ffacts"] = frozenset(f for f in ff if not pat.search(f))

    def widen(self, old, new):
        return new

    # ---- keys ------------------------------------------------------------------
    def key_of(self, e):
        e = strip(e, casts=True)
        if e.get("kind") == "DeclRefExpr":
            rd = e.get("referencedDecl", {})
            if rd.get("kind") in ("VarDecl", "ParmVarDecl"):
                return "v:" + rd.get("id", rd.get("name"))
        if e.get("kind") == "MemberExpr":
            return "m:" + expr_str(e)
        if e.get("kind") == "UnaryOperator" and e.get("opcode") == "*":
            b = strip(kids(e)[0], casts=True)
            if b.get("kind") == "DeclRefExpr" and b.get("referencedDecl", {}).get("kind") == "ParmVarDecl":
                return "d:" + b["referencedDecl"].get("id", "")
        return None

    def _flag_of(self, e, s):
        """if e is a comparison that tests a must-check result for failure: UF describing the boolean"""
        e = strip(e, casts=True)
        if e.get("kind") == "UnaryOperator" and e.get("opcode") == "!":
            f = self._flag_of(kids(e)[0], s)
            return UF(f, f.kind != "flag+") if f else None
        if e.get("kind") == "BinaryOperator" and e.get("opcode") in ("==", "!=", "<", ">", "<=", ">="):
            a, op, b = self._atom_parts(e)
            for x, other, swapped in ((a, b, False), (b, a, True)):
                key, u = self._subject_status(x, s)
                if u is not None and not isinstance(u, UF):
                    fw = self._failed_when(u, op, other, True, swapped)
                    if fw is not None:
                        return UF(u, fw)
        if e.get("kind") == "BinaryOperator" and e.get("opcode") in ("||", "|"):
            for c in kids(e):
                f = self._flag_of(c, s)
                if f is not None:
                    return f
        key = self.key_of(e)
        if key and isinstance(s.get(key), UF):
            return s[key]
        return None

    def _call_kind(self, e):
        e = strip(e, casts=True)
        if e.get("kind") == "CallExpr" and str(self.kinds.get(callee_name(e) or "", "")).startswith("outmf:"):
            return None         # the result is a quantity; failure travels through the out-parameter
        if e.get("kind") == "ConditionalOperator":
            a, b = self._call_kind(kids(e)[1]), self._call_kind(kids(e)[2])
            if a and b and a[1] == b[1]:
                return a[0] + "|" + b[0], a[1], a[2]
            return None
        if e.get("kind") == "CallExpr":
            cn = callee_name(e)
            if cn in self.kinds:
                return cn, self.kinds[cn], e
        return None

    # ---- expressions --------------------------------------------------------------
    def _split_conditional(self, e, s):
        """`c ? a : b` -> [(arm, state in which it is evaluated)] (None when e is not a conditional expression)"""
        e0 = strip(e, casts=True)
        if e0 is None or e0.get("kind") != "ConditionalOperator" or self._call_kind(e0):
            return None
        c, a, b = kids(e0)
        s = self.eval(c, s, consumer="cond")
        if s is None:
            return []
        out = []
        for arm, truth in ((a, True), (b, False)):
            sa = self.assume(c, truth, self.copy(s))
            if sa is not None:
                out.append((arm, sa))
        return out

    def _status_const(self, lhs, rhs):
        """a plain int variable receiving a constant: FAILED for a non-zero one, OK for zero (a status variable being set)"""
        l = strip(lhs)
        if l.get("kind") not in ("DeclRefExpr", "VarDecl") or qtype(l).replace("const ", "") != "int":
            return None
        v = ConstEval(self.prog).try_eval(strip(rhs, casts=True))
        if v is None:
            return None
        return FAILED if v != 0 else OK

    def _const_fact(self, s, lhs_text, rhs):
        """`p = NULL` / `p = MAP_FAILED`: remember `p == <that>` as a path fact (a later test of p then knows its way)"""
        if is_null(self.prog, rhs) or is_map_failed(self.prog, rhs):
            f = "%s == %s" % (lhs_text, expr_str(strip(rhs, casts=True)))
            s["__facts"] = s.get("__facts", frozenset()) | {f}
            if s.get("__failed"):
                s["__ffacts"] = s.get("__ffacts", frozenset()) | {f}

    def decl(self, vd, s, _init=None):
        init = [_init] if _init is not None else kids(vd)
        if init:
            arms = self._split_conditional(init[-1], s)
            if arms is not None:
                outs = [self.decl(vd, self.copy(sa), _init=arm) for arm, sa in arms]
                outs = [o for o in outs if o is not None]
                if not outs:
                    return None
                r = outs[0]
                for o in outs[1:]:
                    r = self.join(r, o)
                return r
            s = self.eval(init[-1], s, consumer="init")
            if s is None:
                return None
            self._const_fact(s, vd["name"], init[-1])
            ck = self._call_kind(init[-1])
            fl = None if ck else self._flag_of(init[-1], s)
            if ck:
                u = U(ck[1], ck[0], ck[2])
                s["v:" + vd["id"]] = u.held_unsigned() if (ck[1] == "neg" and is_unsigned_type(vd)) else u
            elif fl is not None:
                for c in walk(strip(init[-1])):
                    if c.get("kind") == "CallExpr" and callee_name(c) in self.kinds:
                        self.sites.append(c)
                s["v:" + vd["id"]] = fl
            else:
                src = self.key_of(init[-1])
                if src and src in s:
                    s["v:" + vd["id"]] = s[src]
                elif self._status_const(vd, init[-1]) is not None:
                    s["v:" + vd["id"]] = self._status_const(vd, init[-1])
                elif is_map_failed(self.prog, init[-1]) or (is_null(self.prog, init[-1]) and "*" in qtype(vd)):
                    s["v:" + vd["id"]] = FAILED        # a result variable that starts out as the failure value
        return s

    def eval_cond(self, e, s):
        return self.eval(e, s, consumer="cond")

    def eval_ret(self, e, s):
        return self.eval(e, s, consumer="return")

    noreturn = frozenset(["exit", "_exit", "abort", "_Exit"])

    def eval(self, e, s, consumer=None):
        """walk an expression: flag reads of unchecked results, track assignments"""
        e0 = strip(e)
        if e0 is None or s is None:
            return s
        k = e0.get("kind")
        ks = kids(e0)
        if consumer == "cond" and self._is_check_atom(e0, s):
            # evaluate calls inside the atom, but reads of the tested variable are the check itself
            for c in walk(e0):
                ck = self._call_kind(c) if c.get("kind") == "CallExpr" else None
                if ck:
                    self.sites.append(ck[2])
                    for a in call_args(c):
                        s = self.eval(a, s, consumer="arg")
            return s
        if k in ("BinaryOperator", "CompoundAssignOperator") and e0.get("opcode", "").endswith("=") and \
                e0.get("opcode") not in ("==", "!=", "<=", ">="):
            lhs, rhs = ks
            if e0.get("opcode") == "=":
                arms = self._split_conditional(rhs, s)
                if arms is not None:
                    outs = []
                    for arm, sa in arms:
                        syn = dict(e0)
                        syn["inner"] = [lhs, arm]
                        o = self.eval(syn, sa, consumer=consumer)
                        if o is not None:
                            outs.append(o)
                    if not outs:
                        return None
                    r = outs[0]
                    for o in outs[1:]:
                        r = self.join(r, o)
                    return r
            fl = self._flag_of(rhs, s) if e0.get("opcode") in ("=", "|=") else None
            if e0.get("opcode") not in ("=", "|=") and fl is None:
                # `x += callee()`: the result is consumed by arithmetic, its failure value can no longer be told from a quantity
                for c in walk(strip(rhs)):
                    ckc = self._call_kind(c) if c.get("kind") == "CallExpr" else None
                    if ckc:
                        self.report("CHK", e0, "result of %s() is combined by `%s` with another value before it is compared with its failure value"
                                    % (ckc[0], e0.get("opcode")))
            plain_copy = e0.get("opcode") == "=" and strip(rhs, casts=True).get("kind") == "DeclRefExpr"
            s = self.eval(rhs, s, consumer="assign" if (fl is None and not plain_copy) else "flagged")
            lk = self.key_of(lhs)
            if s is None:
                return None
            old = s.get(lk) if lk else None
            if isinstance(old, U) and e0.get("opcode") == "=" and self._call_kind(rhs) is None and not (self.key_of(rhs) == lk):
                self.report("CHK", e0, "the untested result of %s() (%s) is overwritten" % (old.callee, loc_str(old.node)))
            if fl is not None and lk:
                if e0.get("opcode") == "=" or not isinstance(old, U):
                    s[lk] = fl
                for c in walk(strip(rhs)):
                    if c.get("kind") == "CallExpr" and callee_name(c) in self.kinds:
                        self.sites.append(c)
                self._kill(s, EFF.lvalue_root(strip(lhs))[0])
                return s
            self._kill(s, EFF.lvalue_root(strip(lhs))[0])
            owner, fld = EFF.owner_field(strip(lhs))
            if owner == "assemblyline":
                s["__written"] = s.get("__written", frozenset()) | {fld}
                pend = [v for kk, v in s.items() if isinstance(v, U) and kk != lk]
                rk = self.key_of(rhs)
                pend = [v for v in pend if not (rk and s.get(rk) is v)]
                for u in pend:
                    self.report("ORDER", e0, "instance field %s is written while the result of %s() at %s is still unchecked"
                                % (fld, u.callee, loc_str(u.node)))
            ck = self._call_kind(rhs)
            if lk and e0.get("opcode") == "=":
                if ck:
                    u = U(ck[1], ck[0], ck[2])
                    s[lk] = u.held_unsigned() if (ck[1] == "neg" and is_unsigned_type(strip(lhs))) else u
                else:
                    rk = self.key_of(rhs)
                    if rk and rk in s and rk != "__written":
                        s[lk] = s[rk]
                        if isinstance(s[rk], U) and owner == "assemblyline":
                            self.report("ORDER", e0, "unchecked result of %s() stored into instance field %s"
                                        % (s[rk].callee, fld))
                    elif is_map_failed(self.prog, rhs) or (lk in s and is_null(self.prog, rhs) and "*" in qtype(strip(lhs))):
                        s[lk] = FAILED
                    elif self._status_const(lhs, rhs) is not None:
                        s[lk] = self._status_const(lhs, rhs)
                    elif lk in s:
                        del s[lk]
            if e0.get("opcode") == "=":
                self._const_fact(s, expr_str(strip(lhs, casts=True)), rhs)
            # lhs sub-expressions (indices, bases)
            for c in kids(strip(lhs)):
                s = self.eval(c, s, consumer="lhs")
            return s
        if k == "CallExpr":
            ck = self._call_kind(e0)
            pt = passthrough_params(self.prog, callee_name(e0)) if callee_name(e0) in self.prog.functions else ()
            for ai, a in enumerate(call_args(e0)):
                if ai in pt and ck:
                    # the callee returns this status (or a failure of its own): the result of the call stands for it
                    ak = self.key_of(a)
                    if ak and isinstance(s.get(ak), U):
                        s[ak] = OK
                        continue
                s = self.eval(a, s, consumer="arg")
            if s is not None and callee_name(e0) in self.noreturn:
                self.exits.append((e0, dict(s)))
                return None
            okind = self.kinds.get(callee_name(e0) or "", "")
            if isinstance(okind, str) and okind.startswith("outmf:") and s is not None:
                # the callee reports failure by storing MAP_FAILED through this pointer argument
                idx = int(okind.split(":")[1])
                args = call_args(e0)
                if idx < len(args):
                    a0 = strip(args[idx], casts=True)
                    if a0.get("kind") == "UnaryOperator" and a0.get("opcode") == "&":
                        k_ = self.key_of(kids(a0)[0])
                        if k_:
                            s[k_] = U("mapfailed", callee_name(e0), e0)
                            self.sites.append(e0)
                return s
            if ck:
                self.sites.append(ck[2])
                if consumer is None:
                    self.report("CHK", e0, "result of %s() is discarded" % ck[0])
            return s
        if k == "ConditionalOperator" and not self._call_kind(e0):
            arms = self._split_conditional(e0, s)
            outs = [self.eval(arm, sa, consumer=consumer) for arm, sa in arms]
            outs = [o for o in outs if o is not None]
            if not outs:
                return None
            r = outs[0]
            for o in outs[1:]:
                r = self.join(r, o)
            return r
        if k == "DeclRefExpr":
            key = self.key_of(e0)
            v = s.get(key) if key else None
            if isinstance(v, U) and consumer not in ("return", "flagged"):
                self.report("CHK", e0, "result of %s() (%s) is used before it is compared with its failure value"
                            % (v.callee, loc_str(v.node)))
            elif v == FAILED and consumer in ("arg", "deref", "assign"):
                pass
            return s
        if k == "MemberExpr":
            key = self.key_of(e0)
            v = s.get(key) if key else None
            if isinstance(v, U):
                self.report("CHK", e0, "result of %s() is used before it is compared with its failure value" % v.callee)
            for c in ks:
                s = self.eval(c, s, consumer="deref" if e0.get("isArrow") else consumer)
            return s
        if k == "UnaryOperator" and e0.get("opcode") in ("++", "--"):
            owner, fld = EFF.owner_field(strip(ks[0]))
            if owner == "assemblyline":
                s["__written"] = s.get("__written", frozenset()) | {fld}
            self._kill(s, EFF.lvalue_root(strip(ks[0]))[0])
            return self.eval(ks[0], s, consumer="rw")
        for c in ks:
            sub = consumer if k in ("ImplicitCastExpr", "ParenExpr", "CStyleCastExpr") else "operand"
            if consumer == "flagged" and k in ("BinaryOperator", "UnaryOperator"):
                sub = "flagged"
            s = self.eval(c, s, consumer=sub)
            if s is None:
                return None
        return s

    # ---- checks ---------------------------------------------------------------------
    def _atom_parts(self, e):
        """(subject expr, op, other expr) of a comparison / truth test"""
        e = strip(e)
        if e.get("kind") == "BinaryOperator" and e.get("opcode") in ("==", "!=", "<", ">", "<=", ">="):
            return kids(e)[0], e["opcode"], kids(e)[1]
        return e, "truth", None

    def _subject_status(self, x, s):
        """(key or None, U status or call kind) for the tested operand"""
        ck = self._call_kind(x)
        if ck:
            return None, U(ck[1], ck[0], ck[2])
        key = self.key_of(x)
        if key and isinstance(s.get(key), U):
            return key, s[key]
        return None, None

    def _is_check_atom(self, e, s):
        a, op, b = self._atom_parts(e)
        for x in ((a, b) if b is not None else (a,)):
            _, u = self._subject_status(x, s)
            if u is not None:
                return True
        return False

    def assume(self, e, truth, s):
        if s is None:
            return None
        a, op, b = self._atom_parts(e)
        cands = [(a, b, False)] + ([(b, a, True)] if b is not None else [])
        for x, other, swapped in cands:
            key, u = self._subject_status(x, s)
            if u is None:
                continue
            failed = self._failed_when(u, op, other, truth, swapped)
            if failed is None:
                self.report("CHK", strip(e), "result of %s() is tested against something that is not its failure value (%s)"
                            % (u.callee, expr_str(e)))
                failed = False
            st = FAILED if failed else OK
            if key:
                s[key] = st
                # aliases of the same unchecked result
                for kk, vv in list(s.items()):
                    if isinstance(vv, U) and vv.node is u.node:
                        s[kk] = st
            else:
                s["c:%s" % id(u.node)] = st
            if failed:
                s["__failed"] = (u.callee, loc_str(u.node))
                s["__ffacts"] = s.get("__facts", frozenset())
            elif s.get("__failed"):
                # an earlier failure is pending: can a failed path take this (non-failing) branch at all?
                txt, tr = self._canon(e, truth)
                ff = s.get("__ffacts", frozenset())
                if (tr and "!(" + txt + ")" in ff) or (not tr and txt in ff):
                    s.pop("__failed", None)
                    s.pop("__ffacts", None)
            if not any(c.get("kind") == "CallExpr" for c in walk(strip(e))):
                # the outcome of the test is a path fact like any other
                txt, tr = self._canon(e, truth)
                fact = txt if tr else "!(" + txt + ")"
                s["__facts"] = s.get("__facts", frozenset()) | {fact}
                if s.get("__failed"):
                    s["__ffacts"] = s.get("__ffacts", frozenset()) | {fact}
            return s
        txt, truth = self._canon(e, truth)
        return self._assume_fact(s, e, txt, truth)

    @staticmethod
    def _canon(e, truth):
        txt = expr_str(e)
        # relational atoms in one canonical orientation: a >= b is !(a < b), a > b is b < a, a <= b is !(b < a), a != b is !(a == b)
        e0 = strip(e)
        if e0.get("kind") == "BinaryOperator" and e0.get("opcode") in ("<", "<=", ">", ">=", "!="):
            a, b = expr_str(strip(kids(e0)[0], casts=True)), expr_str(strip(kids(e0)[1], casts=True))
            op = e0["opcode"]
            if op == "<":
                txt = "%s < %s" % (a, b)
            elif op == ">":
                txt = "%s < %s" % (b, a)
            elif op == ">=":
                txt, truth = "%s < %s" % (a, b), not truth
            elif op == "<=":
                txt, truth = "%s < %s" % (b, a), not truth
            elif op == "!=":
                txt, truth = "%s == %s" % (a, b), not truth
        elif e0.get("kind") == "BinaryOperator" and e0.get("opcode") == "==":
            txt = "%s == %s" % (expr_str(strip(kids(e0)[0], casts=True)), expr_str(strip(kids(e0)[1], casts=True)))
        return txt, truth

    def _assume_fact(self, s, e, txt, truth):
        fs = s.get("__facts", frozenset())
        neg = "!(" + txt + ")"
        if truth and neg in fs:
            return None
        if not truth and txt in fs:
            return None
        # a branch no failed path can take: the state beyond it is not a failed one
        if s.get("__failed"):
            ff = s.get("__ffacts", frozenset())
            if (truth and neg in ff) or (not truth and txt in ff):
                s.pop("__failed", None)
                s.pop("__ffacts", None)
        if not any(c.get("kind") == "CallExpr" for c in walk(strip(e))):
            s["__facts"] = fs | {txt if truth else neg}
            if s.get("__failed"):
                s["__ffacts"] = s.get("__ffacts", frozenset()) | {txt if truth else neg}
        return s

    def _failed_when(self, u, op, other, truth, swapped):
        """does the atom being `truth` mean the call failed? None = not a valid check"""
        prog = self.prog
        kind = u.kind
        if kind in ("flag+", "flag-"):
            pos = kind == "flag+"
            v = ConstEval(prog).try_eval(strip(other, casts=True)) if other is not None else None
            if op == "truth":
                return truth == pos
            if op in ("==", "!=") and v is not None:
                istrue = (v != 0) == (op == "==")      # atom true means flag is true?
                return (truth == istrue) == pos
            return None
        if swapped and op in ("<", ">", "<=", ">="):
            op = {"<": ">", ">": "<", "<=": ">=", ">=": "<="}[op]
        if kind == "null":
            if op == "truth":
                return not truth
            if op in ("==", "!=") and other is not None and is_null(prog, other):
                return truth if op == "==" else not truth
            return None
        if kind == "mapfailed":
            if op in ("==", "!=") and other is not None and is_map_failed(prog, other):
                return truth if op == "==" else not truth
            return None
        if kind == "neg":
            v = ConstEval(prog).try_eval(strip(other, casts=True)) if other is not None else None
            if op == "==" and v == -1:
                return truth
            if op == "!=" and v == -1:
                return not truth
            if u.unsigned and op in ("<", ">=", "<=", ">"):
                return None           # held in an unsigned variable: -1 is a huge positive value there, an ordering test misses it
            if op == "<" and v == 0:
                return truth
            if op == ">=" and v == 0:
                return not truth
            if op == "<=" and v in (0, -1):
                return truth          # `got <= 0`: failure or end of input, both handled as failure
            if op == ">" and v in (0, -1):
                return not truth
            return None
        if kind == "nonzero":
            v = ConstEval(prog).try_eval(strip(other, casts=True)) if other is not None else None
            if op == "truth":
                return truth
            if op == "==" and v == 0:
                return not truth
            if op == "!=" and v == 0:
                return truth
            if op == "==" and v in (-1,):
                return truth
            if op == "!=" and v in (-1,):
                return not truth
            if op == "<" and v == 0:
                return truth
            return None
        if kind == "count":
            want = call_args(u.node)[2] if len(call_args(u.node)) > 2 else None
            if want is None or other is None or expr_str(strip(other, casts=True)) != expr_str(strip(want, casts=True)):
                return None
            if op == "!=":
                return truth
            if op == "==":
                return not truth
            if op == "<":
                return truth
            if op == ">=":
                return not truth
            return None
        if kind == "status":     # internal: EXIT_FAILURE / nonzero means failure
            v = ConstEval(prog).try_eval(strip(other, casts=True)) if other is not None else None
            if op == "truth":
                return truth
            if op in ("==", "!=") and v is not None:
                if v == 0:
                    return (not truth) if op == "==" else truth
                # a comparison with a value the callee never returns decides nothing (e.g. `== NA` on an EXIT_* status)
                rc = return_constants(prog, u.callee)
                if rc is not None and v not in rc:
                    return None
                return truth if op == "==" else (not truth)
            return None
        return None

    # ---- returns ---------------------------------------------------------------------
    def ret(self, n, s):
        self.rets.append((n, dict(s)))


_RC_MEMO = {}


def return_constants(prog, fn, _depth=0):
    """the set of integer constants fn can return when every return is a constant or a call of such a function; else None"""
    key = (id(prog), fn)
    if key in _RC_MEMO:
        return _RC_MEMO[key]
    f = prog.functions.get(fn)
    if f is None or prog.body(f) is None or _depth > 6:
        return None
    _RC_MEMO[key] = None
    out = set()
    ce = ConstEval(prog)
    for m in walk(prog.body(f)):
        if m.get("kind") == "ReturnStmt" and kids(m):
            e = strip(kids(m)[0], casts=True)
            v = ce.try_eval(e)
            if v is not None:
                out.add(v)
            elif e.get("kind") == "CallExpr" and callee_name(e) in prog.functions and callee_name(e) != fn:
                sub = return_constants(prog, callee_name(e), _depth + 1)
                if sub is None:
                    return None
                out |= sub
            else:
                return None
    _RC_MEMO[key] = out
    return out


def internal_summaries(prog):
    """failure convention of library functions that return a pointer sentinel"""
    out = {}
    for name, f in prog.lib_functions().items():
        rt = qtype(f).split("(")[0].strip()
        if not rt.endswith("*"):
            continue
        vals = set()
        nonconst = 0
        for m in walk(prog.body(f)):
            if m.get("kind") == "ReturnStmt" and kids(m):
                if is_map_failed(prog, kids(m)[0]):
                    vals.add("mapfailed")
                elif is_null(prog, kids(m)[0]):
                    vals.add("null")
                else:
                    nonconst += 1
        if "mapfailed" in vals:
            out[name] = "mapfailed"
        elif "null" in vals and nonconst and name != "asm_create_instance":
            out[name] = "null"
    # failure reported through an out-parameter: `*p = MAP_FAILED` somewhere in a function with a pointer-to-pointer parameter
    for name, f in prog.lib_functions().items():
        if name in out:
            continue
        ps = prog.params(f)
        for i, p in enumerate(ps):
            if qtype(p).count("*") < 2:
                continue
            for m in walk(prog.body(f)):
                if m.get("kind") == "BinaryOperator" and m.get("opcode") == "=":
                    l = strip(kids(m)[0], casts=True)
                    if l.get("kind") == "UnaryOperator" and l.get("opcode") == "*" and ref_name(strip(kids(l)[0], casts=True)) == p["name"] \
                            and is_map_failed(prog, kids(m)[1]):
                        out[name] = "outmf:%d" % i
    return out


class PartDomain:
    """Disjunctive wrapper around ErrDomain: the state is {failure tag: sub-state}, so the paths on which some call failed are
    carried apart from the paths on which none did (and apart from each other per failing call).  What a status variable holds
    on a failed path is then not blurred by the paths that did not fail."""

    def __init__(self, inner):
        self.i = inner

    def _norm(self, subs):
        out = {}
        for s in subs:
            if s is None:
                continue
            t = s.get("__failed")
            out[t] = self.i.join(out[t], s) if t in out else s
        return out or None

    def _map(self, fn, S):
        if S is None:
            return None
        return self._norm([fn(s) for s in S.values()])

    def copy(self, S):
        return {t: self.i.copy(s) for t, s in S.items()}

    def join(self, A, B):
        return self._norm(list(A.values()) + list(B.values()))

    def equal(self, A, B):
        return set(A) == set(B) and all(self.i.equal(A[t], B[t]) for t in A)

    def widen(self, O, N):
        return N

    def decl(self, vd, S):
        return self._map(lambda s: self.i.decl(vd, s), S)

    def eval(self, e, S):
        return self._map(lambda s: self.i.eval(e, s), S)

    def eval_cond(self, e, S):
        return self._map(lambda s: self.i.eval_cond(e, s), S)

    def eval_ret(self, e, S):
        return self._map(lambda s: self.i.eval_ret(e, s), S)

    def assume(self, e, truth, S):
        return self._map(lambda s: self.i.assume(e, truth, s), S)

    def ret(self, n, S):
        for s in S.values():
            self.i.ret(n, s)


_PT_MEMO = {}


def passthrough_params(prog, gname):
    """indices of the int parameters a library function hands back unchanged: some return is exactly that parameter, the
    parameter is never assigned, and every other return is a non-zero constant (a failure of the function's own).  The result
    of such a call is a success only if the argument was: the status travels through."""
    key = (id(prog), gname)
    if key in _PT_MEMO:
        return _PT_MEMO[key]
    out = set()
    g = prog.lib_functions().get(gname)
    if g is not None and prog.body(g) is not None:
        ce = ConstEval(prog)
        ps = prog.params(g)
        rets = [m for m in walk(prog.body(g)) if m.get("kind") == "ReturnStmt" and kids(m)]
        for i, p in enumerate(ps):
            if qtype(p).replace("const ", "") != "int":
                continue
            assigned = any(m.get("kind") in ("BinaryOperator", "CompoundAssignOperator", "UnaryOperator") and
                           m.get("opcode", "") in ("=", "+=", "-=", "|=", "&=", "^=", "++", "--", "&") and
                           strip(kids(m)[0], casts=True).get("kind") == "DeclRefExpr" and
                           (strip(kids(m)[0], casts=True).get("referencedDecl") or {}).get("id") == p["id"]
                           for m in walk(prog.body(g)))
            if assigned:
                continue
            same = [r for r in rets if strip(kids(r)[0], casts=True).get("kind") == "DeclRefExpr" and
                    (strip(kids(r)[0], casts=True).get("referencedDecl") or {}).get("id") == p["id"]]
            others = [r for r in rets if r not in same]
            if same and all((ce.try_eval(strip(kids(r)[0], casts=True)) or 0) != 0 for r in others):
                out.add(i)
    _PT_MEMO[key] = out
    return out


def analyse_function(prog, fname, kinds, report, noreturn=()):
    f = prog.fn(fname)
    dom = ErrDomain(prog, fname, f, kinds, report)
    if noreturn:
        dom.noreturn = frozenset(dom.noreturn | set(noreturn))
    fl = Flow(PartDomain(dom))
    end = fl.function(prog, f, {None: {}})
    if end is not None:
        for s in end.values():
            dom.rets.append((f, s))
    return dom


def out_param_state(prog, dom, s):
    """for a function that reports failure through `*p = MAP_FAILED`: the tracked state of *p in s (FAILED / ok / mixed / None)"""
    mk = dom.kinds.get(dom.fname, "")
    if not (isinstance(mk, str) and mk.startswith("outmf:")):
        return "n/a"
    p = prog.params(prog.fn(dom.fname))[int(mk.split(":")[1])]
    return s.get("d:" + p["id"])


def return_is_failure(prog, dom, n):
    """is the value returned by ReturnStmt n a failure value for its function?"""
    ks = kids(n)
    if n.get("kind") != "ReturnStmt" or not ks:
        return None
    e = ks[0]
    mk = dom.kinds.get(dom.fname, "") if hasattr(dom, "kinds") else ""
    if isinstance(mk, str) and mk.startswith("outmf:"):
        return None         # decided by the state of the out-parameter at this return (see out_param_failed)
    if is_map_failed(prog, e):
        return True
    v = ConstEval(prog).try_eval(strip(e, casts=True))
    if v is None:
        return None
    if dom.ret_is_ptr:
        return v == 0
    return v != 0


# --------------------------------------------------------------------------
# C10: propagation of internal failures (PROP) and register-error tests (REGERR)
# --------------------------------------------------------------------------

AUDITED_IGNORED = {
    "check_buffer_len": "advisory minimum-length message; the room check before every instruction enforces the same bound",
}


FAIL_MACROS = {"FAIL_IF": "EXIT_FAILURE", "FAIL_IF_MSG": "EXIT_FAILURE", "FAIL_IF_VAR": "EXIT_FAILURE", "FAIL_IF_ERR": "ASM_ERROR"}
FAILURE_NAMES = {"EXIT_FAILURE": "status", "ASM_ERROR": "sentinel", "INSTR_ERROR": "sentinel", "opd_error": "sentinel"}


def failure_name_of_return(prog, m):
    """the failure constant a return statement names (EXIT_FAILURE, ASM_ERROR, ...), looking at how it is
    spelled: inside one of the FAIL_* macros, or written directly"""
    mac = prog.macro_of(m)
    if mac in FAIL_MACROS:
        return FAIL_MACROS[mac]
    if mac == "FAIL_SYS":
        txt = prog.text(m)          # the whole macro invocation: the last argument is the value
        mm = re.search(r",\s*([A-Za-z_]\w*)\s*\)\s*;?\s*$", txt)
        return mm.group(1) if mm else None
    if mac is None and kids(m):
        txt = prog.text(kids(m)[0]).strip().strip("()")
        if re.match(r"^[A-Za-z_]\w*$", txt):
            return txt
    return None


def internal_status_kinds(prog):
    """failure convention of library functions, derived from how their failing returns are spelled:
    'status' (EXIT_FAILURE) or 'sentinel:<c>' (ASM_ERROR / INSTR_ERROR / opd_error mark failure, other
    values are quantities).  NA / NONE / true are not failures."""
    out = {}
    ce = ConstEval(prog)
    for name, f in prog.lib_functions().items():
        rt = qtype(f).split("(")[0].strip()
        td = prog.typedefs.get(rt)
        if td is not None:
            rt = qtype(td)
        if rt.endswith("*") or rt == "void":
            continue
        names = {}
        for m in walk(prog.body(f)):
            if m.get("kind") == "ReturnStmt" and kids(m):
                fnm = failure_name_of_return(prog, m)
                if fnm in FAILURE_NAMES:
                    names[fnm] = ce.try_eval(strip(kids(m)[0], casts=True))
        if not names:
            continue
        sent = [(n, v) for n, v in names.items() if FAILURE_NAMES[n] == "sentinel" and v is not None]
        if sent:
            out[name] = "sentinel:%d" % sent[0][1]
        else:
            out[name] = "status"
    # functions that only pass a callee's status on (`return callee(...)`)
    changed = True
    while changed:
        changed = False
        for name, f in prog.lib_functions().items():
            if name in out:
                continue
            rt = qtype(f).split("(")[0].strip()
            if rt.endswith("*") or rt == "void":
                continue
            for m in walk(prog.body(f)):
                if m.get("kind") == "ReturnStmt" and kids(m):
                    e = strip(kids(m)[0], casts=True)
                    if e.get("kind") == "CallExpr" and callee_name(e) in out:
                        out[name] = out[callee_name(e)]
                        changed = True
                        break
    return out


def _sentinel_failed_when(prog, kind, op, other, truth):
    c = int(kind.split(":")[1])
    v = ConstEval(prog).try_eval(strip(other, casts=True)) if other is not None else None
    if op == "==" and v == c:
        return truth
    if op == "!=" and v == c:
        return not truth
    if op == "<" and v == 0:
        return truth
    if op == ">=" and v == 0:
        return not truth
    return None


_orig_failed_when = ErrDomain._failed_when


def _failed_when_ext(self, u, op, other, truth, swapped):
    if u.kind.startswith("sentinel:"):
        if swapped and op in ("<", ">", "<=", ">="):
            op = {"<": ">", ">": "<", "<=": ">=", ">=": "<="}[op]
        return _sentinel_failed_when(self.prog, u.kind, op, other, truth)
    return _orig_failed_when(self, u, op, other, truth, swapped)


ErrDomain._failed_when = _failed_when_ext


def c10_rules(chk, prog, tab=None):
    prop_rules(chk, prog)
    regerr_rule(chk, prog)


def prop_rules(chk, prog):
    """PROP: the status of every internal status-returning function is tested, and a path on which a callee failed ends in failure"""
    kinds = internal_status_kinds(prog)
    chk.analysed["status_functions"] = kinds
    chk.floor("internal status-returning functions", len(kinds), 15)
    lib = prog.lib_functions()
    nsite = 0
    for fn in sorted(lib):
        f = lib[fn]
        if not any(c.get("kind") == "CallExpr" and callee_name(c) in kinds for c in walk(prog.body(f))):
            continue
        reports = []
        dom = analyse_function(prog, fn, kinds, lambda k, n, t, r=reports: r.append((k, n, t)))
        sites = {id(s): s for s in dom.sites}
        nsite += len(sites)
        seen = set()
        flagged_sites = set()
        for k, node, text in reports:
            if k != "CHK":
                continue
            callee = None
            for cn in kinds:
                if "%s()" % cn in text:
                    callee = cn
            key = "PROP/%s/%s" % (fn, callee or expr_str(node)[:30])
            if key in seen:
                continue
            seen.add(key)
            if "discarded" in text and callee in AUDITED_IGNORED:
                chk.ok("PROP", key + "/audited", loc_str(node), "audited: %s" % AUDITED_IGNORED[callee])
                continue
            chk.bad("PROP", key, loc_str(node), "the result of every internal status-returning function is tested before the line is accepted", text)
        for s_ in sites.values():
            chk.ok("PROP", "PROP/site/%s/%s@%s" % (fn, callee_name(s_), loc_str(s_)), loc_str(s_), "call site analysed") \
                if not any(callee_name(s_) in t for k, _, t in reports if k == "CHK") else None
        # a path on which a callee failed must itself end in failure
        mykind = kinds.get(fn)
        for n, s in dom.rets:
            # nothing unchecked may reach a return that does not itself report failure
            rv = ConstEval(prog).try_eval(strip(kids(n)[0], casts=True)) if n.get("kind") == "ReturnStmt" and kids(n) else None
            rkey = dom.key_of(kids(n)[0]) if n.get("kind") == "ReturnStmt" and kids(n) else None
            for k_, v_ in s.items():
                if isinstance(v_, U) and k_ != rkey and v_.callee not in AUDITED_IGNORED:
                    reports_failure = rv is not None and ((mykind or "").startswith("sentinel:") and rv < 0 or not (mykind or "").startswith("sentinel:") and rv != 0)
                    if not reports_failure:
                        chk.bad("PROP", "PROP/unchecked/%s/%s" % (fn, v_.callee), loc_str(n),
                                "no result of %s() reaches a non-failing return of %s untested" % (v_.callee, fn),
                                "%s() at %s is never compared with its failure value on this path" % (v_.callee, loc_str(v_.node)))
            failed = s.get("__failed")
            if not failed or n.get("kind") != "ReturnStmt" or not kids(n):
                continue
            e = kids(n)[0]
            v = ConstEval(prog).try_eval(strip(e, casts=True))
            rk = dom.key_of(e)
            if mykind and mykind.startswith("sentinel:"):
                ok = v is not None and v < 0
            elif fn in ("asm_create_instance",):
                ok = v == 0
            else:
                ok = (v is not None and v != 0) or (v is None and rk is not None and s.get(rk) in (FAILED, "mixed"))
            chk.require(ok, "PROP", "PROP/return/%s@%s" % (fn, loc_str(n)), loc_str(n),
                        "when %s() (%s) reports failure, %s returns a failure value too" % (failed[0], failed[1], fn),
                        "returns %s" % expr_str(e))
    chk.floor("status call sites", nsite, 35)
    # a failure constant must not be returned through a result consumed as a quantity
    ce = ConstEval(prog)
    for fn, kd in sorted(kinds.items()):
        if not kd.startswith("sentinel:"):
            continue
        f = lib[fn]
        for m in walk(prog.body(f)):
            if m.get("kind") == "ReturnStmt" and kids(m):
                v = ce.try_eval(strip(kids(m)[0], casts=True))
                fnm = failure_name_of_return(prog, m)
                if fnm == "EXIT_FAILURE":
                    chk.bad("PROP", "PROP/quantity/%s" % fn, loc_str(m), "%s reports failure through its sentinel, never through a positive status its caller would read as a count" % fn,
                            "returns EXIT_FAILURE (%s) where callers expect a count or the sentinel" % v)


def regerr_rule(chk, prog):
    from .core import walk_with_parents
    ce = ConstEval(prog)
    if "reg_error" not in prog.enums:
        raise AnalysisBroken("enumerator reg_error not found")
    lib = prog.lib_functions()
    # (a) where register strings are converted
    stores = {}     # field -> max constant loop bound
    for fn, f in lib.items():
        for m, parents in walk_with_parents(prog.body(f)):
            if m.get("kind") == "BinaryOperator" and m.get("opcode") == "=":
                l, r = strip(kids(m)[0]), strip(kids(m)[1], casts=True)
                if l.get("kind") == "MemberExpr" and l.get("name") in ("reg", "index") and r.get("kind") == "CallExpr" and callee_name(r) == "str_to_reg":
                    b = _loop_bound(prog, parents)
                    stores[l["name"]] = max(stores.get(l["name"], 0), b or 0)
    # (b) where they are validated
    tests = {}
    ntest = 0
    for fn, f in lib.items():
        for m, parents in walk_with_parents(prog.body(f)):
            if m.get("kind") == "BinaryOperator" and m.get("opcode") in ("==", "!="):
                sides = [strip(x, casts=True) for x in kids(m)]
                for a, b in (sides, sides[::-1]):
                    if ref_name(b) == "reg_error":
                        ntest += 1
                        mask = a.get("kind") == "BinaryOperator" and a.get("opcode") == "&" and any(ref_name(strip(x, casts=True)) == "reg_error" for x in kids(a))
                        subject = None
                        for x in walk(a):
                            if x.get("kind") == "MemberExpr" and x.get("name") in ("reg", "index"):
                                subject = x["name"]
                        if subject:
                            chk.require(mask, "REGERR", "REGERR/mask/%s/%s" % (fn, subject), loc_str(m),
                                        "the register error flag is tested with a mask (str_to_reg ORs the width class into the value it returns)",
                                        expr_str(m))
                            if mask:
                                tests[subject] = max(tests.get(subject, 0), _loop_bound(prog, parents) or 0)
    chk.floor("reg_error tests", ntest, 2)
    for fld, bound in sorted(stores.items()):
        chk.require(tests.get(fld, 0) >= bound and bound > 0, "REGERR", "REGERR/covered/%s" % fld, "src/parser.c",
                    "every operand slot whose .%s is converted from text (%d slots) is validated against reg_error" % (fld, bound),
                    "validated slots: %d" % tests.get(fld, 0))
    # premise: str_to_reg can return reg_error combined with class bits
    f = lib.get("str_to_reg")
    if f is not None:
        combined = any(m.get("kind") == "ReturnStmt" and kids(m) and strip(kids(m)[0], casts=True).get("kind") == "BinaryOperator" and
                       strip(kids(m)[0], casts=True).get("opcode") == "|" for m in walk(prog.body(f)))
        chk.analysed["str_to_reg_returns_class_or_lookup"] = combined
    # every caller of the validator fails when it reports an error: covered by PROP


def _loop_bound(prog, parents):
    """constant upper bound N of an enclosing `for (i = 0; i < N; i++)`"""
    for p in reversed(parents):
        if p.get("kind") == "ForStmt":
            raw = p.get("inner", [])
            c = raw[2] if len(raw) > 2 else None
            if c:
                c = strip(c)
                if c.get("kind") == "BinaryOperator" and c.get("opcode") in ("<", "<="):
                    v = ConstEval(prog).try_eval(kids(c)[1])
                    if v is not None:
                        return v + (1 if c["opcode"] == "<=" else 0)
    return None


# --------------------------------------------------------------------------
# PAIR: every acquired OS resource is released on every path (or handed to the caller)
# --------------------------------------------------------------------------

ACQUIRE = {"open": ("close", "neg"), "fopen": ("fclose", "null"), "fdopen": ("fclose", "null"),
           "mmap": ("munmap", "mapfailed"), "malloc": ("free", "null"), "calloc": ("free", "null"),
           "strdup": ("free", "null"), "strndup": ("free", "null")}


class ResDomain:
    """state: {key: (acquire callee, call node, 'maybe'|'open')}"""

    def __init__(self, prog, fname, f, acquire):
        self.prog, self.fname, self.f = prog, fname, f
        self.acq = acquire
        self.rets = []
        self.inner = ErrDomain(prog, fname, f, {}, lambda *a: None)

    def copy(self, s): return dict(s)

    def join(self, a, b):
        out = dict(a)
        for k, v in b.items():
            if k not in out or out[k][2] == "maybe":
                out[k] = v
        return out

    def equal(self, a, b): return a == b
    def widen(self, o, n): return n

    def key_of(self, e):
        return self.inner.key_of(e)

    def _acq(self, e):
        e = strip(e, casts=True)
        if e.get("kind") == "CallExpr" and callee_name(e) in self.acq:
            return callee_name(e), e
        return None

    def decl(self, vd, s):
        init = kids(vd)
        if init:
            s = self.eval(init[-1], s)
            a = self._acq(init[-1])
            if a:
                s["v:" + vd["id"]] = (a[0], a[1], "maybe")
                self._carry(s, "v:" + vd["id"], a)
        return s

    def _carry(self, s, key, a):
        """fdopen(fd, ...) takes the descriptor over if it succeeds; if it fails the descriptor is still the caller's"""
        s.pop("carry:" + key, None)
        if a[0] == "fdopen" and call_args(a[1]):
            fk = self.key_of(call_args(a[1])[0])
            if fk and fk in s:
                s["carry:" + key] = (fk, s.pop(fk))

    def eval_cond(self, e, s): return self.eval(e, s)
    def eval_ret(self, e, s): return self.eval(e, s)

    def eval(self, e, s):
        e0 = strip(e)
        if not e0 or s is None:
            return s
        k, ks = e0.get("kind"), kids(e0)
        if k == "BinaryOperator" and e0.get("opcode") == "=":
            s = self.eval(ks[1], s)
            lk = self.key_of(ks[0])
            a = self._acq(ks[1])
            if lk:
                if a:
                    s[lk] = (a[0], a[1], "maybe")
                    self._carry(s, lk, a)
                else:
                    rk = self.key_of(ks[1])
                    if rk and rk in s and rk != lk:
                        s[lk] = s.pop(rk)       # ownership moves with the value
                    elif is_map_failed(self.prog, ks[1]) or is_null(self.prog, ks[1]):
                        pass                    # sentinel stored after the resource was released
            return s
        if k == "CallExpr":
            cn = callee_name(e0)
            for a in call_args(e0):
                s = self.eval(a, s)
            rel = {v[0] for v in self.acq.values()} if False else None
            for a in call_args(e0):
                key = self.key_of(a)
                if key and key in s and self.acq.get(s[key][0], (None,))[0] == cn:
                    del s[key]
                elif key and key in s and cn in self.prog.functions:
                    pass
            if cn in ("exit", "_exit", "abort"):
                return None
            return s
        for c in ks:
            s = self.eval(c, s)
            if s is None:
                return None
        return s

    def assume(self, e, truth, s):
        a, op, b = self.inner._atom_parts(e)
        for x, other, swapped in ((a, b, False),) + (((b, a, True),) if b is not None else ()):
            key = self.key_of(x)
            if key and key in s and not key.startswith("carry:"):
                cal, node, st = s[key]
                u = U(self.acq[cal][1], cal, node)
                failed = self.inner._failed_when(u, op, other, truth, swapped)
                if failed is True:
                    del s[key]
                    c = s.pop("carry:" + key, None)
                    if c:
                        s[c[0]] = c[1]          # the stream was not created: the descriptor is ours again
                elif failed is False:
                    s[key] = (cal, node, "open")
                    s.pop("carry:" + key, None)
                return s
        return s

    def ret(self, n, s):
        self.rets.append((n, dict(s)))


def pair_rule(chk, prog, fnames, rule="PAIR", units_prefix="src/"):
    """every resource acquired in the function is released on every path to a return, unless the
    function returns it or stores it into the instance"""
    n = 0
    for fn in fnames:
        f = prog.fn(fn)
        acq_here = sorted({callee_name(c) for c in walk(prog.body(f)) if c.get("kind") == "CallExpr" and callee_name(c) in ACQUIRE})
        if not acq_here:
            continue
        dom = ResDomain(prog, fn, f, ACQUIRE)
        end = Flow(dom).function(prog, f, {})
        # resources stored into an object that outlives the call are not leaks
        escapes = set()
        for m in walk(prog.body(f)):
            if m.get("kind") == "BinaryOperator" and m.get("opcode") == "=":
                l = strip(kids(m)[0])
                handed = l.get("kind") == "MemberExpr"
                if l.get("kind") == "UnaryOperator" and l.get("opcode") == "*":
                    b = strip(kids(l)[0], casts=True)
                    handed = b.get("kind") == "DeclRefExpr" and b.get("referencedDecl", {}).get("kind") == "ParmVarDecl"
                if handed:          # stored into the instance, or handed to the caller through an out-parameter
                    rk = dom.key_of(kids(m)[1])
                    if rk:
                        escapes.add(rk)
        leaks = {}
        for r, s in dom.rets:
            rk = dom.key_of(kids(r)[0]) if kids(r) else None
            for k, ent in s.items():
                if k.startswith("carry:"):
                    continue
                cal, node, st = ent
                if k == rk or k in escapes or k.startswith("m:") or k.startswith("d:"):
                    continue        # returned, stored into the instance, or handed to the caller through an out-parameter
                if st in ("open",) or (st == "maybe" and False):
                    leaks.setdefault((cal, loc_str(node)), []).append(loc_str(r))
        for cal in acq_here:
            sites = [c for c in walk(prog.body(f)) if c.get("kind") == "CallExpr" and callee_name(c) == cal]
            for c in sites:
                n += 1
                lk = leaks.get((cal, loc_str(c)))
                chk.require(not lk, rule, "%s/%s/%s@%s" % (rule, fn, cal, loc_str(c)), loc_str(c),
                            "what %s() acquired in %s is released by %s() on every path to a return (or handed on)" % (cal, fn, ACQUIRE[cal][0]),
                            "still held at the return(s) at %s" % ", ".join(sorted(set(lk or []))))
    return n
