"""Substrate: compile database from Makefile.am, clang JSON AST loader with
location replay, node helpers, expression printer, constant evaluator.

Nothing in here executes repository code.  The only external program that is
run is the compiler front end (`clang -fsyntax-only -Xclang -ast-dump=json`).
"""
import hashlib
import json
import os
import re
import subprocess
import sys
import tempfile
import shutil
from concurrent.futures import ThreadPoolExecutor

REPO = os.environ.get("VERIF_REPO", "/repo")
VERIF = os.path.dirname(os.path.dirname(os.path.abspath(__file__)))
CLANG = os.environ.get("VERIF_CLANG", "clang")
LOADER_VERSION = "8"


class AnalysisBroken(Exception):
    """The checker can no longer see the construct a rule is anchored in
    (exit status 2: neither a pass nor a violation)."""


# --------------------------------------------------------------------------
# compile database
# --------------------------------------------------------------------------

def _read(path):
    with open(path, "r", errors="replace") as f:
        return f.read()


def _am_var(text, name):
    """Value of an automake variable (with line continuations)."""
    m = re.search(r"^%s\s*\+?=\s*((?:.*\\\n)*.*)$" % re.escape(name), text, re.M)
    if not m:
        return None
    return m.group(1).replace("\\\n", " ").split()


def compile_db(repo=None, extra_defs=()):
    """[(unit_relpath, [flags])] for the library sources and tools/asmline.c,
    derived from Makefile.am on every run."""
    repo = repo or REPO
    am = os.path.join(repo, "Makefile.am")
    if not os.path.exists(am):
        raise AnalysisBroken("Makefile.am not found in %s" % repo)
    text = _read(am)
    srcs = _am_var(text, "libassemblyline_la_SOURCES")
    if not srcs:
        raise AnalysisBroken("libassemblyline_la_SOURCES not found in Makefile.am")
    lib_units = [s for s in srcs if s.endswith(".c")]
    tool_units = []
    for prog in (_am_var(text, "bin_PROGRAMS") or []):
        var = re.sub(r"[^A-Za-z0-9_]", "_", prog) + "_SOURCES"
        listed = _am_var(text, var)
        # automake default: <program>.c
        tool_units += [s for s in listed if s.endswith(".c")] if listed else [prog + ".c"]
    cflags = [f for f in (_am_var(text, "AM_CFLAGS") or []) if f.startswith("-std")]
    if not cflags:
        cflags = ["-std=gnu99"]
    cpp = [f for f in (_am_var(text, "AM_CPPFLAGS") or []) if f.startswith(("-I", "-D"))]
    flags = cflags + cpp + ["-I."]
    if os.path.exists(os.path.join(repo, "config.h")):
        flags.append("-DHAVE_CONFIG_H")
    flags += list(extra_defs)
    # coverage guard: every .c under src/ must be a listed library source
    on_disk = sorted("src/" + f for f in os.listdir(os.path.join(repo, "src")) if f.endswith(".c"))
    missing = [u for u in on_disk if u not in lib_units]
    if missing:
        raise AnalysisBroken("source files not in libassemblyline_la_SOURCES (not analysed): %s" % missing)
    for u in lib_units + tool_units:
        if not os.path.exists(os.path.join(repo, u)):
            raise AnalysisBroken("listed source %s does not exist" % u)
    return [(u, flags) for u in lib_units], [(u, flags) for u in tool_units]


# --------------------------------------------------------------------------
# AST loading
# --------------------------------------------------------------------------

def _norm(path):
    return os.path.normpath(path)


def _is_repo_file(f):
    return f is not None and not f.startswith("/") and not f.startswith("..")


class _Replay:
    """clang omits `file`/`line` in a source location when equal to the
    previously printed one; replay them in document order."""

    def __init__(self):
        self.file = None
        self.line = None

    def bare(self, d):
        if "file" in d:
            self.file = _norm(d["file"])
        if "line" in d:
            self.line = d["line"]
        d["file"] = self.file
        d["line"] = self.line

    def loc(self, d):
        if not isinstance(d, dict):
            return
        if "spellingLoc" in d or "expansionLoc" in d:
            if "spellingLoc" in d:
                self.bare(d["spellingLoc"])
            if "expansionLoc" in d:
                self.bare(d["expansionLoc"])
        elif "offset" in d:
            self.bare(d)

    def node(self, n):
        # document order inside a node: loc, range.begin, range.end, then inner
        if "loc" in n:
            self.loc(n["loc"])
        r = n.get("range")
        if r:
            self.loc(r.get("begin"))
            self.loc(r.get("end"))
        for k in n.get("inner", ()):
            if k:
                self.node(k)
        # array_filler lists hold nodes as well
        for k in n.get("array_filler", ()):
            if isinstance(k, dict) and k:
                self.node(k)


def _exp(locd):
    """expansion (or plain) bare location of a loc dict"""
    if not locd:
        return None
    if "expansionLoc" in locd:
        return locd["expansionLoc"]
    if "offset" in locd:
        return locd
    return None


def _spell(locd):
    if not locd:
        return None
    if "spellingLoc" in locd:
        return locd["spellingLoc"]
    if "offset" in locd:
        return locd
    return None


def _top_file(n):
    for key in ("loc",):
        e = _exp(n.get(key))
        if e and e.get("file"):
            return e["file"]
    r = n.get("range") or {}
    e = _exp(r.get("begin"))
    return e.get("file") if e else None


def _dump_unit(repo, unit, flags, outdir):
    out = os.path.join(outdir, unit.replace("/", "_") + ".json")
    cmd = [CLANG, "-fsyntax-only", "-Xclang", "-ast-dump=json", "-Wno-everything"] + flags + [unit]
    with open(out, "wb") as f:
        p = subprocess.run(cmd, cwd=repo, stdout=f, stderr=subprocess.PIPE)
    if p.returncode != 0:
        raise AnalysisBroken("clang failed on %s: %s" % (unit, p.stderr.decode()[:2000]))
    with open(out, "rb") as f:
        tu = json.load(f)
    os.unlink(out)
    rp = _Replay()
    rp.node(tu)
    _tag_ids(tu, unit.replace("/", "_") + ":")
    keep = [n for n in tu.get("inner", []) if _is_repo_file(_top_file(n))]
    return keep


_HEX = re.compile(r"^0x[0-9a-f]+$")


def _tag_ids(n, tag):
    """node ids are heap addresses of separate clang processes: make them
    unique across units"""
    st = [n]
    while st:
        x = st.pop()
        if isinstance(x, dict):
            for k, v in x.items():
                if isinstance(v, str):
                    if _HEX.match(v) and k != "value":
                        x[k] = tag + v
                elif isinstance(v, (dict, list)):
                    st.append(v)
        elif isinstance(x, list):
            st.extend(v for v in x if isinstance(v, (dict, list)))


def _tree_hash(repo, units, flags):
    h = hashlib.sha256()
    h.update(LOADER_VERSION.encode())
    h.update(" ".join(flags).encode())
    try:
        h.update(subprocess.run([CLANG, "--version"], stdout=subprocess.PIPE).stdout)
    except OSError:
        raise AnalysisBroken("clang not found")
    files = []
    for d in ("src", "tools"):
        p = os.path.join(repo, d)
        if os.path.isdir(p):
            for f in sorted(os.listdir(p)):
                if f.endswith((".c", ".h")):
                    files.append(os.path.join(d, f))
    if os.path.exists(os.path.join(repo, "config.h")):
        files.append("config.h")
    for f in files:
        h.update(f.encode())
        with open(os.path.join(repo, f), "rb") as fh:
            h.update(fh.read())
    h.update(" ".join(units).encode())
    return h.hexdigest()[:24]


class Program:
    """All parsed units of the repository (declarations located in repo files
    only), with helpers for lookup."""

    def __init__(self, repo, units):
        self.repo = repo
        self.units = units            # {unit: [top-level nodes]}
        self._src = {}
        self.functions = {}           # name -> FunctionDecl with body
        self.func_unit = {}
        self.records = {}             # struct/union name -> RecordDecl (complete)
        self.enums = {}               # enumerator name -> value (library units)
        self.tool_enums = {}          # enumerators of tools/*.c
        self.enum_decls = []          # (EnumDecl node, typedef name)
        self.enum_of = {}             # enumerator name -> typedef/enum name
        self.globals = {}             # name -> VarDecl (file scope, prefer one with init)
        self.typedefs = {}
        self.by_id = {}
        self._index()

    # ---- source text -----------------------------------------------------
    def source(self, f):
        if f not in self._src:
            with open(os.path.join(self.repo, f), "rb") as fh:
                self._src[f] = fh.read()
        return self._src[f]

    def text(self, n):
        """source text of the node (expansion range)"""
        r = n.get("range") or {}
        b, e = _exp(r.get("begin")), _exp(r.get("end"))
        if not b or not e or b.get("file") != e.get("file") or not b.get("file"):
            return ""
        s = self.source(b["file"])
        return s[b["offset"]: e["offset"] + e.get("tokLen", 1)].decode(errors="replace")

    def spelling_text(self, n):
        r = n.get("range") or {}
        b, e = _spell(r.get("begin")), _spell(r.get("end"))
        if not b or not e or b.get("file") != e.get("file") or not b.get("file"):
            return ""
        if not _is_repo_file(b["file"]):
            return ""
        s = self.source(b["file"])
        return s[b["offset"]: e["offset"] + e.get("tokLen", 1)].decode(errors="replace")

    def macro_of(self, n):
        """Name of the object- or function-like macro whose body the node was
        spelled in (None when the node is written directly or is a macro
        argument)."""
        r = n.get("range") or {}
        bl = r.get("begin") or {}
        if "spellingLoc" not in bl:
            return None
        if bl.get("expansionLoc", {}).get("isMacroArgExpansion"):
            return None
        sp = bl["spellingLoc"]
        f = sp.get("file")
        if not _is_repo_file(f):
            return None
        lines = self.source(f).decode(errors="replace").split("\n")
        i = sp["line"] - 1
        while i >= 0:
            m = re.match(r"\s*#\s*define\s+([A-Za-z_]\w*)", lines[i])
            if m:
                return m.group(1)
            if i > 0 and lines[i - 1].rstrip().endswith("\\"):
                i -= 1
                continue
            return None
        return None

    # ---- indexing --------------------------------------------------------
    def _index(self):
        for unit, tops in self.units.items():
            pending_enum = None
            for n in tops:
                k = n.get("kind")
                if k == "FunctionDecl":
                    if any(c.get("kind") == "CompoundStmt" for c in n.get("inner", []) if c):
                        self.functions[n["name"]] = n
                        self.func_unit[n["name"]] = unit
                elif k == "RecordDecl":
                    if n.get("completeDefinition") and n.get("name"):
                        self.records[n["name"]] = n
                elif k == "EnumDecl":
                    self._index_enum(n, unit.startswith("src/"))
                    pending_enum = n
                elif k == "TypedefDecl":
                    self.typedefs[n["name"]] = n
                    if pending_enum is not None:
                        # typedef enum {...} name;
                        for c in walk(n):
                            if c.get("kind") == "EnumType" and c.get("decl", {}).get("id") == pending_enum["id"]:
                                pending_enum["_typedef"] = n["name"]
                                for ec in pending_enum.get("inner", []):
                                    if ec.get("kind") == "EnumConstantDecl":
                                        self.enum_of[ec["name"]] = n["name"]
                elif k == "VarDecl":
                    old = self.globals.get(n["name"])
                    if old is None or ("init" in n and "init" not in old):
                        self.globals[n["name"]] = n
                        n["_unit"] = unit
        for unit, tops in self.units.items():
            for n in tops:
                for m in walk(n):
                    if "id" in m:
                        self.by_id.setdefault(m["id"], m)

    def _index_enum(self, n, lib=True):
        if n.get("_indexed"):
            return
        n["_indexed"] = True
        self.enum_decls.append(n)
        nxt = 0
        for ec in n.get("inner", []):
            if ec.get("kind") != "EnumConstantDecl":
                continue
            val = None
            for c in ec.get("inner", []):
                if c.get("kind") == "ConstantExpr" and "value" in c:
                    val = int(c["value"])
                elif c:
                    try:
                        val = ConstEval(self).eval(c)
                    except NotConstant:
                        val = None
            if val is None:
                val = nxt
            nxt = val + 1
            ec["_value"] = val
            tgt = self.enums if lib else self.tool_enums
            old = tgt.get(ec["name"])
            if old is not None and old != val:
                raise AnalysisBroken("enumerator %s has two values across units" % ec["name"])
            tgt[ec["name"]] = val
            if n.get("name"):
                self.enum_of[ec["name"]] = n["name"]

    def enum_members(self, typedef_or_name):
        """ordered [(name, value)] of an enum found by typedef or tag name or
        by one of its enumerators"""
        for e in self.enum_decls:
            names = [c["name"] for c in e.get("inner", []) if c.get("kind") == "EnumConstantDecl"]
            if e.get("_typedef") == typedef_or_name or e.get("name") == typedef_or_name:
                return [(c["name"], c["_value"]) for c in e.get("inner", []) if c.get("kind") == "EnumConstantDecl" and "_value" in c]
        return None

    def fn(self, name):
        f = self.functions.get(name)
        if f is None:
            raise AnalysisBroken("function %s not found (anchor vanished)" % name)
        return f

    def body(self, f):
        for c in f.get("inner", []):
            if c and c.get("kind") == "CompoundStmt":
                return c
        return None

    def params(self, f):
        return [c for c in f.get("inner", []) if c and c.get("kind") == "ParmVarDecl"]

    def lib_functions(self):
        return {n: f for n, f in self.functions.items() if self.func_unit[n].startswith("src/")}

    def loc(self, n):
        return loc_str(n)


def load_program(repo=None, extra_defs=(), want_tool=True, cache=True):
    repo = repo or REPO
    if os.environ.get("VERIF_SCRATCH_OUT"):
        cache = False        # scratch copies (self-test, seeds) are parsed once
    lib, tool = compile_db(repo, extra_defs)
    todo = lib + (tool if want_tool else [])
    flags = todo[0][1]
    key = _tree_hash(repo, [u for u, _ in todo], flags)
    cdir = os.path.join(VERIF, ".cache")
    cfile = os.path.join(cdir, key + ".json")
    units = None
    if cache and os.path.exists(cfile):
        try:
            with open(cfile) as f:
                units = json.load(f)
        except (OSError, ValueError):
            units = None
    if units is None:
        tmp = tempfile.mkdtemp(prefix="verif-ast-")
        try:
            with ThreadPoolExecutor(max_workers=min(16, len(todo))) as ex:
                res = list(ex.map(lambda uf: _dump_unit(repo, uf[0], uf[1], tmp), todo))
        finally:
            shutil.rmtree(tmp, ignore_errors=True)
        units = {u: r for (u, _), r in zip(todo, res)}
        if cache:
            try:
                os.makedirs(cdir, exist_ok=True)
                # keep the cache small
                old = sorted((os.path.getmtime(os.path.join(cdir, f)), f) for f in os.listdir(cdir))
                for _, f in old[:-3]:
                    os.unlink(os.path.join(cdir, f))
                t = cfile + ".%d.tmp" % os.getpid()
                with open(t, "w") as f:
                    json.dump(units, f)
                os.replace(t, cfile)
            except OSError:
                pass
    from . import schema as _schema
    renames = _schema.normalise(units)
    prog = Program(repo, units)
    prog.renames = renames      # consistent renamings of fields / enumerators / internal functions mapped back to the schema names
    prog.lib_units = [u for u, _ in lib]
    prog.tool_units = [u for u, _ in tool] if want_tool else []
    prog.flags = flags
    prog.tree_hash = key
    prog.inlined_dispatchers = inline_single_use_dispatchers(prog)
    prog.inlined_calls = inline_expression_functions(prog)
    prog.normalised_increments = normalise_flag_increments(prog)
    return prog


PURE_LIBC = ("strlen", "strcmp", "strncmp", "strcasecmp", "strncasecmp", "memcmp", "tolower", "toupper", "isalpha", "isdigit",
             "isalnum", "isspace", "isxdigit", "abs")


def _return_chain(f, st):
    """the single expression a body of the shape `if (c1) return e1; if (c2) return e2; ... return en;` computes:
    c1 ? e1 : (c2 ? e2 : ... en); None when the body has another shape"""
    if not st or st[-1].get("kind") != "ReturnStmt" or not kids(st[-1]):
        return None
    rt = qtype(f).split("(")[0].strip()
    e = kids(st[-1])[0]
    for s_ in reversed(st[:-1]):
        if s_.get("kind") != "IfStmt":
            return None
        ks = kids(s_)
        if len(ks) != 2:
            return None
        then = ks[1]
        if then.get("kind") == "CompoundStmt" and len(kids(then)) == 1:
            then = kids(then)[0]
        if then.get("kind") != "ReturnStmt" or not kids(then):
            return None
        e = {"kind": "ConditionalOperator", "type": {"qualType": rt}, "valueCategory": "prvalue", "range": s_.get("range", {}),
             "id": s_.get("id", "") + "?", "inner": [ks[0], kids(then)[0], e]}
    return e


def normalise_flag_increments(prog):
    """`if (x->flag) v++;` (no else; the condition is a bare member of boolean type, the branch a single increment by one) is
    rewritten in the AST to `v += x->flag`, the form the pinned tree uses for selecting the neighbouring table row, so both
    spellings look alike to every rule.  Returns the number of rewritten statements."""
    n = 0

    def is_flag(c):
        """a member that can only be 0 or 1: of boolean type, or a bit-field of width one"""
        c0 = strip(c, casts=True)
        if c0.get("kind") != "MemberExpr":
            return False
        t = (c0.get("type") or {})
        if (t.get("desugaredQualType") or t.get("qualType")) in ("_Bool", "bool"):
            return True
        fd = prog.by_id.get(c0.get("referencedMemberDecl"))
        if fd is not None and fd.get("isBitfield"):
            for w in kids(fd):
                if w.get("kind") == "ConstantExpr" and str(w.get("value")) == "1":
                    return True
                if w.get("kind") == "IntegerLiteral" and str(w.get("value")) == "1":
                    return True
        return False

    def incr_target(b):
        if b.get("kind") == "CompoundStmt" and len(kids(b)) == 1:
            b = kids(b)[0]
        b0 = strip(b)
        if b0.get("kind") == "UnaryOperator" and b0.get("opcode") in ("++",):
            return kids(b0)[0], b0
        if b0.get("kind") == "CompoundAssignOperator" and b0.get("opcode") == "+=":
            r = strip(kids(b0)[1], casts=True)
            if r.get("kind") == "IntegerLiteral" and r.get("value") == "1":
                return kids(b0)[0], b0
        return None

    def rewrite(node):
        nonlocal n
        for c in node.get("inner", []) or []:
            if c:
                rewrite(c)
        if node.get("kind") == "IfStmt" and not node.get("hasElse"):
            ks = kids(node)
            if len(ks) == 2 and is_flag(ks[0]):
                t = incr_target(ks[1])
                if t is not None:
                    lhs, inc = t
                    keep = {k: node[k] for k in ("id", "range") if k in node}
                    new = {"kind": "CompoundAssignOperator", "opcode": "+=", "type": lhs.get("type", {}), "valueCategory": "prvalue",
                           "computeLHSType": lhs.get("type", {}), "computeResultType": lhs.get("type", {}),
                           "inner": [lhs, {"kind": "ImplicitCastExpr", "castKind": "IntegralCast", "type": lhs.get("type", {}),
                                           "valueCategory": "prvalue", "range": ks[0].get("range", {}), "inner": [ks[0]]}],
                           "_normalised_from": "if (flag) v++"}
                    node.clear()
                    node.update(keep)
                    node.update(new)
                    n += 1
    for name, f in prog.functions.items():
        b = prog.body(f)
        if b is not None:
            rewrite(b)
    return n


def inline_single_use_dispatchers(prog):
    """A `static` helper with exactly one call site whose body is a run of `const` locals with call-free initialisers followed by a
    return chain `if (c1) return e1; ... return en;` with call-free conditions - typically a dispatcher `emit(al, ...)` that selects
    one of several functions by a mode - is substituted into its call site as the conditional expression it computes (parameters
    and const locals replaced by the call-free arguments / initialisers), and dropped from the program.  The rules that look at
    the caller then see the calls the helper makes where the pinned tree has them.  Returns the names of the helpers inlined."""
    import copy

    def callfree(e):
        for m in walk(e):
            k = m.get("kind")
            if k in ("CallExpr", "CompoundAssignOperator", "StmtExpr") or (k == "BinaryOperator" and m.get("opcode") == "=") or \
                    (k == "UnaryOperator" and m.get("opcode") in ("++", "--")):
                return False
        return True
    sites = {}
    for name, f in prog.functions.items():
        b = prog.body(f)
        if b is None:
            continue
        for m in walk(b):
            if m.get("kind") == "CallExpr" and callee_name(m) in prog.functions:
                sites.setdefault(callee_name(m), []).append((name, m))
    done = []
    for name, f in list(prog.functions.items()):
        if f.get("storageClass") != "static" or len(sites.get(name, [])) != 1 or sites[name][0][0] == name:
            continue
        body = prog.body(f)
        st = kids(body) if body is not None else []
        lets = {}
        i = 0
        ok = True
        while i < len(st) and st[i].get("kind") == "DeclStmt":
            for vd in kids(st[i]):
                if vd.get("kind") != "VarDecl" or not kids(vd) or "const" not in qtype(vd) or not callfree(kids(vd)[-1]):
                    ok = False
                else:
                    lets[vd["id"]] = kids(vd)[-1]
            i += 1
        if not ok or i >= len(st):
            continue
        e = _return_chain(f, st[i:])
        if e is None or e.get("kind") != "ConditionalOperator":
            continue                    # plain `return <expr>;` bodies belong to inline_expression_functions
        conds_ok = True
        n_ = e
        while n_.get("kind") == "ConditionalOperator":
            if not callfree(kids(n_)[0]):
                conds_ok = False
            n_ = kids(n_)[2]
        if not conds_ok or not any(m.get("kind") == "CallExpr" for m in walk(e)):
            continue                    # call-free chains are handled by inline_expression_functions
        caller, call = sites[name][0]
        ps = prog.params(f)
        args = call_args(call)
        if len(args) != len(ps) or not all(callfree(a) for a in args):
            continue
        assigned = {(strip(kids(m)[0], casts=True).get("referencedDecl") or {}).get("id") for m in walk(body)
                    if m.get("kind") in ("BinaryOperator", "CompoundAssignOperator", "UnaryOperator") and
                    m.get("opcode", "") in ("=", "+=", "-=", "|=", "&=", "^=", "++", "--", "&") and kids(m)}
        if any(p["id"] in assigned for p in ps):
            continue
        binding = {p["id"]: a for p, a in zip(ps, args)}

        def subst(x):
            if isinstance(x, dict):
                if x.get("kind") == "DeclRefExpr":
                    rid = x.get("referencedDecl", {}).get("id")
                    if rid in binding:
                        return {"kind": "ParenExpr", "type": x.get("type", {}), "valueCategory": x.get("valueCategory", "prvalue"),
                                "range": x.get("range", {}), "inner": [copy.deepcopy(binding[rid])], "id": x.get("id", "") + "'"}
                    if rid in lets:
                        return {"kind": "ParenExpr", "type": x.get("type", {}), "valueCategory": "prvalue",
                                "range": x.get("range", {}), "inner": [subst(copy.deepcopy(lets[rid]))], "id": x.get("id", "") + "'"}
                return {k_: (subst(v_) if k_ == "inner" else v_) for k_, v_ in x.items()}
            if isinstance(x, list):
                return [subst(y) for y in x]
            return x
        new = subst(copy.deepcopy(e))
        keep = {k_: call[k_] for k_ in ("id", "range", "type", "valueCategory") if k_ in call}
        call.clear()
        call.update(keep)
        call["kind"] = "ParenExpr"
        call["inner"] = [new]
        call["_inlined"] = name
        del prog.functions[name]
        done.append(name)
    return done


def inline_expression_functions(prog):
    """Calls of `static`/`inline` helpers whose whole body is `return <side-effect-free expression over the parameters>;` are
    replaced in the AST by that expression with the arguments substituted (`instr_has_type(k, T)` becomes
    `(INSTR_TABLE[(k)].type == (T))`), so a predicate written as a macro and the same predicate written as a small function look
    alike to every rule.  Only calls whose arguments are themselves free of side effects are replaced.  Returns the number of
    replaced calls."""
    import copy
    SIDE = ("CompoundAssignOperator", "StmtExpr")

    def pure(e):
        for m in walk(e):
            k = m.get("kind")
            if k in SIDE or (k == "CallExpr" and callee_name(m) not in PURE_LIBC):
                return False
            if k == "BinaryOperator" and m.get("opcode") == "=":
                return False
            if k == "UnaryOperator" and m.get("opcode") in ("++", "--"):
                return False
        return True
    cands = {}
    for name, f in prog.functions.items():
        if f.get("storageClass") != "static" and not f.get("inline"):
            continue
        body = prog.body(f)
        if body is None:
            continue
        st = kids(body)
        e = _return_chain(f, st)
        if e is None:
            continue
        ps = prog.params(f)
        if any(("*" in qtype(p) or "[" in qtype(p)) and "const" not in qtype(p) for p in ps):
            continue        # a pointer the helper could write through; pointers to const are only read
        if any("*" in qtype(p) or "[" in qtype(p) for p in ps) and len(st) != 1:
            continue        # a scanner over a string with several exits stays a function: its tests are analysed path by path there
        # the expression may call other candidates (and side-effect-free libc functions) only; checked after the candidate set is known
        cands[name] = (f, ps, e)
    changed = True
    while changed:          # drop candidates that call a non-candidate or themselves, or have other side effects
        changed = False
        for name, (f, ps, e) in list(cands.items()):
            ok = True
            for m in walk(e):
                k = m.get("kind")
                if k == "CallExpr" and (callee_name(m) not in cands or callee_name(m) == name) and callee_name(m) not in PURE_LIBC:
                    ok = False
                if k in ("CompoundAssignOperator", "StmtExpr") or (k == "BinaryOperator" and m.get("opcode") == "=") or \
                        (k == "UnaryOperator" and m.get("opcode") in ("++", "--")):
                    ok = False
            if not ok:
                del cands[name]
                changed = True
    if not cands:
        return 0
    n = 0

    def subst(e, binding):
        if isinstance(e, dict):
            if e.get("kind") == "DeclRefExpr" and e.get("referencedDecl", {}).get("id") in binding:
                a = copy.deepcopy(binding[e["referencedDecl"]["id"]])
                return {"kind": "ParenExpr", "type": e.get("type", {}), "valueCategory": e.get("valueCategory", "prvalue"),
                        "range": e.get("range", {}), "inner": [a], "id": e.get("id", "") + "'"}
            out = {}
            for k, v in e.items():
                out[k] = subst(v, binding) if k == "inner" else v
            return out
        if isinstance(e, list):
            return [subst(x, binding) for x in e]
        return e

    def rewrite(node, depth=0):
        nonlocal n
        if not isinstance(node, dict):
            return
        for c in node.get("inner", []) or []:
            rewrite(c, depth)
        if node.get("kind") == "CallExpr" and callee_name(node) in cands and depth < 6:
            f, ps, e = cands[callee_name(node)]
            args = call_args(node)
            if len(args) != len(ps) or not all(pure(a) for a in args):
                return
            binding = {p["id"]: a for p, a in zip(ps, args)}
            new = subst(copy.deepcopy(e), binding)
            rewrite(new, depth + 1)
            keep = {k: node[k] for k in ("id", "range", "type", "valueCategory") if k in node}
            node.clear()
            node.update(keep)
            node["kind"] = "ParenExpr"
            node["inner"] = [new]
            node["_inlined"] = callee_name({"kind": "CallExpr", "inner": []}) or True
            n += 1
    for name, f in prog.functions.items():
        if name in cands:
            continue
        b = prog.body(f)
        if b is not None:
            rewrite(b)
    return n


# --------------------------------------------------------------------------
# node helpers
# --------------------------------------------------------------------------

def kids(n):
    return [c for c in n.get("inner", []) if c]


def walk(n):
    st = [n]
    while st:
        x = st.pop()
        yield x
        inner = x.get("inner")
        if inner:
            for c in reversed(inner):
                if c:
                    st.append(c)


def walk_with_parents(n, parents=()):
    yield n, parents
    for c in n.get("inner", []) or []:
        if c:
            yield from walk_with_parents(c, parents + (n,))


TRANSPARENT = ("ImplicitCastExpr", "ParenExpr", "ConstantExpr")


def strip(n, casts=False):
    while n and (n.get("kind") in TRANSPARENT or (casts and n.get("kind") == "CStyleCastExpr")):
        ks = kids(n)
        if not ks:
            break
        n = ks[0]
    return n


def loc_str(n):
    r = n.get("range") or {}
    b = _exp(r.get("begin")) or _exp(n.get("loc"))
    if not b:
        return "?"
    return "%s:%s" % (b.get("file"), b.get("line"))


def line_of(n):
    r = n.get("range") or {}
    b = _exp(r.get("begin")) or _exp(n.get("loc"))
    return b.get("line") if b else None


def file_of(n):
    r = n.get("range") or {}
    b = _exp(r.get("begin")) or _exp(n.get("loc"))
    return b.get("file") if b else None


def qtype(n):
    t = n.get("type") or {}
    return t.get("desugaredQualType") or t.get("qualType") or ""


def ref_name(n):
    """name of the declaration a (stripped) DeclRefExpr refers to"""
    n = strip(n)
    if n and n.get("kind") == "DeclRefExpr":
        return n.get("referencedDecl", {}).get("name")
    return None


def ref_decl(n):
    n = strip(n)
    if n and n.get("kind") == "DeclRefExpr":
        return n.get("referencedDecl")
    return None


def callee_name(call):
    ks = kids(call)
    if not ks:
        return None
    return ref_name(strip(ks[0], casts=True))


def call_args(call):
    return kids(call)[1:]


def calls_in(n):
    for m in walk(n):
        if m.get("kind") == "CallExpr":
            yield m


_BIN_PREC = {"*": 10, "/": 10, "%": 10, "+": 9, "-": 9, "<<": 8, ">>": 8, "<": 7, ">": 7, "<=": 7, ">=": 7,
             "==": 6, "!=": 6, "&": 5, "^": 4, "|": 3, "&&": 2, "||": 1}


def expr_str(n, casts=False):
    """Canonical C-like rendering of an expression AST (implicit casts and
    redundant parentheses dropped).  Used for site keys and reports, never
    compared with source text."""
    n = strip(n)
    if not n:
        return "?"
    k = n.get("kind")
    ks = kids(n)
    if k == "DeclRefExpr":
        return n.get("referencedDecl", {}).get("name", "?")
    if k == "IntegerLiteral":
        return n.get("value", "?")
    if k == "CharacterLiteral":
        v = n.get("value")
        if isinstance(v, int) and 32 <= v < 127:
            return "'%s'" % chr(v)
        return "'\\x%02x'" % (v or 0)
    if k == "StringLiteral":
        return n.get("value", '""')
    if k == "MemberExpr":
        base = expr_str(ks[0], casts) if ks else "?"
        nm = n.get("name", "")
        if not nm:
            return base  # anonymous struct member
        return base + ("->" if n.get("isArrow") else ".") + nm
    if k == "ArraySubscriptExpr":
        return "%s[%s]" % (expr_str(ks[0], casts), expr_str(ks[1], casts))
    if k == "UnaryOperator":
        op = n.get("opcode")
        if n.get("isPostfix"):
            return expr_str(ks[0], casts) + op
        return op + _paren(ks[0], casts)
    if k in ("BinaryOperator", "CompoundAssignOperator"):
        return "%s %s %s" % (_paren(ks[0], casts), n.get("opcode"), _paren(ks[1], casts))
    if k == "CallExpr":
        return "%s(%s)" % (expr_str(ks[0], casts), ", ".join(expr_str(a, casts) for a in ks[1:]))
    if k == "CStyleCastExpr":
        if casts:
            return "(%s)%s" % (qtype(n), _paren(ks[0], casts))
        return expr_str(ks[0], casts)
    if k == "ConditionalOperator":
        return "%s ? %s : %s" % (_paren(ks[0], casts), _paren(ks[1], casts), _paren(ks[2], casts))
    if k == "UnaryExprOrTypeTraitExpr":
        return "sizeof(%s)" % (n.get("argType", {}).get("qualType") or (expr_str(ks[0]) if ks else "?"))
    if k == "InitListExpr":
        return "{%s}" % ", ".join(expr_str(c, casts) for c in ks)
    if k == "CompoundLiteralExpr":
        return "(%s)%s" % (qtype(n), expr_str(ks[0], casts) if ks else "{}")
    if k == "ImplicitValueInitExpr":
        return "{}"
    if k == "StmtExpr":
        return "({...})"
    return "<%s>" % k


def _paren(n, casts):
    s = strip(n)
    if s and s.get("kind") in ("BinaryOperator", "CompoundAssignOperator", "ConditionalOperator"):
        return "(" + expr_str(s, casts) + ")"
    return expr_str(s, casts)


# --------------------------------------------------------------------------
# constant evaluation
# --------------------------------------------------------------------------

class NotConstant(Exception):
    pass


_INT_TYPES = {
    "char": (8, True), "signed char": (8, True), "unsigned char": (8, False),
    "short": (16, True), "unsigned short": (16, False),
    "int": (32, True), "unsigned int": (32, False),
    "long": (64, True), "unsigned long": (64, False),
    "long long": (64, True), "unsigned long long": (64, False),
    "_Bool": (1, False), "uint8_t": (8, False), "uint16_t": (16, False),
    "uint32_t": (32, False), "uint64_t": (64, False), "size_t": (64, False),
    "int8_t": (8, True), "int16_t": (16, True), "int32_t": (32, True), "int64_t": (64, True),
    "__uint8_t": (8, False), "__uint32_t": (32, False),
}


def int_type(qt):
    """(bits, signed) of an integer qualType or None"""
    qt = qt.replace("const ", "").replace("volatile ", "").replace("_Atomic(int)", "int").strip()
    if qt in _INT_TYPES:
        return _INT_TYPES[qt]
    if qt.startswith("enum ") or qt in ("asm_reg", "operand_format", "instr_type", "operand_encoding", "bit_mode",
                                         "asm_instr", "ASM_MODE", "filter_op", "opcode_encoding", "prefix_encoding"):
        return (32, False)
    return None


def wrap(v, bits, signed):
    v &= (1 << bits) - 1
    if signed and v >> (bits - 1):
        v -= 1 << bits
    return v


class ConstEval:
    """Integer constant expressions over the AST: literals, enumerators,
    `static const` scalars, unary/binary operators, casts, sizeof of simple
    types.  Arithmetic follows the C type recorded on each node."""

    def __init__(self, prog, env=None, env_text=None):
        self.prog = prog
        self.env = env or {}
        self.env_text = env_text or {}      # source text of an lvalue expression -> value (`buf[i]`, `*p`, `x->f`)

    def eval(self, n):
        n0 = n
        k = n.get("kind")
        ks = kids(n)
        if self.env_text and k in ("ArraySubscriptExpr", "UnaryOperator", "MemberExpr", "DeclRefExpr"):
            t = expr_str(n)
            if t in self.env_text:
                return self.env_text[t]
        if k == "ConstantExpr" and "value" in n:
            try:
                return int(n["value"])
            except ValueError:
                pass
        if k in ("ParenExpr", "ConstantExpr"):
            return self.eval(ks[0])
        if k == "IntegerLiteral":
            return int(n["value"])
        if k == "CharacterLiteral":
            return int(n["value"])
        if k == "DeclRefExpr":
            rd = n.get("referencedDecl", {})
            nm = rd.get("name")
            if nm in self.env:
                return self.env[nm]
            if rd.get("kind") == "EnumConstantDecl":
                d = self.prog.by_id.get(rd.get("id"))
                if d is not None and "_value" in d:
                    return d["_value"]
                raise NotConstant("enumerator %s" % nm)
            if rd.get("kind") == "VarDecl":
                d = self.prog.by_id.get(rd.get("id"))
                if d is not None and "const" in qtype(d) and d.get("init"):
                    init = [c for c in kids(d)]
                    if init:
                        return self._conv(self.eval(init[-1]), qtype(d))
            raise NotConstant("reference to %s" % nm)
        if k in ("ImplicitCastExpr", "CStyleCastExpr"):
            ck = n.get("castKind")
            if ck in ("LValueToRValue", "NoOp", "IntegralCast", "IntegralToBoolean", "BitCast"):
                v = self.eval(ks[0])
                if ck == "IntegralToBoolean":
                    return 1 if v else 0
                return self._conv(v, qtype(n))
            raise NotConstant("cast %s" % ck)
        if k == "UnaryOperator":
            op = n.get("opcode")
            if op in ("-", "~", "!", "+"):
                v = self.eval(ks[0])
                r = {"-": -v, "~": ~v, "!": 0 if v else 1, "+": v}[op]
                return self._conv(r, qtype(n))
            raise NotConstant("unary %s" % op)
        if k == "BinaryOperator":
            op = n.get("opcode")
            if op == "&&":
                return 1 if (self.eval(ks[0]) and self.eval(ks[1])) else 0
            if op == "||":
                return 1 if (self.eval(ks[0]) or self.eval(ks[1])) else 0
            if op == ",":
                return self.eval(ks[1])
            a, b = self.eval(ks[0]), self.eval(ks[1])
            if op == "+": r = a + b
            elif op == "-": r = a - b
            elif op == "*": r = a * b
            elif op == "/":
                if b == 0: raise NotConstant("division by zero")
                r = abs(a) // abs(b) * (1 if (a < 0) == (b < 0) else -1)
            elif op == "%":
                if b == 0: raise NotConstant("division by zero")
                r = abs(a) % abs(b) * (1 if a >= 0 else -1)
            elif op == "<<": r = a << b
            elif op == ">>": r = a >> b
            elif op == "&": r = a & b
            elif op == "|": r = a | b
            elif op == "^": r = a ^ b
            elif op == "<": r = int(a < b)
            elif op == ">": r = int(a > b)
            elif op == "<=": r = int(a <= b)
            elif op == ">=": r = int(a >= b)
            elif op == "==": r = int(a == b)
            elif op == "!=": r = int(a != b)
            else:
                raise NotConstant("binary %s" % op)
            return self._conv(r, qtype(n))
        if k == "ConditionalOperator":
            return self.eval(ks[1]) if self.eval(ks[0]) else self.eval(ks[2])
        if k == "UnaryExprOrTypeTraitExpr" and n.get("name") == "sizeof":
            t = n.get("argType", {}).get("qualType") or (qtype(ks[0]) if ks else "")
            return self.sizeof(t)
        raise NotConstant("node %s at %s" % (k, loc_str(n0)))

    def _conv(self, v, qt):
        it = int_type(qt)
        if it is None:
            return v
        return wrap(v, it[0], it[1])

    def sizeof(self, t):
        t = re.sub(r"\b(const|volatile|restrict)\b", "", t).strip()
        t = re.sub(r"\s+", " ", t)
        it = int_type(t)
        if it:
            return max(1, it[0] // 8)
        m = re.match(r"(.*)\[(\d+)\]$", t)
        if m:
            return self.sizeof(m.group(1)) * int(m.group(2))
        if t.endswith("*"):
            return 8
        m = re.match(r"struct (\w+)$", t)
        raise NotConstant("sizeof(%s)" % t)

    def try_eval(self, n):
        try:
            return self.eval(n)
        except NotConstant:
            return None


def array_len(qt):
    """N of `T[N]` (outermost dimension) or None"""
    m = re.match(r"^(.*?)\[(\d+)\]((?:\[\d+\])*)$", qt.strip())
    if not m:
        return None
    return int(m.group(2))


def array_elem(qt):
    m = re.match(r"^(.*?)\[(\d+)\]((?:\[\d+\])*)$", qt.strip())
    if not m:
        return None
    return (m.group(1) + m.group(3)).strip()
