"""Macro probe: evaluate object-like macros of the repository headers by
parsing (never executing) a generated translation unit."""
import json
import os
import re
import shutil
import subprocess
import tempfile

from . import core
from .core import AnalysisBroken, ConstEval, NotConstant, kids

_cache = {}


def defined_macros(prog):
    """{name: (file, line, body)} of object-like #defines in repo src headers/sources"""
    out = {}
    srcdir = os.path.join(prog.repo, "src")
    for f in sorted(os.listdir(srcdir)):
        if not f.endswith((".h", ".c")):
            continue
        text = prog.source("src/" + f).decode(errors="replace")
        lines = text.split("\n")
        i = 0
        while i < len(lines):
            m = re.match(r"\s*#\s*define\s+([A-Za-z_]\w*)(\(?)(.*)$", lines[i])
            if m:
                name, par, rest = m.group(1), m.group(2), m.group(3)
                start = i
                body = rest
                while body.rstrip().endswith("\\") and i + 1 < len(lines):
                    i += 1
                    body = body.rstrip()[:-1] + " " + lines[i]
                if par != "(":
                    body = re.sub(r"//.*$", "", body).strip()
                    out.setdefault(name, ("src/" + f, start + 1, body))
            i += 1
    return out


def macro_values(prog, names, headers=None):
    """{name: int} for the requested macros (AnalysisBroken if one is not
    defined or not an integer constant expression)."""
    names = sorted(set(names))
    key = (prog.tree_hash, tuple(names))
    if key in _cache:
        return _cache[key]
    # macros private to a .c file: plain integer bodies only
    defs = defined_macros(prog)
    # a requested name the tree no longer defines: renamed macro (same file, same replacement text, per ref/schema.json), or a
    # constant that is now an enumerator / a static const of the same name
    from . import schema as _schema
    alias, direct = {}, {}
    for nm in list(names):
        if nm in defs:
            continue
        a = _schema.macro_alias(nm, defs)
        if a is not None:
            alias[a] = nm
            names[names.index(nm)] = a
        elif nm in prog.enums:
            direct[nm] = prog.enums[nm]
            names.remove(nm)
        elif nm in prog.globals:
            v = ConstEval(prog).try_eval({"kind": "DeclRefExpr", "referencedDecl": {"kind": "VarDecl", "name": nm, "id": prog.globals[nm].get("id")}})
            if v is not None:
                direct[nm] = v
                names.remove(nm)
    local = {}
    for nm in list(names):
        d = defs.get(nm)
        if d and d[0].endswith(".c"):
            try:
                local[nm] = int(d[2].strip("() "), 0)
            except ValueError:
                raise AnalysisBroken("macro %s (%s:%d) is not a plain integer" % (nm, d[0], d[1]))
            names.remove(nm)
    if headers is None:
        headers = sorted(f for f in os.listdir(os.path.join(prog.repo, "src")) if f.endswith(".h"))
    tmp = tempfile.mkdtemp(prefix="verif-probe-")
    try:
        src = os.path.join(tmp, "probe.c")
        with open(src, "w") as f:
            f.write("#include <stdlib.h>\n#include <sys/mman.h>\n#include <fcntl.h>\n")
            for h in headers:
                f.write('#include "%s"\n' % h)
            for nm in names:
                f.write("#ifdef %s\nstatic const unsigned long long probe_%s = (unsigned long long)(%s);\n#endif\n" % (nm, nm, nm))
        cmd = [core.CLANG, "-fsyntax-only", "-Xclang", "-ast-dump=json", "-Wno-everything"] + prog.flags + [src]
        p = subprocess.run(cmd, cwd=prog.repo, stdout=subprocess.PIPE, stderr=subprocess.PIPE)
        if p.returncode != 0:
            raise AnalysisBroken("macro probe does not parse: %s" % p.stderr.decode()[:1500])
        tu = json.loads(p.stdout)
    finally:
        shutil.rmtree(tmp, ignore_errors=True)
    rp = core._Replay()
    rp.node(tu)
    core._tag_ids(tu, "probe:")
    tops = [n for n in tu.get("inner", []) if core._is_repo_file(core._top_file(n)) or
            (n.get("kind") == "VarDecl" and n.get("name", "").startswith("probe_"))]
    pp = core.Program(prog.repo, {"src/probe.c": tops})
    ce = ConstEval(pp)
    vals = {}
    for n in tops:
        if n.get("kind") == "VarDecl" and n.get("name", "").startswith("probe_"):
            init = kids(n)
            try:
                e = init[-1]
                while e.get("kind") in ("ImplicitCastExpr", "CStyleCastExpr") and kids(e):
                    inner = kids(e)[0]
                    if inner.get("kind") == "ParenExpr" or e.get("kind") == "ImplicitCastExpr":
                        e = inner
                    else:
                        e = inner
                        break
                v = ce.eval(e)
            except NotConstant as e:
                raise AnalysisBroken("macro %s is not an integer constant: %s" % (n["name"][6:], e))
            vals[n["name"][6:]] = v
    vals.update(local)
    for a, nm in alias.items():
        if a in vals:
            vals[nm] = vals[a]
    vals.update(direct)
    names = [alias.get(nm, nm) for nm in names]
    missing = [nm for nm in names if nm not in vals]
    if missing:
        raise AnalysisBroken("macros not defined (anchor vanished): %s" % missing)
    _cache[key] = vals
    return vals


def macro_values_opt(prog, names):
    """like macro_values but undefined macros are simply absent"""
    names = sorted(set(names))
    defs = defined_macros(prog)
    have = [n for n in names if n in defs]
    return macro_values(prog, have) if have else {}
