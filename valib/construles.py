"""Architectural constants and composition-shape rules (T5, T5v, T6, C02)."""
from .core import (AnalysisBroken, ConstEval, NotConstant, kids, strip, walk, expr_str, loc_str, qtype, ref_name)
from .macros import macro_values
from . import eff as EFF


def _static_const(prog, name):
    g = prog.globals.get(name)
    if g is None or not kids(g):
        raise AnalysisBroken("constant %s not found" % name)
    return ConstEval(prog).eval(kids(g)[-1]), loc_str(g)


def _eq(chk, rule, name, got, want, where, what=None):
    chk.require(got == want, rule, "%s/%s" % (rule, name), where, what or "%s == %#x" % (name, want),
                "%s is %s" % (name, "%#x" % got if isinstance(got, int) else got))


def t5_arch_constants(chk, prog, rule="T5"):
    e = prog.enums
    for nm, v in (("rex_", 0x40), ("rex_w", 0x48), ("rex_r", 4), ("rex_x", 2), ("rex_b", 1)):
        if nm not in e:
            raise AnalysisBroken("enumerator %s not found" % nm)
        _eq(chk, rule, nm, e[nm], v, "src/enums.h")
    v, w = _static_const(prog, "WORD_IDENTIFIER")
    _eq(chk, rule, "WORD_IDENTIFIER", v, 0x66, w, "operand-size prefix is 0x66")
    mv = macro_values(prog, ["MOD24", "GET_EN", "BIT_MASK", "BIT_32", "BIT_16", "SET_BYTE", "SET_WORD", "SET_DWORD",
                             "REG_MASK", "VALUE_MASK", "MODE_MASK", "MODE_CLEAR", "REG_RB", "REX_W_RXB", "REX_MASK",
                             "MAX_UNSIGNED_8BIT", "VVVV_MASK", "MASK_4BIT"])
    _eq(chk, rule, "MOD24", mv["MOD24"], 0xc0, "src/common.h", "register-direct mod field is 11b")
    _eq(chk, rule, "MAX_UNSIGNED_8BIT", mv["MAX_UNSIGNED_8BIT"], 0xff, "src/common.h")
    # opcode markers
    mk = {nm: e.get(nm) for nm in ("REG", "REX", "VEX", "ib", "rd")}
    for nm, v in mk.items():
        chk.require(v is not None and v > 0xff and (v & mv["GET_EN"]) == v and v & (v - 1) == 0, rule, "%s/marker/%s" % (rule, nm),
                    "src/enums.h", "marker %s is one bit above 0xff inside GET_EN" % nm, "value %s GET_EN %#x" % (v, mv["GET_EN"]))
    chk.require(len(set(mk.values())) == 5, rule, rule + "/marker/distinct", "src/enums.h", "the five markers are distinct", str(mk))
    vexv = mk["VEX"] or 0
    chk.require(vexv > 0x3fff, rule, rule + "/marker/VEX-room", "src/enums.h",
                "the VEX marker lies above the 14 descriptor bits", "VEX=%#x" % vexv)
    # register word layout
    modes = prog.enum_members("bit_mode")
    if not modes:
        raise AnalysisBroken("enum bit_mode not found")
    md = dict(modes)
    order = ["reg8", "ext8", "noext8", "reg16", "ext16", "reg32", "ext32", "reg64", "ext64", "mmx64"]
    if not set(order) <= set(md):
        raise AnalysisBroken("bit_mode lost enumerators %s" % sorted(set(order) - set(md)))
    vals = [md[n] for n in order]
    chk.require(vals == sorted(vals) and len(set(vals)) == len(vals), rule, rule + "/bit_mode/order", "src/enums.h",
                "bit_mode values are strictly increasing reg8<ext8<noext8<reg16<...<mmx64 (range tests rely on it)", str(md))
    for b in ("8", "16", "32", "64"):
        chk.require(md["ext" + b] == md["reg" + b] | md["ext8"], rule, "%s/bit_mode/ext%s" % (rule, b), "src/enums.h",
                    "ext%s is reg%s plus the extended flag" % (b, b), "%#x vs %#x|%#x" % (md["ext" + b], md["reg" + b], md["ext8"]))
    for n, v in md.items():
        chk.require((v & mv["MODE_MASK"]) == v and not (v & mv["REG_MASK"]), rule, "%s/bit_mode/mask/%s" % (rule, n), "src/enums.h",
                    "mode %s lies inside MODE_MASK and outside the register-number bits" % n, "%#x" % v)
        is32 = (v & mv["BIT_MASK"]) == mv["BIT_32"]
        is16 = (v & mv["BIT_MASK"]) == mv["BIT_16"]
        chk.require(is32 == (n in ("reg32", "ext32")) and is16 == (n in ("reg16", "ext16")), rule,
                    "%s/width-test/%s" % (rule, n), "src/common.h",
                    "the BIT_MASK tests classify %s correctly (32-bit: %s, 16-bit: %s)" % (n, n in ("reg32", "ext32"), n in ("reg16", "ext16")),
                    "32-bit test %s, 16-bit test %s" % (is32, is16))
        chk.require(bool(v & md["reg64"]) == (n in ("reg64", "ext64", "mmx64")), rule, "%s/w-test/%s" % (rule, n), "src/enums.h",
                    "`& reg64` is set exactly for the 64-bit classes", "%#x & %#x" % (v, md["reg64"]))
    _eq(chk, rule, "SET_BYTE", mv["SET_BYTE"] & 0xffff, ~(md["reg16"] | md["reg32"] | md["reg64"]) & 0xffff, "src/common.h",
        "SET_BYTE clears the 16/32/64-bit class bits")
    _eq(chk, rule, "SET_WORD", mv["SET_WORD"] & 0xffff, ~(md["reg32"] | md["reg64"]) & 0xffff, "src/common.h",
        "SET_WORD clears the 32/64-bit class bits")
    _eq(chk, rule, "SET_DWORD", mv["SET_DWORD"] & 0xffff, ~md["reg64"] & 0xffff, "src/common.h", "SET_DWORD clears the 64-bit class bit")
    _eq(chk, rule, "REG_MASK", mv["REG_MASK"], 0x1f, "src/common.h", "register number is 5 bits")
    _eq(chk, rule, "VALUE_MASK", mv["VALUE_MASK"], 7, "src/common.h", "ModRM/SIB register fields are 3 bits")
    _eq(chk, rule, "REG_RB", mv["REG_RB"], 8, "src/common.h", "bit 3 of the register number selects REX.R/X/B")
    _eq(chk, rule, "REX_MASK", mv["REX_MASK"], 7, "src/common.h", "REX.RXB are the low three bits")
    _eq(chk, rule, "REX_W_RXB", mv["REX_W_RXB"], 0x4f, "src/common.h")
    _eq(chk, rule, "MODE_CLEAR", mv["MODE_CLEAR"], ~mv["MODE_MASK"] & 0x7ff, "src/common.h", "MODE_CLEAR is the complement of MODE_MASK")
    _eq(chk, rule, "MASK_4BIT", mv["MASK_4BIT"], 0xf, "src/common.h", "vvvv is 4 bits")
    regs = prog.enum_members("asm_reg")
    if not regs:
        raise AnalysisBroken("enum asm_reg not found")
    rd = dict(regs)
    names = (["al", "cl", "dl", "bl", "spl", "bpl", "sil", "dil"] + ["r%db" % i for i in range(8, 16)] +
             ["mm%d" % i for i in range(16)])
    for i, n in enumerate(names):
        chk.require(rd.get(n) == i, rule, "%s/asm_reg/%s" % (rule, n), "src/enums.h", "%s == %d" % (n, i), str(rd.get(n)))
    chk.require(rd.get("reg_none") == 0x20 and rd.get("reg_error") == 0x40, rule, rule + "/asm_reg/flags", "src/enums.h",
                "reg_none/reg_error are flag bits outside number (0-4) and mode (7-10) bits",
                "reg_none=%s reg_error=%s" % (rd.get("reg_none"), rd.get("reg_error")))


# --------------------------------------------------------------------------
def _or_terms(e):
    e = strip(e, casts=True)
    if e.get("kind") == "BinaryOperator" and e.get("opcode") == "|":
        a, b = kids(e)
        return _or_terms(a) + _or_terms(b)
    return [e]


def _classify_term(prog, t):
    """('masked', mask, shift, operand) | ('const', v) | ('plain', expr)"""
    ce = ConstEval(prog)
    v = ce.try_eval(t)
    if v is not None:
        return ("const", v)
    t = strip(t, casts=True)
    shift = 0
    if t.get("kind") == "BinaryOperator" and t.get("opcode") == "<<":
        s = ce.try_eval(kids(t)[1])
        if s is None:
            return ("other", expr_str(t))
        shift = s
        t = strip(kids(t)[0], casts=True)
    if t.get("kind") == "BinaryOperator" and t.get("opcode") == "&":
        a, b = kids(t)
        mv = ce.try_eval(b)
        opnd = a
        if mv is None:
            mv = ce.try_eval(a)
            opnd = b
        if mv is None:
            return ("other", expr_str(t))
        return ("masked", mv, shift, strip(opnd, casts=True))
    if shift:
        return ("other", expr_str(t))
    return ("plain", t)


def t6_modrm_shape(chk, prog, rule="T6", want_sib=False):
    """every store to hex.reg is  mod | (x & 7) << 3 | (y & 7 or the SIB escape 4)
    and (want_sib) every store to hex.sib is  scale | (index & 7) << 3 | (base & 7)"""
    n_reg = n_sib = 0
    for fn, f in sorted(prog.lib_functions().items()):
        for m in walk(prog.body(f)):
            if m.get("kind") != "BinaryOperator" or m.get("opcode") != "=":
                continue
            lhs = strip(kids(m)[0])
            if lhs.get("kind") != "MemberExpr" or lhs.get("name") not in ("reg", "sib"):
                continue
            owner, fld = EFF.owner_field(lhs)
            if owner != "prefix":
                continue
            rhs = kids(m)[1]
            cv = ConstEval(prog).try_eval(rhs)
            if cv is not None:
                continue          # initialisation (NONE / NO_BYTE)
            terms = [_classify_term(prog, t) for t in _or_terms(rhs)]
            kinds = sorted(t[0] for t in terms)
            key = "%s/%s/%s@%s" % (rule, fld, fn, expr_str(rhs)[:60])
            if fld == "reg" and not want_sib:
                n_reg += 1
                hi = [t for t in terms if t[0] == "masked" and t[2] == 3]
                lo = [t for t in terms if t[0] == "masked" and t[2] == 0]
                cs = [t for t in terms if t[0] == "const"]
                pl = [t for t in terms if t[0] == "plain"]
                ok = (len(terms) == 3 and len(pl) == 1 and len(hi) == 1 and hi[0][1] == 7 and
                      ((len(lo) == 1 and lo[0][1] == 7 and not cs) or (len(cs) == 1 and cs[0][1] == 4 and not lo)))
                if ok and lo:
                    o = lo[0][3]
                    ok = o.get("kind") == "MemberExpr" and o.get("name") == "reg"
                if ok:
                    o = pl[0][1]
                    ok = o.get("kind") == "MemberExpr" and o.get("name") == "mod_disp"
                chk.require(ok, rule, key, loc_str(m),
                            "ModRM = mod_disp | (reg-field & 7) << 3 | (base register & 7, or 100b for SIB)", expr_str(rhs))
            if fld == "sib" and want_sib:
                n_sib += 1
                hi = [t for t in terms if t[0] == "masked" and t[2] == 3]
                lo = [t for t in terms if t[0] == "masked" and t[2] == 0]
                pl = [t for t in terms if t[0] == "plain"]
                ok = len(terms) == 3 and len(pl) == 1 and len(hi) == 1 and len(lo) == 1 and hi[0][1] == 7 and lo[0][1] == 7
                if ok:
                    ok = (hi[0][3].get("kind") == "MemberExpr" and hi[0][3].get("name") == "index" and
                          lo[0][3].get("kind") == "MemberExpr" and lo[0][3].get("name") == "reg" and
                          pl[0][1].get("kind") == "MemberExpr" and pl[0][1].get("name") == "sib_disp")
                chk.require(ok, rule, key, loc_str(m), "SIB = scale | (index & 7) << 3 | (base & 7)", expr_str(rhs))
    if want_sib:
        chk.floor("SIB composition sites", n_sib, 1)
    else:
        chk.floor("ModRM composition sites", n_reg, 2)


# --------------------------------------------------------------------------
def c02_addressing_constants(chk, prog, rule="ADDR"):
    mv = macro_values(prog, ["MOD8", "MOD16", "MOD24", "SIB", "SIB2", "SIB4", "SIB8", "SIB_CONST", "NO_BASE", "NO_REG_MEM"])
    for nm, v, why in (("MOD8", 0x40, "mod=01 (disp8)"), ("MOD16", 0x80, "mod=10 (disp32)"), ("MOD24", 0xc0, "mod=11"),
                       ("SIB_CONST", 0x24, "SIB byte for [rsp]/[r12]: no index, base=100b"),
                       ("NO_BASE", 5, "base=101b means disp32 without base"),
                       ("NO_REG_MEM", 0x25, "SIB byte for [disp32]: no index, no base")):
        _eq(chk, rule, nm, mv[nm], v, "src/common.h", "%s == %#x: %s" % (nm, v, why))
    v, w = _static_const(prog, "ADDRESS_SIZE_OVERWRITE")
    _eq(chk, rule, "ADDRESS_SIZE_OVERWRITE", v, 0x67, w, "address-size prefix is 0x67")
    v, w = _static_const(prog, "DWORD_BYTES")
    _eq(chk, rule, "DWORD_BYTES", v, 4, w, "disp32 is 4 bytes")
    # the scale switch
    found = 0
    want = {ord("1"): 0x00, ord("2"): 0x40, ord("4"): 0x80, ord("8"): 0xc0}
    for fn, f in sorted(prog.lib_functions().items()):
        for sw in walk(prog.body(f)):
            if sw.get("kind") != "SwitchStmt":
                continue
            body = kids(sw)[-1]
            stmts = kids(body) if body.get("kind") == "CompoundStmt" else [body]
            mapping, default_ret, touches = {}, None, False
            cur = []
            char_labels = True
            for s in stmts:
                labs = []
                inner = s
                while inner.get("kind") in ("CaseStmt", "DefaultStmt"):
                    if inner["kind"] == "DefaultStmt":
                        labs.append("default")
                    else:
                        labs.append(ConstEval(prog).try_eval(kids(inner)[0]))
                        if strip(kids(inner)[0], casts=True).get("kind") != "CharacterLiteral":
                            char_labels = False
                    inner = kids(inner)[-1]
                if labs:
                    cur = labs
                for m in walk(inner):
                    if m.get("kind") == "BinaryOperator" and m.get("opcode") == "=":
                        lhs = strip(kids(m)[0])
                        if lhs.get("kind") == "MemberExpr" and lhs.get("name") == "sib_disp":
                            touches = True
                            val = ConstEval(prog).try_eval(kids(m)[1])
                            for lab in cur:
                                mapping[lab] = val
                    if m.get("kind") == "ReturnStmt" and "default" in cur and kids(m):
                        default_ret = ConstEval(prog).try_eval(kids(m)[0])
            if not touches or not char_labels:
                continue
            found += 1
            where = loc_str(sw)
            chk.require({k: v for k, v in mapping.items() if k != "default"} == want, rule, rule + "/scale-map", where,
                        "scale characters '1','2','4','8' map to SIB scale bits 00/40/80/C0 and nothing else does",
                        str({(chr(k) if isinstance(k, int) and 32 <= k < 127 else k): v for k, v in mapping.items()}))
            chk.require("default" not in mapping and default_ret not in (None, 0), rule, rule + "/scale-default", where,
                        "any other scale character is rejected (default returns failure)",
                        "default %s" % ("assigns a scale" if "default" in mapping else "returns %s" % default_ret))
    chk.floor("scale switches", found, 1)


# --------------------------------------------------------------------------
def t5v_vex_layout(chk, prog, rule="T5v"):
    mv = macro_values(prog, ["X66", "XF3", "XF2", "X0F", "X0F38", "X0F3A", "B256", "B128", "LZ", "W0", "W1", "W0_W1", "WIG",
                             "NDS", "NDD", "NNN", "CLEARvvvv", "C4H", "C5H", "R_VEX", "NEG8BIT_CHECK", "MAX_SIGNED_8BIT"])
    from .tables import decode_vex
    for nm, field, want in (("X66", "pp", "66"), ("XF3", "pp", "f3"), ("XF2", "pp", "f2"),
                            ("X0F", "map", "0f"), ("X0F38", "map", "0f38"), ("X0F3A", "map", "0f3a"),
                            ("B256", "L", 1), ("B128", "L", 0), ("LZ", "L", 0)):
        d = decode_vex(mv[nm])
        others = {k: v for k, v in d.items() if k != field and k not in ("tag",)}
        clean = others == {k: v for k, v in decode_vex(0).items() if k != field and k not in ("tag",)}
        chk.require(d[field] == want and clean, rule, "%s/%s" % (rule, nm), "src/common.h",
                    "%s selects VEX.%s=%s and nothing else under the shifts assemble_VEX applies" % (nm, field, want), str(d))
    for nm, want in (("W0", "0"), ("W1", "1"), ("W0_W1", "size"), ("WIG", "ig")):
        d = decode_vex(mv[nm])
        chk.require(d["W"] == want and d["pp"] == "none" and d["L"] == 0 and d["map"].startswith("?0"), rule, "%s/%s" % (rule, nm),
                    "src/common.h", "%s selects VEX.W mode '%s' only" % (nm, want), str(d))
    for nm in ("NDS", "NDD", "NNN"):
        v = mv[nm]
        chk.require(v and (v >> 1) & ~mv["CLEARvvvv"] == 0, rule, "%s/%s" % (rule, nm), "src/common.h",
                    "the %s tag lies inside the vvvv bits that assemble_VEX clears" % nm, "%#x vs CLEARvvvv %#x" % (v, mv["CLEARvvvv"]))
    _eq(chk, rule, "CLEARvvvv", mv["CLEARvvvv"], 0x78, "src/common.h", "vvvv occupies bits 3-6 of the last VEX byte")
    _eq(chk, rule, "C4H", mv["C4H"], 0xc4, "src/common.h")
    _eq(chk, rule, "C5H", mv["C5H"], 0xc5, "src/common.h")
    _eq(chk, rule, "NEG8BIT_CHECK", mv["NEG8BIT_CHECK"], 0x80, "src/common.h", "bit 7 carries ~R / W")
    _eq(chk, rule, "MAX_SIGNED_8BIT", mv["MAX_SIGNED_8BIT"], 0x7f, "src/common.h")
    for nm, want in (("SHIFT_5", 5), ("SHIFT_3", 3)):
        v, w = _static_const(prog, nm)
        _eq(chk, rule, nm, v, want, w)
    # the descriptor is shifted right by exactly one bit (dropping the WIG flag) in the VEX emitter
    emitters = [fn for fn, f in prog.lib_functions().items()
                if any(ref_name(m) == "SHIFT_5" for m in walk(prog.body(f)) if m.get("kind") == "DeclRefExpr")]
    if len(emitters) != 1:
        chk.broken(rule, rule + "/emitter", "-", "one function assembles the VEX prefix", "candidates %s" % emitters)
        return
    f = prog.fn(emitters[0])
    shifts = [m for m in walk(prog.body(f)) if m.get("kind") == "CompoundAssignOperator" and m.get("opcode") == ">>="]
    ok = len(shifts) == 1 and ConstEval(prog).try_eval(kids(shifts[0])[1]) == 1
    chk.require(ok, rule, rule + "/descriptor-shift", loc_str(shifts[0]) if shifts else loc_str(f),
                "the VEX descriptor is shifted right by one bit before its fields are placed",
                "%d shift statements" % len(shifts))


# --------------------------------------------------------------------------
class _NoBaseDomain:
    """state: frozenset of (operand has the no-base marker, mod field cleared since) pairs, kept path-sensitively"""

    def __init__(self, prog, nobase_val):
        self.prog, self.nb = prog, nobase_val
        self.viol = []
        self.nsites = 0

    def copy(self, s): return s
    def join(self, a, b): return a | b
    def equal(self, a, b): return a == b
    def widen(self, o, n): return n

    def decl(self, vd, s):
        for c in kids(vd):
            s = self.eval(c, s)
        return s

    def eval(self, e, s):
        e0 = strip(e)
        if not e0 or s is None:
            return s
        k, ks = e0.get("kind"), kids(e0)
        if k in ("BinaryOperator", "CompoundAssignOperator") and e0.get("opcode", "").endswith("=") and e0.get("opcode") not in ("==", "!=", "<=", ">="):
            s = self.eval(ks[1], s)
            l = strip(ks[0])
            if l.get("kind") == "MemberExpr":
                own, fld = EFF.owner_field(l)
                v = ConstEval(self.prog).try_eval(ks[1])
                if own == "operand" and fld == "reg" and e0["opcode"] == "=":
                    nb = (v == self.nb)
                    return frozenset((nb, mz if nb else mz) for (_, mz) in s)
                if own == "instr" and fld == "mod_disp":
                    z = (e0["opcode"] == "=" and v == 0)
                    return frozenset((nbv, z) for (nbv, _) in s)
                if own == "prefix" and fld in ("reg", "sib") and v is None:
                    self.nsites += 1
                    if any(nbv and not mz for (nbv, mz) in s):
                        self.viol.append((e0, "ModRM/SIB is composed with the no-base marker (base=101b) while mod_disp was not cleared on this path: "
                                              "mod=01/10 with base 101b means [rbp+disp], not a base-less disp32"))
            return s
        for c in ks:
            s = self.eval(c, s)
        return s

    def assume(self, e, truth, s):
        e0 = strip(e)
        if e0.get("kind") == "BinaryOperator" and e0.get("opcode") in ("==", "!="):
            l, r = strip(kids(e0)[0]), strip(kids(e0)[1])
            for a, b in ((l, r), (r, l)):
                if a.get("kind") == "MemberExpr" and EFF.owner_field(a) == ("operand", "reg") and ConstEval(self.prog).try_eval(b) == self.nb:
                    want = truth if e0["opcode"] == "==" else not truth
                    out = frozenset(t for t in s if t[0] == want)
                    return out or None
        return s

    def ret(self, n, s):
        pass


def nobase_mod_rule(chk, prog, rule="NOBASE"):
    """whenever the memory operand is given the no-base marker (base field 101b), the mod field is cleared before
    ModRM/SIB are composed"""
    from .flow import Flow
    nb = macro_values(prog, ["NO_BASE"])["NO_BASE"]
    fns = [fn for fn, f in prog.lib_functions().items()
           if any(a.owner == "instr" and a.field == "no_base" and a.ctx == "w" for a in EFF.accesses(prog.body(f)))]
    if len(fns) != 1:
        chk.broken(rule, rule + "/site", "-", "one function implements the no-base rewriting", str(fns))
        return
    f = prog.fn(fns[0])
    dom = _NoBaseDomain(prog, nb)
    Flow(dom).function(prog, f, frozenset([(False, False)]))
    seen = set()
    for node, text in dom.viol:
        key = "%s/%s@%s" % (rule, fns[0], loc_str(node))
        if key not in seen:
            seen.add(key)
            chk.bad(rule, key, loc_str(node), "a base-less memory operand is encoded with mod=00", text)
    if not dom.viol:
        chk.ok(rule, "%s/%s" % (rule, fns[0]), loc_str(f), "on every path of %s that marks the operand base-less, mod_disp is cleared before ModRM/SIB are composed" % fns[0])
    chk.floor("ModRM/SIB composition sites after the no-base rewriting", dom.nsites, 2)


# ---------------------------------------------------------------------------------------------------------------------
# RADIX: numbers are converted in the radix the scanner decided (10 or 16), never by strtoul's own prefix detection
# ---------------------------------------------------------------------------------------------------------------------

class IntVals:
    """Finite value sets of int expressions built from constants: conditional expressions, locals (ordered by the top-level
    statement that defines them; what precedes the last certain definition is dead), results of library helpers (their return
    expressions) and values helpers store through a pointer argument.  None = cannot tell."""

    def __init__(self, prog):
        from .core import ConstEval
        self.prog = prog
        self.ce = ConstEval(prog)
        self.lib = prog.lib_functions()

    def expr(self, f, e, use=None, depth=0):
        from .core import kids, strip, ref_name, callee_name
        e = strip(e, casts=True)
        if e is None or depth > 6:
            return None
        v = self.ce.try_eval(e)
        if v is not None:
            return {v}
        k = e.get("kind")
        if k == "ConditionalOperator":
            x, y = self.expr(f, kids(e)[1], use, depth + 1), self.expr(f, kids(e)[2], use, depth + 1)
            return None if (x is None or y is None) else x | y
        if k == "CallExpr" and callee_name(e) in self.lib:
            return self.returns(callee_name(e), depth + 1)
        if k == "DeclRefExpr" and (e.get("referencedDecl") or {}).get("kind") == "VarDecl":
            return self.var(f, ref_name(e), use if use is not None else e, depth + 1)
        return None

    def returns(self, gname, depth=0):
        from .core import kids, walk
        g = self.lib.get(gname)
        if g is None or self.prog.body(g) is None or depth > 6:
            return None
        out = set()
        for m in walk(self.prog.body(g)):
            if m.get("kind") == "ReturnStmt" and kids(m):
                vs = self.expr(g, kids(m)[0], m, depth + 1)
                if vs is None:
                    return None
                out |= vs
        return out or None

    def stores_through_param(self, gname, idx, depth=0):
        """values a function stores through its idx-th (pointer) parameter; None if something unresolvable is stored"""
        from .core import kids, strip, walk, ref_name, callee_name, call_args
        g = self.lib.get(gname)
        if g is None or depth > 4:
            return None
        ps = self.prog.params(g)
        if idx >= len(ps):
            return None
        pn = ps[idx]["name"]
        vals = set()
        for m in walk(self.prog.body(g)):
            if m.get("kind") in ("BinaryOperator", "CompoundAssignOperator") and m.get("opcode", "").endswith("=") and \
                    m.get("opcode") not in ("==", "!=", "<=", ">="):
                l = strip(kids(m)[0])
                if l.get("kind") == "UnaryOperator" and l.get("opcode") == "*" and ref_name(strip(kids(l)[0], casts=True)) == pn:
                    vs = self.expr(g, kids(m)[1], m, depth + 1) if m.get("opcode") == "=" else None
                    if vs is None:
                        return None
                    vals |= vs
            if m.get("kind") == "CallExpr" and callee_name(m) in self.lib:
                for j, a in enumerate(call_args(m)):
                    if ref_name(strip(a, casts=True)) == pn:
                        sub = self.stores_through_param(callee_name(m), j, depth + 1)
                        if sub is None:
                            return None
                        vals |= sub
        return vals

    def must_store(self, gname, idx):
        """does the function store through its idx-th parameter in a top-level statement that no return precedes"""
        from .core import kids, strip, walk, ref_name
        g = self.lib.get(gname)
        if g is None:
            return False
        ps = self.prog.params(g)
        if idx >= len(ps):
            return False
        pn = ps[idx]["name"]
        for st in kids(self.prog.body(g)):
            st0 = strip(st)
            if st0.get("kind") == "BinaryOperator" and st0.get("opcode") == "=":
                l = strip(kids(st0)[0])
                if l.get("kind") == "UnaryOperator" and l.get("opcode") == "*" and ref_name(strip(kids(l)[0], casts=True)) == pn:
                    return True
            if any(x.get("kind") in ("ReturnStmt", "GotoStmt") for x in walk(st)):
                return False
        return False

    def var(self, f, nm, use, depth=0):
        from .core import kids, strip, walk, ref_name, callee_name, call_args
        tops = kids(self.prog.body(f))
        defs = []       # (top index, values or None, certain?)
        use_idx = None
        for ti, st in enumerate(tops):
            for m in walk(st):
                if m is use:
                    use_idx = ti
                top_level = strip(st) is m or (st.get("kind") == "DeclStmt" and m in kids(st)) or \
                    (st.get("kind") == "DeclStmt" and any(kids(d) and strip(kids(d)[-1], casts=True) is m for d in kids(st)))
                if m.get("kind") == "VarDecl" and m.get("name") == nm and kids(m):
                    defs.append((ti, self.expr(f, kids(m)[-1], m, depth + 1), True))
                elif m.get("kind") in ("BinaryOperator", "CompoundAssignOperator") and m.get("opcode", "").endswith("=") and \
                        m.get("opcode") not in ("==", "!=", "<=", ">=") and strip(kids(m)[0]).get("kind") == "DeclRefExpr" and \
                        ref_name(strip(kids(m)[0])) == nm:
                    iv = self.expr(f, kids(m)[1], m, depth + 1) if m.get("opcode") == "=" else None
                    defs.append((ti, iv, top_level and m.get("opcode") == "="))
                elif m.get("kind") == "UnaryOperator" and m.get("opcode") in ("++", "--") and ref_name(strip(kids(m)[0], casts=True)) == nm:
                    defs.append((ti, None, False))
                elif m.get("kind") == "CallExpr" and callee_name(m) in self.lib:
                    for j, x in enumerate(call_args(m)):
                        x0 = strip(x, casts=True)
                        if x0.get("kind") == "UnaryOperator" and x0.get("opcode") == "&" and ref_name(strip(kids(x0)[0])) == nm:
                            defs.append((ti, self.stores_through_param(callee_name(m), j), top_level and self.must_store(callee_name(m), j)))
        if not defs:
            return None
        if use_idx is None:
            use_idx = len(tops)
        certain = [ti for ti, _, must in defs if must and ti < use_idx]
        start = max(certain) if certain else -1
        vals = set()
        for ti, vs, _ in defs:
            if ti < start:
                continue
            if vs is None:
                return None
            vals |= vs
        return vals or None


def radix_rule(chk, prog, rule="RADIX"):
    """nasm reads `010` as ten; strtoul(s, 0, 0) reads it as eight.  The base argument of every strtoul/strtol in the library is a
    constant 10 or 16, or an expression / variable that only ever yields those (directly, through a helper's result, or through a
    pointer handed to a helper)."""
    from .core import walk, expr_str, loc_str, callee_name, call_args
    iv = IntVals(prog)
    n = 0
    for fn, f in sorted(prog.lib_functions().items()):
        for c in walk(prog.body(f)):
            if c.get("kind") != "CallExpr" or callee_name(c) not in ("strtoul", "strtol", "strtoull", "strtoll"):
                continue
            a = call_args(c)
            if len(a) < 3:
                continue
            n += 1
            key = "%s/%s@%s" % (rule, fn, loc_str(c))
            want = "%s() converts in the radix the scanner decided (10 or 16)" % callee_name(c)
            vals = iv.expr(f, a[2], c)
            if vals is None:
                chk.broken(rule, key, loc_str(c), want, "cannot resolve the values of the base argument %s" % expr_str(a[2]))
                continue
            chk.require(vals <= {10, 16}, rule, key, loc_str(c), want, "base argument %s may be %s" % (expr_str(a[2]), sorted(vals)))
    chk.floor("number conversions", n, 2)
    return n


# ---------------------------------------------------------------------------------------------------------------------
# MEMIDX: code that locates "the memory operand" by computing an index can reach every position a memory operand may take
# ---------------------------------------------------------------------------------------------------------------------

def mem_index_rule(chk, prog, rule="MEMIDX"):
    """The operand formats (OPD_FORMAT_TABLE) allow a memory operand in several positions - the third for the VEX RVM forms.
    Where the library indexes the operand array with a local whose value is *computed from constants* (a conditional
    expression, not the position the tokenizer recorded, not a loop over all operands, not a parameter) and tests that operand
    for being a memory operand, the computed values must include every position in which the formats allow one."""
    from .core import kids, strip, walk, expr_str, loc_str, ConstEval, ref_name
    from . import tables as T
    mpos = set()
    for e in T.opd_format_table(prog):
        for i, ch in enumerate(e["str"]):
            if ch == "m":
                mpos.add(i)
    ce = ConstEval(prog)
    n = 0

    def values(e):
        """finite value set of an index expression built from constants and conditional expressions; None = not of that shape"""
        e = strip(e, casts=True)
        v = ce.try_eval(e)
        if v is not None:
            return {v}
        if e.get("kind") == "ConditionalOperator":
            a, b = values(kids(e)[1]), values(kids(e)[2])
            if a is None or b is None:
                return None
            return a | b
        return None

    for fn, f in sorted(prog.lib_functions().items()):
        locs = {}
        assigned = {}
        for m in walk(prog.body(f)):
            if m.get("kind") == "VarDecl" and kids(m) and "int" in (m.get("type") or {}).get("qualType", ""):
                locs[m["name"]] = (m, kids(m)[-1])
            if m.get("kind") in ("BinaryOperator", "CompoundAssignOperator") and m.get("opcode", "").endswith("=") and \
                    m.get("opcode") not in ("==", "!=", "<=", ">=") and strip(kids(m)[0]).get("kind") == "DeclRefExpr":
                assigned.setdefault(ref_name(strip(kids(m)[0])), []).append(kids(m)[1] if m.get("opcode") == "=" else None)
            if m.get("kind") == "UnaryOperator" and m.get("opcode") in ("++", "--", "&"):
                nm = ref_name(strip(kids(m)[0], casts=True))
                if nm:
                    assigned.setdefault(nm, []).append(None)
        used = {}
        for m in walk(prog.body(f)):
            if m.get("kind") == "BinaryOperator" and m.get("opcode") in ("==", "!="):
                for a, b in (kids(m), kids(m)[::-1]):
                    a0 = strip(a, casts=True)
                    if a0.get("kind") == "MemberExpr" and a0.get("name") == "type" and ce.try_eval(strip(b, casts=True)) == ord("m"):
                        base = strip(kids(a0)[0], casts=True)
                        if base.get("kind") == "ArraySubscriptExpr":
                            idx = strip(kids(base)[1], casts=True)
                            arr = strip(kids(base)[0], casts=True)
                            if arr.get("kind") == "MemberExpr" and arr.get("name") == "opd" and idx.get("kind") == "DeclRefExpr":
                                used.setdefault(ref_name(idx), m)
        for nm, site in sorted(used.items()):
            if nm not in locs:
                continue                       # a parameter: decided at the callers, which pass constants per encoding class
            decl, init = locs[nm]
            n += 1
            key = "%s/%s/%s" % (rule, fn, nm)
            exprs = [init] + assigned.get(nm, [])
            if any(x is None for x in exprs):
                chk.ok(rule, key, loc_str(decl), "%s is stepped through the operands (not a computed position)" % nm)
                continue
            sets = [values(x) for x in exprs]
            if any(s_ is None for s_ in sets):
                chk.ok(rule, key, loc_str(decl), "%s comes from the record / a call (%s), not from a choice among constants" % (nm, expr_str(init)[:60]))
                continue
            vs = set().union(*sets)
            chk.require(mpos <= vs, rule, key, loc_str(decl),
                        "an operand position computed from constants and then tested for a memory operand covers every position the operand "
                        "formats allow a memory operand in (%s)" % sorted(mpos),
                        "%s can only be %s (%s)" % (nm, sorted(vs), expr_str(init)[:80]))
    chk.analysed["memory_operand_position_locals"] = n
    return n
