"""SCAN - prefix-concrete abstract interpretation of the line scanner.

The line parser (and the filter it calls) walk the raw program text with an
integer cursor.  Whether the driver makes progress, and how much text one call
consumes, depends only on comparisons of the characters under the cursor with
character constants.  This engine interprets those functions over an abstract
string whose first L characters are fixed to one representative of each
character class (the classes are cut at every constant the text is compared
with, so every member of a class takes the same branches) and whose remaining
characters are unknown.  Integer locals are sets of disjoint intervals; the
state is a disjunction partitioned by the exact value (0..L-1 / beyond) of the
cursor variables, so the first iterations of the scanning loops are kept apart
from the widened tail.  Calls that hand the same text on (the filter) are
interpreted in the same way; every other call returns an unknown value.

Nothing is executed: the result is, per prefix, an over-approximation of the
(return value, characters consumed) pairs of the line parser.
"""
from .core import (AnalysisBroken, ConstEval, kids, strip, walk, expr_str, loc_str, qtype, ref_name, callee_name, call_args)
from .flow import Flow

INF = float("inf")
TOP = ((-INF, INF),)
CHAR = ((-128, 127),)
B01 = ((0, 1),)


# ---- interval-set values ---------------------------------------------------------------------
def norm(ivs):
    ivs = sorted((lo, hi) for lo, hi in ivs if lo <= hi)
    out = []
    for lo, hi in ivs:
        if out and lo <= out[-1][1] + 1:
            out[-1] = (out[-1][0], max(out[-1][1], hi))
        else:
            out.append((lo, hi))
    return tuple(out)


def ex(n):
    return ((n, n),)


def is_exact(v):
    return len(v) == 1 and v[0][0] == v[0][1]


def vjoin(a, b):
    return norm(a + b)


def vmeet(a, b):
    out = []
    for l1, h1 in a:
        for l2, h2 in b:
            lo, hi = max(l1, l2), min(h1, h2)
            if lo <= hi:
                out.append((lo, hi))
    return norm(out)


def vmin(v):
    return v[0][0] if v else INF


def vmax(v):
    return v[-1][1] if v else -INF


def truth(v):
    """True: never 0; False: always 0; None: may be either"""
    if not v:
        return None
    if v == ((0, 0),):
        return False
    if any(lo <= 0 <= hi for lo, hi in v):
        return None
    return True


def vadd(a, b):
    return norm([(l1 + l2, h1 + h2) for l1, h1 in a for l2, h2 in b])


def vneg(a):
    return norm([(-h, -l) for l, h in a])


def vcmp(op, a, b):
    if not a or not b:
        return B01
    amin, amax, bmin, bmax = vmin(a), vmax(a), vmin(b), vmax(b)
    if op == "<":
        t, f = amax < bmin, amin >= bmax
    elif op == "<=":
        t, f = amax <= bmin, amin > bmax
    elif op == ">":
        t, f = amin > bmax, amax <= bmin
    elif op == ">=":
        t, f = amin >= bmax, amax < bmin
    elif op == "==":
        t, f = is_exact(a) and a == b, not vmeet(a, b)
    elif op == "!=":
        f, t = is_exact(a) and a == b, not vmeet(a, b)
    else:
        return B01
    return ex(1) if t else ex(0) if f else B01


def allowed(op, c):
    """values x with `x op c` possibly true"""
    if not c:
        return TOP
    if op == "==":
        return c
    if op == "!=":
        if is_exact(c):
            k = c[0][0]
            return ((-INF, k - 1), (k + 1, INF))
        return TOP
    if op == "<":
        return ((-INF, vmax(c) - 1),)
    if op == "<=":
        return ((-INF, vmax(c)),)
    if op == ">":
        return ((vmin(c) + 1, INF),)
    if op == ">=":
        return ((vmin(c), INF),)
    return TOP


NEG = {"==": "!=", "!=": "==", "<": ">=", "<=": ">", ">": "<=", ">=": "<"}
SWAP = {"==": "==", "!=": "!=", "<": ">", "<=": ">=", ">": "<", ">=": "<="}


def vwiden(old, new):
    if not old:
        return new
    out = list(new)
    if vmax(new) > vmax(old):
        out[-1] = (out[-1][0], INF)
    if vmin(new) < vmin(old):
        out[0] = (-INF, out[0][1])
    if len(out) > 4:
        out = [(out[0][0], out[-1][1])]
    return norm(out)


def conv(v, qt):
    qt = qt.replace("const ", "").strip()
    if qt in ("_Bool", "bool"):
        t = truth(v)
        return ex(1) if t is True else ex(0) if t is False else B01
    if qt == "unsigned char":
        if is_exact(v):
            return ex(v[0][0] & 0xff)
        return v if vmin(v) >= 0 and vmax(v) <= 255 else ((0, 255),)
    if qt in ("char", "signed char"):
        if is_exact(v):
            k = v[0][0] & 0xff
            return ex(k - 256 if k > 127 else k)
        return v if vmin(v) >= -128 and vmax(v) <= 127 else CHAR
    if qt.startswith("unsigned") or qt in ("size_t", "uint32_t", "uint64_t", "uint16_t", "uint8_t"):
        return v if vmin(v) >= 0 else ((0, INF),)
    return v


# ---- the domain --------------------------------------------------------------------------------
class PrefixDomain:
    widen_after = 5

    def __init__(self, eng, f, sid, prefix, idx_ids):
        self.eng, self.f, self.sid, self.prefix, self.idx = eng, f, sid, prefix, tuple(sorted(idx_ids))
        self.returns = []
        self.wrote = set()      # ids of pointer / array parameters this function may store through (on a reachable path)
        self.param_ids = {p["id"] for p in eng.prog.params(f)}

    # state = {key: env}
    def key(self, env):
        out = []
        for i in self.idx:
            v = env.get(i, TOP)
            if is_exact(v) and 0 <= v[0][0] < len(self.prefix):
                out.append(v[0][0])
            elif vmin(v) >= len(self.prefix):
                out.append("hi")
            else:
                out.append("mix")
        return tuple(out)

    def rekey(self, envs):
        out = {}
        for e in envs:
            k = self.key(e)
            out[k] = self._join_env(out[k], e) if k in out else e
        return out

    @staticmethod
    def _join_env(a, b):
        out = {}
        for k in set(a) | set(b):
            out[k] = vjoin(a.get(k, TOP), b.get(k, TOP)) if (k in a and k in b) else TOP
        return out

    def copy(self, s):
        return {k: dict(e) for k, e in s.items()}

    def join(self, a, b):
        return self.rekey(list(a.values()) + list(b.values()))

    def equal(self, a, b):
        return a == b

    def widen(self, old, new):
        out = {}
        for k, e in new.items():
            o = old.get(k)
            out[k] = e if o is None else {v: vwiden(o.get(v, ()), e[v]) for v in e}
        return out

    # ---- expressions -----------------------------------------------------------------------------
    def lv_key(self, e):
        e = strip(e, casts=True)
        if e.get("kind") == "DeclRefExpr" and e.get("referencedDecl", {}).get("kind") in ("VarDecl", "ParmVarDecl"):
            if "*" in qtype(e) or "[" in qtype(e):
                return None
            return e["referencedDecl"]["id"]
        if e.get("kind") == "UnaryOperator" and e.get("opcode") == "*":
            b = strip(kids(e)[0], casts=True)
            if b.get("kind") == "DeclRefExpr":
                return ("*", b["referencedDecl"]["id"])
        return None

    def ev(self, e, env):
        k = e.get("kind")
        ks = kids(e)
        if k in ("ParenExpr", "ConstantExpr"):
            return self.ev(ks[0], env)
        if k in ("IntegerLiteral", "CharacterLiteral"):
            return ex(int(e["value"]))
        if k in ("ImplicitCastExpr", "CStyleCastExpr"):
            v = self.ev(ks[0], env)
            ck = e.get("castKind")
            if ck in ("LValueToRValue", "NoOp"):
                return v
            if ck in ("IntegralCast", "IntegralToBoolean"):
                return conv(v, qtype(e))
            return TOP if "*" in qtype(e) else v
        if k == "DeclRefExpr":
            c = self.eng.ce.try_eval(e)
            if c is not None:
                return ex(c)
            key = self.lv_key(e)
            return env.get(key, TOP) if key is not None else TOP
        if k == "UnaryOperator":
            op = e.get("opcode")
            if op in ("++", "--"):
                key = self.lv_key(ks[0])
                old = self.ev(ks[0], env)
                new = vadd(old, ex(1 if op == "++" else -1))
                if key is not None:
                    env[key] = new
                return old if e.get("isPostfix") else new
            if op == "*":
                key = self.lv_key(e)
                if key is not None and key in env:
                    return env[key]
                b = strip(ks[0], casts=True)
                if b.get("kind") == "DeclRefExpr" and b["referencedDecl"]["id"] == self.sid:
                    return ex(self.prefix[0])
                self.ev(ks[0], env)
                return TOP
            if op == "&":
                return TOP
            v = self.ev(ks[0], env)
            if op == "!":
                t = truth(v)
                return ex(0) if t is True else ex(1) if t is False else B01
            if op == "-":
                return vneg(v)
            if op == "+":
                return v
            if op == "~" and is_exact(v):
                return ex(~v[0][0])
            return TOP
        if k == "BinaryOperator":
            op = e.get("opcode")
            if op == "=":
                v = self.ev(ks[1], env)
                key = self.lv_key(ks[0])
                if key is not None:
                    env[key] = conv(v, qtype(ks[0]))
                else:
                    self.ev_lhs(ks[0], env)
                return v
            if op == ",":
                self.ev(ks[0], env)
                return self.ev(ks[1], env)
            if op in ("&&", "||"):
                a = truth(self.ev(ks[0], env))
                if op == "&&" and a is False:
                    return ex(0)
                if op == "||" and a is True:
                    return ex(1)
                e2 = dict(env)
                b = truth(self.ev(ks[1], e2))
                if a is not None:
                    env.clear()
                    env.update(e2)
                else:
                    j = self._join_env(env, e2)
                    env.clear()
                    env.update(j)
                if op == "&&":
                    return ex(1) if (a is True and b is True) else ex(0) if b is False else B01
                return ex(0) if (a is False and b is False) else ex(1) if b is True else B01
            a, b = self.ev(ks[0], env), self.ev(ks[1], env)
            if op in ("<", "<=", ">", ">=", "==", "!="):
                return vcmp(op, a, b)
            if op == "+":
                return vadd(a, b)
            if op == "-":
                return vadd(a, vneg(b))
            if is_exact(a) and is_exact(b):
                c = self.eng.ce.try_eval(e)
                if c is not None:
                    return ex(c)
                x, y = a[0][0], b[0][0]
                try:
                    return ex({"*": lambda: x * y, "&": lambda: x & y, "|": lambda: x | y, "^": lambda: x ^ y,
                               "<<": lambda: x << y, ">>": lambda: x >> y}[op]())
                except Exception:
                    return TOP
            if op == "&" and is_exact(b) and b[0][0] >= 0:
                return ((0, b[0][0]),)
            return TOP
        if k == "CompoundAssignOperator":
            op = e.get("opcode")
            key = self.lv_key(ks[0])
            a, b = self.ev(ks[0], env), self.ev(ks[1], env)
            v = vadd(a, b) if op == "+=" else vadd(a, vneg(b)) if op == "-=" else TOP
            if key is not None:
                env[key] = v
            return v
        if k == "ArraySubscriptExpr":
            base = strip(ks[0], casts=True)
            idx = self.ev(ks[1], env)
            if base.get("kind") == "DeclRefExpr" and base.get("referencedDecl", {}).get("id") == self.sid:
                if is_exact(idx) and 0 <= idx[0][0] < len(self.prefix):
                    return ex(self.prefix[idx[0][0]])
                return CHAR
            if base.get("kind") == "DeclRefExpr" and env.get(("z", base.get("referencedDecl", {}).get("id"))) == ex(1):
                return ex(0)        # a zero-initialised local array nothing has stored into yet
            self.ev(ks[0], env)
            return CHAR if "char" in qtype(e) and "unsigned" not in qtype(e) else TOP
        if k == "ConditionalOperator":
            t = truth(self.ev(ks[0], env))
            if t is True:
                return self.ev(ks[1], env)
            if t is False:
                return self.ev(ks[2], env)
            e1, e2 = dict(env), dict(env)
            a, b = self.ev(ks[1], e1), self.ev(ks[2], e2)
            j = self._join_env(e1, e2)
            env.clear()
            env.update(j)
            return vjoin(a, b)
        if k == "CallExpr":
            return self.call(e, env)
        if k == "MemberExpr":
            return TOP
        if k in ("StringLiteral", "UnaryExprOrTypeTraitExpr"):
            c = self.eng.ce.try_eval(e)
            return ex(c) if c is not None else TOP
        c = self.eng.ce.try_eval(e)
        if c is not None:
            return ex(c)
        for c in ks:
            if isinstance(c, dict) and c.get("kind", "").endswith(("Expr", "Operator", "Literal")):
                self.ev(c, env)
        return TOP

    def ev_lhs(self, e, env):
        """side effects of evaluating an lvalue we do not track (filter_str[j++] = ...)"""
        e = strip(e, casts=True)
        if e.get("kind") in ("ArraySubscriptExpr", "UnaryOperator"):
            b = strip(kids(e)[0], casts=True)
            if b.get("kind") == "DeclRefExpr":
                bid = b.get("referencedDecl", {}).get("id")
                if bid in self.param_ids:
                    self.wrote.add(bid)
                env.pop(("z", bid), None)       # a local array that was all zero is no longer known to be
        if e.get("kind") == "ArraySubscriptExpr":
            self.ev(kids(e)[1], env)
            self.ev_lhs(kids(e)[0], env)
        elif e.get("kind") in ("MemberExpr", "UnaryOperator"):
            for c in kids(e):
                self.ev_lhs(c, env)

    def call(self, e, env):
        args = call_args(e)
        vals = [self.ev(a, env) for a in args]
        name = callee_name(e)
        # escaping locals / forwarded out-parameters become unknown
        for a in args:
            a0 = strip(a, casts=True)
            if a0.get("kind") == "UnaryOperator" and a0.get("opcode") == "&":
                key = self.lv_key(kids(a0)[0])
                if key is not None:
                    env[key] = TOP
            elif a0.get("kind") == "DeclRefExpr" and "*" in qtype(a0):
                key = ("*", a0["referencedDecl"]["id"])
                if key in env:
                    env[key] = TOP
        zargs = [(i, strip(a, casts=True)["referencedDecl"]["id"]) for i, a in enumerate(args)
                 if strip(a, casts=True).get("kind") == "DeclRefExpr" and ("z", strip(a, casts=True)["referencedDecl"]["id"]) in env]
        if name in self.eng.prog.functions:
            spos = [i for i, a in enumerate(args) if strip(a, casts=True).get("kind") == "DeclRefExpr" and
                    strip(a, casts=True)["referencedDecl"]["id"] == self.sid]
            if len(spos) == 1:
                r = self.eng.call_fn(name, spos[0], vals, self.prefix)
                wrote = self.eng.wrote.get((name, spos[0], self.prefix), None)
                ps = self.eng.prog.params(self.eng.prog.fn(name))
                for i, zid in zargs:
                    if wrote is None or (i < len(ps) and ps[i]["id"] in wrote):
                        env.pop(("z", zid), None)
                return r
        for i, zid in zargs:
            n_ = args[i]
            const = False
            while n_.get("kind") in ("ImplicitCastExpr", "CStyleCastExpr", "ParenExpr"):
                if "const" in qtype(n_):
                    const = True
                n_ = kids(n_)[0]
            if not const:
                env.pop(("z", zid), None)
        return TOP

    # ---- Flow interface --------------------------------------------------------------------------
    def eval(self, e, s):
        envs = []
        for env in s.values():
            env = dict(env)
            self.ev(e, env)
            envs.append(env)
        return self.rekey(envs)

    def eval_cond(self, e, s):
        return s

    def eval_ret(self, e, s):
        envs = []
        for env in s.values():
            env = dict(env)
            env["$ret"] = self.ev(e, env)
            envs.append(env)
        return self.rekey(envs)

    def ret(self, n, s):
        for env in s.values():
            self.returns.append((n, dict(env)))

    def decl(self, vd, s):
        init = [c for c in kids(vd)]
        envs = []
        for env in s.values():
            env = dict(env)
            qt = qtype(vd)
            if "[" in qt or "*" in qt or "struct" in qt:
                if init:
                    self.ev(init[-1], env) if init[-1].get("kind") != "InitListExpr" else None
                if "[" in qt and "char" in qt and init and init[-1].get("kind") == "InitListExpr" and \
                        all(self.eng.ce.try_eval(c) == 0 for c in kids(init[-1])):
                    env[("z", vd["id"])] = ex(1)
            else:
                env[vd["id"]] = conv(self.ev(init[-1], env), qt) if init else TOP
            envs.append(env)
        return self.rekey(envs)

    def _refine(self, atom, tr, env):
        a = strip(atom)
        if a.get("kind") == "BinaryOperator" and a.get("opcode") in NEG:
            op = a["opcode"] if tr else NEG[a["opcode"]]
            l, r = kids(a)
            for lhs, rhs, o in ((l, r, op), (r, l, SWAP[op])):
                key = self.lv_key(lhs)
                # a cast that changes the value (char -> unsigned char of a negative character) must not be looked through
                if key is not None and key in env and self.ev(lhs, dict(env)) != env[key]:
                    key = None
                if key is not None and key in env:
                    c = self.ev(rhs, dict(env))
                    env[key] = vmeet(env[key], allowed(o, c))
                    if not env[key]:
                        return None
            return env
        key = self.lv_key(a)
        if key is not None and key in env:
            env[key] = vmeet(env[key], allowed("!=" if tr else "==", ex(0)))
            if not env[key]:
                return None
        return env

    def assume(self, atom, tr, s):
        envs = []
        for env in s.values():
            env = dict(env)
            t = truth(self.ev(atom, env))
            if t is not None and t != tr:
                continue
            env = self._refine(atom, tr, env)
            if env is not None:
                envs.append(env)
        return self.rekey(envs) if envs else None

    def assume_case(self, cnd, case, s):
        envs = []
        for env in s.values():
            env = dict(env)
            v, c = self.ev(cnd, dict(env)), self.ev(case, dict(env))
            if not vmeet(v, c):
                continue
            key = self.lv_key(cnd)
            if key is not None and key in env:
                env[key] = vmeet(env[key], c)
            envs.append(env)
        return self.rekey(envs) if envs else None

    def assume_default(self, cnd, cases, s):
        envs = []
        for env in s.values():
            env = dict(env)
            v = self.ev(cnd, dict(env))
            for c in cases:
                cv = self.ev(c, dict(env))
                if is_exact(cv):
                    v = vmeet(v, allowed("!=", cv))
            if not v:
                continue
            key = self.lv_key(cnd)
            if key is not None and key in env:
                env[key] = v
            envs.append(env)
        return self.rekey(envs) if envs else None


class Engine:
    def __init__(self, prog):
        self.prog = prog
        self.ce = ConstEval(prog)
        self.memo = {}
        self.wrote = {}
        self.runs = 0

    def text_param(self, f):
        ps = [p for p in self.prog.params(f) if "char" in qtype(p) and "const" in qtype(p) and ("*" in qtype(p) or "[" in qtype(p))]
        return ps

    def index_vars(self, f, sid):
        ids = set()
        for m in walk(self.prog.body(f)):
            if m.get("kind") == "ArraySubscriptExpr":
                b = strip(kids(m)[0], casts=True)
                if b.get("kind") == "DeclRefExpr" and b.get("referencedDecl", {}).get("id") == sid:
                    for d in walk(kids(m)[1]):
                        if d.get("kind") == "DeclRefExpr" and d.get("referencedDecl", {}).get("kind") in ("VarDecl", "ParmVarDecl"):
                            ids.add(d["referencedDecl"]["id"])
        return ids

    def analyse(self, fname, spos, argvals, prefix):
        f = self.prog.fn(fname)
        ps = self.prog.params(f)
        sid = ps[spos]["id"]
        dom = PrefixDomain(self, f, sid, prefix, self.index_vars(f, sid))
        env = {}
        for i, p in enumerate(ps):
            qt = qtype(p)
            if i == spos:
                continue
            if "*" in qt or "[" in qt:
                env[("*", p["id"])] = TOP
            else:
                env[p["id"]] = argvals[i] if argvals and i < len(argvals) else TOP
        self.runs += 1
        Flow(dom).function(self.prog, f, dom.rekey([env]))
        return dom

    def call_fn(self, fname, spos, argvals, prefix):
        key = (fname, spos, tuple(argvals[:spos] + argvals[spos + 1:]), prefix)
        if key not in self.memo:
            self.memo[key] = None       # recursion guard: unknown
            dom = self.analyse(fname, spos, argvals, prefix)
            out = ()
            for _, env in dom.returns:
                out = vjoin(out, env.get("$ret", TOP))
            self.memo[key] = out or TOP
            self.wrote[(fname, spos, prefix)] = set(dom.wrote)
        return self.memo[key] if self.memo[key] is not None else TOP


# ---- character classes ----------------------------------------------------------------------------
def char_classes(prog, fnames):
    """cut -128..127 at every constant a character of the text is compared with; one representative per class"""
    ce = ConstEval(prog)
    cuts = {0}
    for fn in fnames:
        for m in walk(prog.body(prog.fn(fn))):
            if m.get("kind") == "BinaryOperator" and m.get("opcode") in NEG:
                for side in kids(m):
                    v = ce.try_eval(side)
                    if v is not None and -128 <= v <= 255:
                        cuts.add(v if v < 128 else v - 256)
                        cuts.add(v) if v < 128 else None
            if m.get("kind") == "CaseStmt":
                v = ce.try_eval(kids(m)[0])
                if v is not None and -128 <= v <= 127:
                    cuts.add(v)
    cuts = sorted(cuts)
    classes = []      # (lo, hi, representative)
    prev = -129
    for c in cuts:
        if c - 1 > prev:
            classes.append((prev + 1, c - 1, prev + 1 if prev + 1 != 0 else c - 1))
        classes.append((c, c, c))
        prev = c
    if prev < 127:
        classes.append((prev + 1, 127, prev + 1))
    return classes


def cname(c):
    lo, hi, _ = c
    def one(v):
        return {0: "NUL", 10: "LF", 13: "CR", 32: "SP", 9: "TAB"}.get(v, "'%s'" % chr(v) if 33 <= v < 127 else str(v))
    return one(lo) if lo == hi else "%s..%s" % (one(lo), one(hi))


# contract (properties C16/C06 anchors: "filter: ... comment/CR/LF/% termination"): the characters that start a comment/macro tail
COMMENT_INTRO = (ord(";"), ord("%"))


def scanner_facts(prog, roles):
    """per (c0, c1) class pair: filter result and (status, consumed) pairs of the line parser"""
    eng = Engine(prog)
    lp = prog.fn(roles.line_parser)
    tps = eng.text_param(lp)
    if len(tps) != 1:
        raise AnalysisBroken("line parser %s: raw text parameter not identified" % roles.line_parser)
    ps = prog.params(lp)
    spos = [i for i, p in enumerate(ps) if p["id"] == tps[0]["id"]][0]
    outs = [p for p in ps if qtype(p).replace(" ", "") == "int*"]
    if len(outs) > 1:
        raise AnalysisBroken("line parser %s: consumed-length out-parameter not identified" % roles.line_parser)
    # two protocols: (status, *consumed) - or the consumed length is the return value and a negative value reports failure
    outkey = ("*", outs[0]["id"]) if outs else None
    if not outs and not qtype(lp).split("(")[0].strip() in ("int", "long", "ssize_t"):
        raise AnalysisBroken("line parser %s: neither an out-parameter nor an integer result carries the consumed length" % roles.line_parser)
    # the filter: callee of the line parser that receives the raw text
    filt = None
    for c in walk(prog.body(lp)):
        if c.get("kind") == "CallExpr" and callee_name(c) in prog.functions:
            for i, a in enumerate(call_args(c)):
                a0 = strip(a, casts=True)
                if a0.get("kind") == "DeclRefExpr" and a0["referencedDecl"]["id"] == tps[0]["id"]:
                    filt = (callee_name(c), i)
    if filt is None:
        raise AnalysisBroken("the filter called by %s was not found" % roles.line_parser)
    classes = char_classes(prog, [roles.line_parser, filt[0]])

    def query(cs):
        prefix = tuple(c[2] for c in cs)
        fret = eng.call_fn(filt[0], filt[1], [TOP] * len(prog.params(prog.fn(filt[0]))), prefix)
        dom = eng.analyse(roles.line_parser, spos, None, prefix)
        rets = []
        for n, env in dom.returns:
            rv = env.get("$ret", TOP)
            if outkey is not None:
                rets.append((loc_str(n), rv, env.get(outkey, TOP)))
            elif vmax(rv) < 0:
                rets.append((loc_str(n), ex(1), TOP))                      # a failing return
            else:
                rets.append((loc_str(n), ex(0) if vmin(rv) >= 0 else B01, vmeet(rv, ((0, INF),))))
        return {"filter": fret, "returns": rets}
    facts = {}
    for c0 in classes:
        for c1 in classes:
            facts[(c0, c1)] = query((c0, c1))
    return {"classes": classes, "facts": facts, "filter": filt[0], "line_parser": roles.line_parser, "out": outs[0]["name"] if outs else "<result>",
            "text": tps[0]["name"], "eng": eng, "query": query}


_CACHE = {}


def facts_for(prog, roles):
    k = id(prog)
    if k not in _CACHE:
        _CACHE[k] = scanner_facts(prog, roles)
    return _CACHE[k]


def _fmt(v):
    return "{" + ",".join("%s" % lo if lo == hi else "%s..%s" % (lo, hi) for lo, hi in v) + "}"


def filter_stop(sf):
    """classes c0 at which the filter stops without consuming anything, whatever follows"""
    return [c0 for c0 in sf["classes"] if all(sf["facts"][(c0, c1)]["filter"] == ex(0) for c1 in sf["classes"])]


def line_stop(sf):
    return [c for c in filter_stop(sf) if c[2] != 0 and c[2] not in COMMENT_INTRO]


def progress_rule(chk, prog, roles, rule="PROGRESS"):
    """whenever the text under the cursor is not NUL, a successful line-parser call consumes at least one character
    (otherwise the driver's loop never ends)"""
    sf = facts_for(prog, roles)
    lp = prog.fn(roles.line_parser)
    n = 0
    for c0 in sf["classes"]:
        if c0[2] == 0:
            continue
        worst = None
        for c1 in sf["classes"]:
            for where, ret, out in sf["facts"][(c0, c1)]["returns"]:
                if truth(ret) is True:
                    continue        # a failing status stops the driver
                n += 1
                if vmin(out) < 1 and worst is None:
                    worst = "text %s %s: the return at %s may leave *%s = %s" % (cname(c0), cname(c1), where, sf["out"], _fmt(out))
        chk.require(worst is None, rule, "%s/%s/first=%s" % (rule, roles.line_parser, cname(c0)), loc_str(lp),
                    "for text starting with %s every non-failing return of %s has consumed at least one character" % (cname(c0), roles.line_parser),
                    worst or "")
    chk.floor("non-failing (prefix, return) pairs of the line parser", n, 40)
    return n


def noswallow_rule(chk, prog, roles, rule="LINE"):
    """a line terminator ends the line: the text after it is left for the next call"""
    sf = facts_for(prog, roles)
    lp = prog.fn(roles.line_parser)
    fstop = filter_stop(sf)
    lstop = line_stop(sf)
    chk.analysed["filter_stops_at"] = [cname(c) for c in fstop]
    chk.analysed["line_terminators"] = [cname(c) for c in lstop]
    chk.require(any(c[2] == 10 for c in lstop), rule, "%s/LF-terminates" % rule, loc_str(prog.fn(sf["filter"])),
                "the filter stops at a line feed", "filter stops at %s" % [cname(c) for c in fstop])
    chk.require(any(c[2] == 0 for c in fstop), rule, "%s/NUL-terminates" % rule, loc_str(prog.fn(sf["filter"])),
                "the filter stops at the terminating NUL", "filter stops at %s" % [cname(c) for c in fstop])
    text = [c for c in sf["classes"] if c not in fstop]
    for c0 in lstop:
        worst = None
        for c1 in text:
            for where, ret, out in sf["facts"][(c0, c1)]["returns"]:
                if truth(ret) is True:
                    continue
                if vmax(out) > 1 and worst is None:
                    worst = "text %s %s: the return at %s may have consumed %s characters" % (cname(c0), cname(c1), where, _fmt(out))
        chk.require(worst is None, rule, "%s/terminator-alone/%s" % (rule, cname(c0)), loc_str(lp),
                    "a line consisting of the terminator %s consumes exactly that character (the instruction text after it is not swallowed)" % cname(c0),
                    worst or "")
    for c1 in lstop:
        worst = None
        for c0 in sf["classes"]:
            if c0[2] == 0:
                continue
            for c2 in text:
                for where, ret, out in sf["query"]((c0, c1, c2))["returns"]:
                    if truth(ret) is True:
                        continue
                    if vmax(out) > 2 and worst is None:
                        worst = "text %s %s %s: the return at %s may have consumed %s characters" % (cname(c0), cname(c1), cname(c2), where, _fmt(out))
        chk.require(worst is None, rule, "%s/stops-after/%s" % (rule, cname(c1)), loc_str(lp),
                    "whatever the first character, a terminator %s in second position followed by instruction text ends the line before that text" % cname(c1),
                    worst or "")
    chk.floor("line terminators recognised by the filter", len(lstop), 1)


def column_independence_rule(chk, prog, roles, rule="COLUMN"):
    """whether scanning continues never depends on the raw column (only on the character there and on the filtered length):
    otherwise inserting blanks changes where the line is cut"""
    sf = facts_for(prog, roles)
    n = 0
    for fn in (sf["filter"],):
        f = prog.fn(fn)
        tps = Engine(prog).text_param(f)
        if len(tps) != 1:
            raise AnalysisBroken("%s: raw text parameter not identified" % fn)
        sid = tps[0]["id"]
        idx = Engine(prog).index_vars(f, sid)
        ce = ConstEval(prog)
        for m in walk(prog.body(f)):
            if m.get("kind") in ("WhileStmt", "IfStmt", "DoStmt", "ForStmt", "ConditionalOperator", "SwitchStmt"):
                raw = m.get("inner", [])
                cond = {"WhileStmt": 0, "IfStmt": 0, "DoStmt": 1, "ForStmt": 2, "ConditionalOperator": 0, "SwitchStmt": 0}[m["kind"]]
                if cond >= len(raw) or not raw[cond]:
                    continue
                n += 1
                bad = []

                def scan(x, inside):
                    if x.get("kind") == "ArraySubscriptExpr":
                        b = strip(kids(x)[0], casts=True)
                        if b.get("kind") == "DeclRefExpr" and b.get("referencedDecl", {}).get("id") == sid:
                            return
                    if x.get("kind") == "DeclRefExpr" and x.get("referencedDecl", {}).get("id") in idx:
                        bad.append(x)
                    for c in kids(x):
                        scan(c, inside)
                scan(raw[cond], False)
                chk.require(not bad, rule, "%s/%s@%s" % (rule, fn, loc_str(m)), loc_str(m),
                            "in %s a condition refers to the raw-text cursor only as subscript of the text" % fn,
                            "%s uses the cursor %s as a value" % (expr_str(raw[cond])[:80], ref_name(bad[0]) if bad else ""))
    chk.floor("conditions of the filter", n, 6)


def driver_advance_rule(chk, prog, roles, rule="ADVANCE"):
    """the per-line loop runs while the character under the text cursor is not NUL and advances the cursor, unconditionally and
    exactly once per iteration, by the count the line parser reported"""
    drv = prog.fn(roles.driver)
    loop = None
    for m in walk(prog.body(drv)):
        if m.get("kind") in ("WhileStmt", "ForStmt", "DoStmt"):
            if any(c.get("kind") == "CallExpr" and callee_name(c) == roles.line_parser for c in walk(m)):
                loop = m
    if loop is None:
        raise AnalysisBroken("the per-line loop of %s was not found" % roles.driver)
    call = next(c for c in walk(loop) if c.get("kind") == "CallExpr" and callee_name(c) == roles.line_parser)
    cur = out = None
    for a in call_args(call):
        a0 = strip(a, casts=True)
        if a0.get("kind") == "DeclRefExpr" and "char" in qtype(a0) and "*" in qtype(a0):
            cur = a0["referencedDecl"]
        if a0.get("kind") == "UnaryOperator" and a0.get("opcode") == "&" and qtype(strip(kids(a0)[0])) == "int":
            out = strip(kids(a0)[0])["referencedDecl"]
    decl_of_count = None
    if out is None:
        # the consumed length is the call's result: the variable initialised / assigned from the call
        from .core import walk_with_parents
        for m, parents in walk_with_parents(loop):
            if m is call:
                for p in reversed(parents):
                    if p.get("kind") == "VarDecl" and qtype(p) in ("int", "long", "ssize_t"):
                        out = {"id": p["id"], "name": p["name"]}
                        decl_of_count = p
                        break
                    if p.get("kind") == "BinaryOperator" and p.get("opcode") == "=":
                        l = strip(kids(p)[0], casts=True)
                        if l.get("kind") == "DeclRefExpr":
                            out = l["referencedDecl"]
                            decl_of_count = p
                        break
    if cur is None or out is None:
        raise AnalysisBroken("%s: text cursor / consumed-length variable of the %s call not identified" % (roles.driver, roles.line_parser))
    raw = loop.get("inner", [])
    cond = raw[{"WhileStmt": 0, "DoStmt": 1, "ForStmt": 2}[loop["kind"]]]
    c = strip(cond) if cond else {}
    if c.get("kind") == "BinaryOperator" and c.get("opcode") == "!=" and ConstEval(prog).try_eval(kids(c)[1]) == 0:
        c = strip(kids(c)[0], casts=True)
    c = strip(c, casts=True)
    under = None
    if c.get("kind") == "UnaryOperator" and c.get("opcode") == "*":
        under = strip(kids(c)[0], casts=True)
    elif c.get("kind") == "ArraySubscriptExpr" and ConstEval(prog).try_eval(kids(c)[1]) == 0:
        under = strip(kids(c)[0], casts=True)
    chk.require(under is not None and under.get("referencedDecl", {}).get("id") == cur["id"], rule, "%s/loop-test" % rule, loc_str(loop),
                "the per-line loop continues exactly while the character under the cursor is not NUL", expr_str(cond) if cond else "no condition")
    body = kids(loop)[-1]
    top = kids(body) if body.get("kind") == "CompoundStmt" else [body]
    adv = []
    seen_call = False
    for st in top:
        if any(m is call for m in walk(st)):
            seen_call = True
        s0 = strip(st)
        ok = False
        if s0.get("kind") == "CompoundAssignOperator" and s0.get("opcode") == "+=":
            l, r = strip(kids(s0)[0], casts=True), strip(kids(s0)[1], casts=True)
            ok = l.get("referencedDecl", {}).get("id") == cur["id"] and r.get("referencedDecl", {}).get("id") == out["id"]
        if s0.get("kind") == "BinaryOperator" and s0.get("opcode") == "=":
            l, r = strip(kids(s0)[0], casts=True), strip(kids(s0)[1], casts=True)
            if l.get("referencedDecl", {}).get("id") == cur["id"] and r.get("kind") == "BinaryOperator" and r.get("opcode") == "+":
                ids = sorted(strip(x, casts=True).get("referencedDecl", {}).get("id", "") for x in kids(r))
                ok = ids == sorted([cur["id"], out["id"]])
        if ok:
            adv.append((st, seen_call))
    # `for (cur = text; *cur; cur += n)`: the increment part runs after the body of every iteration, `continue` included
    if loop["kind"] == "ForStmt" and len(raw) > 3 and raw[3]:
        s0 = strip(raw[3])
        if s0.get("kind") == "CompoundAssignOperator" and s0.get("opcode") == "+=":
            l, r = strip(kids(s0)[0], casts=True), strip(kids(s0)[1], casts=True)
            if l.get("referencedDecl", {}).get("id") == cur["id"] and r.get("referencedDecl", {}).get("id") == out["id"]:
                adv.append((raw[3], True))
    chk.require(len(adv) == 1 and adv[0][1], rule, "%s/once-unconditional" % rule, loc_str(adv[0][0]) if adv else loc_str(loop),
                "after the line-parser call the loop body advances the cursor by the reported count in one unconditional statement",
                "%d such statements at the top level of the loop body" % len(adv))
    # nobody else writes the cursor or the count inside the loop
    from . import eff as EFF
    others = []
    for a in EFF.accesses(body):
        n = strip(a.node)
        if n.get("kind") == "DeclRefExpr" and a.ctx in ("w", "rw", "addr"):
            i = n.get("referencedDecl", {}).get("id")
            if i == cur["id"] and not any(n is m for st, _ in adv for m in walk(st)):
                others.append(a)
            if i == out["id"] and not any(n is m for m in walk(call)) and not \
                    (decl_of_count is not None and any(n is m for m in walk(decl_of_count))):
                # a reset of the count to a constant at the top level of the body, before the call, is the same as declaring it there
                reset = False
                for st in top:
                    if any(m is call for m in walk(st)):
                        break
                    s1 = strip(st)
                    if s1.get("kind") == "BinaryOperator" and s1.get("opcode") == "=" and strip(kids(s1)[0], casts=True) is n and \
                            ConstEval(prog).try_eval(kids(s1)[1]) is not None:
                        reset = True
                if not reset:
                    others.append(a)
    chk.require(not others, rule, "%s/no-other-writer" % rule, loc_str(others[0].node) if others else loc_str(loop),
                "inside the loop the cursor is written only by that statement and the count only by the line parser",
                ", ".join("%s at %s" % (a.text, loc_str(a.node)) for a in others))


def comment_cannot_fail_rule(chk, prog, roles, rule="COMMENT"):
    """a line that starts with a comment introducer is skipped whatever follows: no return of the line parser reports failure"""
    sf = facts_for(prog, roles)
    lp = prog.fn(roles.line_parser)
    n = 0
    for c0 in sf["classes"]:
        if c0[2] not in COMMENT_INTRO:
            continue
        n += 1
        worst = None
        for c1 in sf["classes"]:
            for where, ret, out in sf["facts"][(c0, c1)]["returns"]:
                if truth(ret) is True and worst is None:
                    worst = "text %s %s: the return at %s reports failure" % (cname(c0), cname(c1), where)
        chk.require(worst is None, rule, "%s/%s" % (rule, cname(c0)), loc_str(lp),
                    "a line starting with %s is accepted whatever its tail contains (comment text is never inspected)" % cname(c0), worst or "")
    chk.floor("comment introducers the filter stops at", n, 1)


def room_only_when_emitting_rule(chk, prog, roles, rule="ROOMSKIP"):
    """the room check belongs to writing an instruction: in the driver it is made only where the line is known not to be a SKIP
    line (comment, blank, label), otherwise layout-only text fails near the end of a caller-supplied buffer"""
    from . import guards as GD
    skip = prog.enums.get("SKIP")
    if skip is None:
        raise AnalysisBroken("enumerator SKIP not found")
    n = 0
    for call, facts in GD.facts_at_calls(prog, roles.driver):
        if callee_name(call) != roles.room_check:
            continue
        n += 1
        ok = GD.holds(facts, lambda t: t.endswith(".key") or t.endswith("->key"), skip, False)
        chk.require(ok, rule, "%s/%s@%s" % (rule, roles.driver, loc_str(call)), loc_str(call),
                    "the driver checks for room only for a line that emits an instruction (its key is known not to be SKIP)",
                    "called for every line")
    chk.ok(rule, "%s/inventory" % rule, loc_str(prog.fn(roles.driver)), "room checks made directly in the driver: %d, each only for emitting lines" % n)
