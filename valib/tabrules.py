"""TAB engine, part 2: rules over the extracted tables.

T1   well-formedness of INSTR_TABLE as the lookup code needs it
T1e  exhaustiveness (every enumerator has a named row / table entry)
T2   agreement of every row with the x86 reference (ref/x86_reference.json)
FMT  operand-kind tuples accepted by a row are ones the ISA defines for it
T3   sibling consistency (needs no oracle)
T4   register table
NOP  NOP tables
"""
import json
import os
import re

from .core import VERIF, AnalysisBroken
from .macros import macro_values
from . import tables as T


def load_reference():
    with open(os.path.join(VERIF, "ref", "x86_reference.json")) as f:
        return json.load(f)


class Tab:
    """everything the table rules need, extracted once"""

    def __init__(self, prog):
        self.prog = prog
        self.rows = T.instr_table(prog)
        self.fmt = T.opd_format_table(prog)
        self.mk = T.Markers(prog)
        mv = macro_values(prog, ["GET_EN", "NA", "MAX_OPCODE_LEN", "MAX_INSTR_LEN", "LETTERS_IN_ALPHABET"])
        self.GET_EN, self.NA = mv["GET_EN"], mv["NA"]
        self.mv = mv
        self.dec = {r.idx: T.decode_row(r, self.mk, self.GET_EN, self.NA) for r in self.rows}
        self.ref = load_reference()
        e = prog.enums
        self.fmt_name = {}      # value -> enumerator name of operand_format
        mem = prog.enum_members("operand_format")
        if mem is None:
            raise AnalysisBroken("enum operand_format not found")
        for nm, v in mem:
            self.fmt_name.setdefault(v, nm)
        self.instr_enum = prog.enum_members("asm_instr")
        if self.instr_enum is None:
            raise AnalysisBroken("enum asm_instr not found")
        self.type_enum = dict(prog.enum_members("instr_type") or [])
        self.enc_enum = dict(prog.enum_members("operand_encoding") or [])

    def real_rows(self):
        """rows that describe instructions (not the three placeholders, not the terminator)"""
        return [r for r in self.rows if r.f["instr_size"] > 0 or r.instr_name]

    def fmts_of(self, r):
        """operand-format names a row accepts (NA entries dropped)"""
        out = []
        for v, ident in zip(r.opd_format, r.opd_format_ident + ["?"] * 8):
            if v == self.NA or ident == "NA":
                continue
            out.append(self.fmt_name.get(v, "?%d" % v))
        return out

    def kinds_of(self, r):
        """operand-kind strings a row accepts: every OPD_FORMAT_TABLE string that maps
        to one of the row's format values"""
        out = []
        for v, ident in zip(r.opd_format, r.opd_format_ident + ["?"] * 8):
            if v == self.NA or ident == "NA":
                continue
            for e in self.fmt:
                if e["val"] == v and e["ident"] != "opd_error" and e["str"] not in out:
                    out.append(e["str"])
        return out

    def is_vector(self, r):
        t = r.ident.get("type", "")
        return t.startswith("VECTOR") or self.dec[r.idx].get("vex") is not None

    def mnemonic(self, r):
        return r.ident.get("name")


# --------------------------------------------------------------------------
def t1_wellformed(chk, tab, select=lambda r: True, rule="T1"):
    rows = tab.rows
    NA = tab.NA
    where0 = rows[0].loc if rows else "src/instructions.c"
    # placeholders
    want = ["EOI", "LABEL", "SKIP"]
    for i, nm in enumerate(want):
        ok = (i < len(rows) and rows[i].ident.get("name") == nm and rows[i].f["name"] == i and not rows[i].instr_name)
        chk.require(ok, rule, "%s/placeholder/%s" % (rule, nm), rows[i].loc if i < len(rows) else where0,
                    "row %d is the %s placeholder (the parser uses the enumerator as an index)" % (i, nm),
                    "row %d is %s" % (i, rows[i].ident.get("name") if i < len(rows) else "missing"))
    terms = [r for r in rows if r.f["name"] == NA]
    chk.require(len(terms) == 1 and terms[0].idx == len(rows) - 1, rule, rule + "/terminator", rows[-1].loc,
                "exactly one terminator row (name == NA) and it is the last one",
                "terminator rows at %s of %d rows" % ([t.idx for t in terms], len(rows)))
    # names
    seen = {}
    maxlen = tab.mv["MAX_INSTR_LEN"]
    for r in rows[3:-1]:
        if not select(r):
            continue
        if r.instr_name:
            ok = re.match(r"^[a-z][a-z0-9]*$", r.instr_name) is not None and len(r.instr_name) < maxlen
            chk.require(ok, rule, "%s/name/%s" % (rule, r.instr_name), r.loc,
                        "mnemonic string is [a-z][a-z0-9]* and shorter than MAX_INSTR_LEN", repr(r.instr_name))
            chk.require(r.instr_name not in seen, rule, "%s/unique/%s" % (rule, r.instr_name), r.loc,
                        "mnemonic string occurs once", "also at %s" % seen.get(r.instr_name))
            seen[r.instr_name] = r.loc
    # contiguity of each enum value; first row of a group is named
    groups = {}
    prev = None
    for r in rows[3:-1]:
        nm = r.f["name"]
        if nm != prev:
            groups.setdefault(nm, []).append(r.idx)
        prev = nm
    for nm, starts in groups.items():
        r0 = rows[starts[0]]
        if not select(r0):
            continue
        ident = r0.ident.get("name")
        named_runs = [s for s in starts]
        # aliases (nop2..nop11) start new named rows inside one enum value: allowed when every row is named
        chk.require(len(named_runs) == 1, rule, "%s/contiguous/%s" % (rule, ident), r0.loc,
                    "all rows of enumerator %s are contiguous (the lookup scans while name == found)" % ident,
                    "runs start at rows %s" % starts)
        chk.require(bool(r0.instr_name), rule, "%s/first-named/%s" % (rule, ident), r0.loc,
                    "the first row of %s carries the mnemonic string" % ident, "first row has no string")
    # first-letter runs
    runs = {}
    prev = None
    for r in rows[3:-1]:
        if r.instr_name:
            c = r.instr_name[0]
            if c != prev:
                runs.setdefault(c, []).append(r.idx)
            prev = c
    for c, starts in sorted(runs.items()):
        chk.require(len(starts) == 1, rule, "%s/letter-run/%s" % (rule, c), rows[starts[-1]].loc,
                    "mnemonics starting with '%s' form one run (the first-letter index keeps one start per letter)" % c,
                    "runs start at rows %s (%s)" % (starts, [rows[s].instr_name for s in starts]))
    # cells
    fmt_vals = {e["val"] for e in tab.fmt}
    for r in rows[3:-1]:
        if not select(r):
            continue
        d = tab.dec[r.idx]
        key = "%s/cells/%s#%d" % (rule, r.ident.get("name"), _ordinal(tab, r))
        chk.require(not d["problems"], rule, key, r.loc, "opcode cells are well formed (one marker kind per cell, REX after "
                    "mandatory prefixes, op_offset_i inside instr_size on a plain/rd cell)", "; ".join(d["problems"]))
        chk.require(r.f["instr_size"] <= tab.mv["MAX_OPCODE_LEN"], rule, key + "/size", r.loc,
                    "instr_size fits the opcode array", "instr_size %d" % r.f["instr_size"])
        for v, ident in zip(r.opd_format, r.opd_format_ident):
            if ident == "NA":
                continue
            chk.require(v in fmt_vals and v >= 0, rule, key + "/fmt/" + ident, r.loc,
                        "operand format %s belongs to OPD_FORMAT_TABLE" % ident, "value %d" % v)


def _ordinal(tab, r):
    """position of the row among the rows of its enumerator (stable key that
    does not depend on the absolute index)"""
    n = 0
    i = r.idx - 1
    while i >= 0 and tab.rows[i].f["name"] == r.f["name"]:
        n += 1
        i -= 1
    return n


def rowkey(tab, r):
    return "%s#%d" % (r.ident.get("name"), _ordinal(tab, r))


def t1e_exhaustive(chk, tab, rule="T1e"):
    named = {r.instr_name: r for r in tab.rows if r.instr_name}
    skip = {"EOI", "LABEL", "SKIP"}
    n = 0
    for nm, v in tab.instr_enum:
        if nm in skip:
            continue
        n += 1
        r = named.get(nm)
        ok = r is not None and r.f["name"] == v
        chk.require(ok, rule, "%s/instr/%s" % (rule, nm), r.loc if r else "src/enums.h",
                    "enumerator %s has a row named \"%s\" carrying that enumerator" % (nm, nm),
                    "no such named row" if r is None else "row carries enumerator value %d" % r.f["name"])
    chk.floor("asm_instr enumerators", n, 180)
    byval = {}
    for e in tab.fmt:
        byval.setdefault(e["ident"], []).append(e)
    for nm, v in (tab.prog.enum_members("operand_format") or []):
        if nm == "opd_error":
            continue
        es = [e for e in tab.fmt if e["ident"] == nm]
        want = "" if nm == "n" else nm    # `n` is "no operands": the empty kind string
        ok = any(e["str"] == want for e in es)
        chk.require(ok, rule, "%s/format/%s" % (rule, nm), es[0]["loc"] if es else "src/instructions.c",
                    "operand format %s has an OPD_FORMAT_TABLE entry spelled \"%s\"" % (nm, want),
                    "entries %s" % [(e["str"]) for e in es])


# --------------------------------------------------------------------------
def _match_form(tab, r, F):
    """list of attribute mismatches between row r and reference form F"""
    d = tab.dec[r.idx]
    miss = []
    enc = r.ident.get("encode_operand")
    if F["enc"] == "-":
        if enc != "NA":
            miss.append("encoding class %s (none expected)" % enc)
    elif enc != F["enc"]:
        miss.append("encoding class %s != %s" % (enc, F["enc"]))
    if d["pfx"] != F["pfx"]:
        miss.append("mandatory prefix %s != %s" % (d["pfx"], F["pfx"]))
    if "vex" in F:
        v = d.get("vex")
        if not v:
            miss.append("not a VEX row")
        else:
            for k in ("pp", "map", "L"):
                if v[k] != F["vex"][k]:
                    miss.append("VEX.%s %s != %s" % (k, v[k], F["vex"][k]))
            rw, fw = v["W"], F["vex"]["W"]
            okw = (rw == fw or (fw == "ig" and rw in ("0", "ig")) or (fw == "0" and rw == "ig" and v["map"] == "0f"))
            if not okw:
                miss.append("VEX.W %s != %s" % (rw, fw))
            if rw == "ig" and v["map"] != "0f":
                miss.append("WIG with map %s: the 2-byte VEX form would drop the map" % v["map"])
            if v["rest"]:
                miss.append("stray descriptor bits %#x" % v["rest"])
    else:
        if d.get("vex"):
            miss.append("VEX row for a legacy encoding")
        if d["esc"] != F["esc"]:
            miss.append("escape bytes %s != %s" % (d["esc"], F["esc"]))
    op = int(F["op"], 16)
    sch = F["scheme"]
    wa, oi = d.get("width_at"), d.get("op_index")
    exp_cell, want_w, want_rd = op, False, False
    if sch == "wbit":
        want_w = True
    elif sch == "immgrp":
        exp_cell, want_w = 0x80, True
    elif sch == "imul3":
        exp_cell, want_w = op - 1, True
    elif sch == "shrdimm":
        exp_cell, want_w = op - 3, True
    elif sch == "movimm":
        want_w, want_rd = True, True
    elif sch == "rd":
        want_rd = True
    elif sch == "pushm":
        pass
    if d["op"] != exp_cell:
        miss.append("opcode cell %s != %#04x (%s scheme of opcode %#04x)" % (
            "%#04x" % d["op"] if d["op"] is not None else None, exp_cell, sch, op))
    if want_w and wa != oi:
        miss.append("op_offset_i %s does not select the opcode cell %s (%s scheme)" % (wa, oi, sch))
    if not want_w and wa is not None:
        miss.append("op_offset_i %s set on a fixed-width opcode" % wa)
    if want_rd != (d["rd"] == "op"):
        miss.append("+rd marker %s" % ("missing" if want_rd else "unexpected"))
    tail = list(d["tail"])
    if sch == "pushm":
        if tail != [("rd", 0x30)]:
            miss.append("push m: expected a 0x30+rd ModRM cell, got %s" % tail)
    else:
        want_tail = [int(t, 16) for t in F["tail"]]
        if tail != want_tail:
            miss.append("bytes after the opcode %s != %s" % (tail, want_tail))
        if d["modrm"] != F["modrm"]:
            miss.append("ModRM (REG cell) %s" % ("missing" if F["modrm"] else "unexpected"))
    if F["digit"] is not None and r.f["single_reg_r"] != F["digit"]:
        miss.append("/digit %s != /%d" % (r.f["single_reg_r"], F["digit"]))
    if F["ib"] is True and not d["ib"]:
        miss.append("imm8 marker missing")
    if F["ib"] is False and d["ib"]:
        miss.append("unexpected imm8 marker")
    if F.get("rex") and not d["rex"] and "vex" not in F:
        miss.append("REX marker missing")
    return miss


def match_row(tab, r):
    """(matching forms, best near-miss description) against the reference"""
    mn = tab.mnemonic(r)
    forms = tab.ref["forms"].get(mn)
    if forms is None:
        return None, None
    hits, best = [], None
    for F in forms:
        miss = _match_form(tab, r, F)
        if not miss:
            hits.append(F)
        elif best is None or len(miss) < len(best[1]):
            best = (F["id"], miss)
    return hits, best


def nop_len(instr_name):
    m = re.match(r"^nop(\d*)$", instr_name or "")
    if not m:
        return None
    return int(m.group(1)) if m.group(1) else 1


def t2_reference(chk, tab, select, rule="T2", fmt_rule=None):
    """every selected row encodes a form of its mnemonic; optionally (FMT) the
    operand kinds it accepts are ones the ISA defines for that form"""
    matched = unref = 0
    for r in tab.rows[3:-1]:
        if not select(r):
            continue
        mn = tab.mnemonic(r)
        key = "%s/row=%s" % (rule, rowkey(tab, r))
        if mn == "nop":
            n = nop_len(r.instr_name)
            want = tab.ref["nops"].get(str(n))
            got = ["%02x" % (c.value & 0xff) for c in r.opcode[:r.f["instr_size"]]]
            plain = all(c.value <= 0xff for c in r.opcode[:r.f["instr_size"]])
            chk.require(want is not None and plain and got == want and r.f["instr_size"] == n, rule, key + "/" + r.instr_name,
                        r.loc, "%s is the recommended %s-byte NOP" % (r.instr_name, n), "bytes %s size %d" % (got, r.f["instr_size"]))
            matched += 1
            continue
        hits, best = match_row(tab, r)
        if hits is None:
            unref += 1
            continue
        if not hits:
            chk.bad(rule, key, r.loc, "row encodes a form of %s as the ISA defines it" % mn,
                    "nearest form '%s': %s" % (best[0], "; ".join(best[1])) if best else "no form")
            continue
        matched += 1
        chk.ok(rule, key, r.loc, "row encodes form '%s' of %s" % (hits[0]["id"], mn))
        if fmt_rule:
            allowed = set()
            for F in hits:
                allowed |= set(F["fmts"])
            for f in tab.kinds_of(r):
                chk.require(f in allowed, fmt_rule, "%s/row=%s/%s" % (fmt_rule, rowkey(tab, r), f or "none"), r.loc,
                            "%s form '%s' is defined for operand kinds %s" % (mn, hits[0]["id"], sorted(allowed)),
                            "row also accepts '%s'" % f)
    return matched, unref


def fmt_only(chk, tab, select, rule="FMT"):
    """FMT without re-reporting T2: rows that match no form are skipped here
    (they are reported by the property that owns T2)"""
    n = 0
    for r in tab.rows[3:-1]:
        if not select(r):
            continue
        if tab.mnemonic(r) == "nop":
            hits = [{"fmts": [""], "id": "nop"}]
        else:
            hits, _ = match_row(tab, r)
        if not hits:
            continue
        allowed = set()
        for F in hits:
            allowed |= set(F["fmts"])
        for f in tab.kinds_of(r):
            n += 1
            chk.require(f in allowed, rule, "%s/row=%s/%s" % (rule, rowkey(tab, r), f or "none"), r.loc,
                        "%s form '%s' is defined for operand kinds %s" % (tab.mnemonic(r), hits[0]["id"], sorted(allowed)),
                        "row accepts operand kinds '%s'%s" % (f, " (no operand)" if f == "" else ""))
    return n


# --------------------------------------------------------------------------
def t3_siblings(chk, tab, rule="T3", parts=("alu", "shift", "cc")):
    rows = tab.rows
    by_mn = {}
    for r in rows[3:-1]:
        by_mn.setdefault(tab.mnemonic(r), []).append(r)
    # ALU group: rows of type OPERATION
    for mn, rs in sorted(by_mn.items()) if "alu" in parts else ():
        ops = [r for r in rs if r.ident.get("type") == "OPERATION"]
        if not ops:
            continue
        enc = {r.ident.get("encode_operand"): r for r in ops}
        if not {"MR", "RM", "M", "I"} <= set(enc):
            chk.bad(rule, "%s/alu/%s/shape" % (rule, mn), ops[0].loc, "ALU mnemonic has MR, RM, M(imm) and I(accumulator) rows",
                    "classes %s" % sorted(enc))
            continue
        a = tab.dec[enc["MR"].idx]["op"]
        b = tab.dec[enc["RM"].idx]["op"]
        c = tab.dec[enc["I"].idx]["op"]
        g = tab.dec[enc["M"].idx]["op"]
        k = enc["M"].f["single_reg_r"]
        ok = a is not None and b == a + 2 and c == a + 4 and g == 0x80 and a == 8 * k
        chk.require(ok, rule, "%s/alu/%s" % (rule, mn), enc["MR"].loc,
                    "ALU rows are 8k, 8k+2, 0x80 /k and 8k+4 for one k",
                    "MR %s RM %s M %s /%s I %s" % tuple("%#x" % x if isinstance(x, int) else x for x in (a, b, g, k, c)))
    # shift group
    shift_rows = [r for r in rows[3:-1] if r.ident.get("type") == "SHIFT"] if "shift" in parts else []
    wset = {tab.dec[r.idx].get("width_at") for r in shift_rows}
    if shift_rows:
      chk.require(len(wset) <= 1, rule, rule + "/shift/width", shift_rows[0].loc if shift_rows else "-",
                "all shift rows select the width the same way (same op_offset_i)",
                "op_offset_i values %s at %s" % (sorted(map(str, wset)), [rowkey(tab, r) for r in shift_rows if tab.dec[r.idx].get("width_at") is None]))
    for mn, rs in sorted(by_mn.items()) if "shift" in parts else ():
        sh = [r for r in rs if r.ident.get("type") == "SHIFT"]
        if not sh:
            continue
        digits = {r.f["single_reg_r"] for r in sh}
        chk.require(len(digits) == 1, rule, "%s/shift/%s/digit" % (rule, mn), sh[0].loc,
                    "all rows of %s use one /digit" % mn, "digits %s" % sorted(digits))
        opsq = [tab.dec[r.idx]["op"] for r in sh]
        okq = opsq[:2] == [0xd0, 0xc0] and (len(opsq) < 3 or opsq[2] == 0xd2)
        chk.require(okq, rule, "%s/shift/%s/opcodes" % (rule, mn), sh[0].loc,
                    "shift rows are D0 (by 1), C0 ib (by imm8), then optionally D2 (by cl)",
                    "opcodes %s" % ["%#x" % o if o is not None else None for o in opsq])
    # condition codes
    cc = tab.ref["cc"]
    fam = {"j": (0x80, ["0f"]), "set": (0x90, ["0f"]), "cmov": (0x40, ["0f"])}
    for suf, code in sorted(cc.items()) if "cc" in parts else ():
        for pre, (base, esc) in fam.items():
            rs = by_mn.get(pre + suf)
            if not rs:
                continue
            d0 = tab.dec[rs[0].idx]
            chk.require(d0["op"] == base + code and d0["esc"] == esc, rule, "%s/cc/%s%s" % (rule, pre, suf), rs[0].loc,
                        "%s%s uses condition code %#x" % (pre, suf, code), "opcode %s esc %s" % (d0["op"], d0["esc"]))
            if pre == "j" and len(rs) > 1:
                d1 = tab.dec[rs[1].idx]
                chk.require(d1["op"] == 0x70 + code and not d1["esc"], rule, "%s/cc/j%s/short" % (rule, suf), rs[1].loc,
                            "the rel8 row of j%s uses the same condition code" % suf, "opcode %s" % d1["op"])


def t3v_vector_siblings(chk, tab, rule="T3v"):
    rows = tab.rows
    by_mn = {}
    for r in rows[3:-1]:
        by_mn.setdefault(tab.mnemonic(r), []).append(r)
    for mn, rs in sorted(by_mn.items()):
        if not any(tab.is_vector(r) for r in rs):
            continue
        decs = [tab.dec[r.idx] for r in rs]
        vex_rows = [(r, d) for r, d in zip(rs, decs) if d.get("vex")]
        leg_rows = [(r, d) for r, d in zip(rs, decs) if not d.get("vex")]
        # v<X> vs <X>
        if vex_rows and mn.startswith("v") and mn[1:] in by_mn:
            lr = by_mn[mn[1:]][0]
            ld = tab.dec[lr.idx]
            for r, d in vex_rows:
                lmap = "".join(ld["esc"])
                lpp = ld["pfx"][0] if ld["pfx"] else "none"
                ok = d["op"] == ld["op"] and d["vex"]["map"] == lmap and d["vex"]["pp"] == lpp
                chk.require(ok, rule, "%s/legacy-twin/%s" % (rule, rowkey(tab, r)), r.loc,
                            "%s and %s share opcode byte, map and mandatory prefix" % (mn, mn[1:]),
                            "VEX %#x/%s/%s vs legacy %#x/%s/%s" % (d["op"], d["vex"]["map"], d["vex"]["pp"], ld["op"], lmap, lpp))
        # 128 / 256 twins
        if len(vex_rows) >= 2:
            groups = {}
            for r, d in vex_rows:
                groups.setdefault((r.ident.get("encode_operand"), d["op"]), []).append((r, d))
            for (enc, op), g in groups.items():
                if len(g) == 2:
                    (r1, d1), (r2, d2) = g
                    same = all(d1["vex"][k] == d2["vex"][k] for k in ("pp", "map", "W")) and d1["ib"] == d2["ib"]
                    chk.require(same and d1["vex"]["L"] != d2["vex"]["L"], rule, "%s/len-twin/%s" % (rule, rowkey(tab, r1)),
                                r1.loc, "the 128- and 256-bit rows of %s differ only in VEX.L" % mn,
                                "%s vs %s" % (d1["vex"], d2["vex"]))
        # MMX vs SSE twins
        if len(leg_rows) == 2 and not vex_rows:
            (r1, d1), (r2, d2) = leg_rows
            if d1["op"] == d2["op"] and d1["esc"] == d2["esc"]:
                ok = sorted([d1["pfx"], d2["pfx"]]) == [[], ["66"]]
                chk.require(ok, rule, "%s/mmx-twin/%s" % (rule, mn), r1.loc,
                            "the MMX and SSE rows of %s differ only in the 66 prefix" % mn, "%s vs %s" % (d1["pfx"], d2["pfx"]))
        # length implied by formats
        for r, d in vex_rows:
            fm = tab.fmts_of(r)
            wantL = 1 if any(f.startswith("y") or f.endswith("y") for f in fm) else 0 if any("v" in f for f in fm) else None
            if wantL is not None:
                chk.require(d["vex"]["L"] == wantL, rule, "%s/L/%s" % (rule, rowkey(tab, r)), r.loc,
                            "VEX.L matches the register class of the formats %s" % fm, "L=%d" % d["vex"]["L"])


# --------------------------------------------------------------------------
ARCH_REGS = {
    0: ("al", "", "ax", "eax", "rax"), 1: ("cl", "", "cx", "ecx", "rcx"), 2: ("dl", "", "dx", "edx", "rdx"),
    3: ("bl", "", "bx", "ebx", "rbx"), 4: ("spl", "ah", "sp", "esp", "rsp"), 5: ("bpl", "ch", "bp", "ebp", "rbp"),
    6: ("sil", "dh", "si", "esi", "rsi"), 7: ("dil", "bh", "di", "edi", "rdi"),
}
for _k in range(8, 16):
    ARCH_REGS[_k] = ("r%db" % _k, "", "r%dw" % _k, "r%dd" % _k, "r%d" % _k)


def t4_registers(chk, prog, rule="T4"):
    from .core import ConstEval, kids, qtype
    rt = T.reg_table(prog)
    consts = {}
    for nm in ("NO_PREFIX_COL", "REG_16BIT_COL", "REG_32BIT_COL", "REG_64BIT_COL", "VECTOR_128BIT_COL",
               "VECTOR_256BIT_COL", "NO_PREFIX_ROW", "VECTOR_ROW", "EXT_ROW"):
        g = prog.globals.get(nm)
        if g is None or not kids(g):
            raise AnalysisBroken("register table constant %s not found" % nm)
        consts[nm] = ConstEval(prog).eval(kids(g)[-1])
    col = {"8": 0, "8h": consts["NO_PREFIX_COL"], "16": consts["REG_16BIT_COL"], "32": consts["REG_32BIT_COL"],
           "64": consts["REG_64BIT_COL"], "xmm": consts["VECTOR_128BIT_COL"], "ymm": consts["VECTOR_256BIT_COL"]}
    ncols = len(rt[0]["names"])
    chk.require(sorted(col.values()) == list(range(ncols)), rule, rule + "/columns", "src/reg_parser.c",
                "the column constants name each of the %d columns once" % ncols, str(col))
    chk.require(consts["EXT_ROW"] == 8 and consts["VECTOR_ROW"] == 16 and consts["NO_PREFIX_ROW"] == 4, rule,
                rule + "/start-rows", "src/reg_parser.c", "scan start rows are 8 (r8..), 16 (vector), 4 (ah..)", str(consts))
    body = rt[:-1]
    chk.require(len(body) == 32 and rt[-1]["ident"] == "reg_error", rule, rule + "/shape", rt[0]["loc"],
                "32 register rows followed by the reg_error terminator", "%d rows, last %s" % (len(body), rt[-1]["ident"]))
    for k, row in enumerate(body):
        chk.require(row["gen_reg"] == k, rule, "%s/number/%d" % (rule, k), row["loc"],
                    "row %d carries register number %d" % (k, k), "gen_reg %d (%s)" % (row["gen_reg"], row["ident"]))
        names = row["names"] + [""] * 7
        if k < 16:
            a = ARCH_REGS[k]
            want = {col["8"]: a[0], col["8h"]: a[1], col["16"]: a[2], col["32"]: a[3], col["64"]: a[4], col["xmm"]: "", col["ymm"]: ""}
        else:
            n = k - 16
            want = {col["8"]: "", col["8h"]: "", col["16"]: "", col["32"]: "", col["64"]: "mm%d" % n if n < 8 else "",
                    col["xmm"]: "xmm%d" % n, col["ymm"]: "ymm%d" % n}
        for c, w in sorted(want.items()):
            chk.require(names[c] == w, rule, "%s/name/%d/%d" % (rule, k, c), row["loc"],
                        "register %d, column %d is \"%s\"" % (k, c, w), "\"%s\"" % names[c])
    # every scan str_to_reg can start ends at an empty cell inside the table
    for start, c in ((0, col["64"]), (consts["EXT_ROW"], col["32"]), (consts["EXT_ROW"], col["16"]), (consts["EXT_ROW"], col["8"]),
                     (consts["EXT_ROW"], col["64"]), (consts["VECTOR_ROW"], col["64"]), (consts["VECTOR_ROW"], col["xmm"]),
                     (consts["VECTOR_ROW"], col["ymm"]), (0, col["32"]), (0, col["8"]), (consts["NO_PREFIX_ROW"], col["8h"]),
                     (0, col["16"])):
        i = start
        while i < len(rt) and (rt[i]["names"] + [""] * 7)[c] != "":
            i += 1
        chk.require(i < len(rt), rule, "%s/scan/%d/%d" % (rule, start, c), rt[0]["loc"],
                    "the name scan from row %d in column %d reaches an empty cell inside the table" % (start, c),
                    "runs off the end of REG_TABLE")
    name_len = None
    rec = prog.records.get("reg_table")
    if rec:
        for f in kids(rec):
            if f.get("name") == "reg_conversion":
                m = re.search(r"\[(\d+)\]\[(\d+)\]", qtype(f))
                if m:
                    name_len = int(m.group(2))
    if name_len:
        longest = max(len(n) for row in rt for n in row["names"])
        chk.require(longest < name_len, rule, rule + "/name-fits", rt[0]["loc"],
                    "every register name fits its %d-byte cell with terminator" % name_len, "longest name %d" % longest)
    return len(body)


def nop_rules(chk, tab, prog, rule="NOP"):
    nt, n, where = T.nop_table(prog)
    ref = tab.ref["nops"]
    chk.floor("NOP table entries", len(nt), 11)
    for k, e in enumerate(nt):
        want = [int(b, 16) for b in ref.get(str(k + 1), [])]
        chk.require(e["explicit"] == k + 1 and e["declared"] == k + 1, rule, "%s/length/%d" % (rule, k + 1), e["loc"],
                    "entry %d of the padding table has exactly %d bytes" % (k, k + 1),
                    "%d initialisers, array of %s" % (e["explicit"], e["declared"]))
        chk.require(e["bytes"] == want, rule, "%s/bytes/%d" % (rule, k + 1), e["loc"],
                    "entry %d is the recommended %d-byte NOP" % (k, k + 1), " ".join("%02x" % b for b in e["bytes"]))
    return len(nt)


# ---------------------------------------------------------------------------------------------------------------------
# SIGNCMP: an ordering comparison on a table column is evaluated in the signedness the table was written for
# ---------------------------------------------------------------------------------------------------------------------

def _type_signedness(prog, tname):
    """'u' / 's' for the way a value of the named (field) type takes part in a comparison with an int constant (after the
    integer promotions); None if the name cannot be resolved"""
    from .core import qtype, walk
    t = tname.replace("const ", "").replace("enum ", "").strip()
    seen = 0
    while t in prog.typedefs and seen < 5:
        td = prog.typedefs[t]
        under = (td.get("type") or {}).get("desugaredQualType") or qtype(td)
        if under == t:
            break
        t = under.replace("enum ", "").strip()
        seen += 1
    if t in ("unsigned int", "unsigned", "unsigned long", "size_t", "uint32_t", "uint64_t", "unsigned long long"):
        return "u"
    if t in ("int", "long", "short", "char", "signed char", "unsigned char", "unsigned short", "_Bool", "bool", "uint8_t", "uint16_t",
             "int8_t", "int16_t", "int32_t", "int64_t", "long long"):
        return "s"
    # an enumeration: unsigned int unless one of its enumerators is negative (gcc and clang)
    mem = prog.enum_members(t)
    if mem:
        return "s" if min(v for _, v in mem) < 0 else "u"
    return None


def signcmp_rule(chk, tab, prog, rule="SIGNCMP"):
    """Cells such as NA (-1) sit in columns of enumeration type; `column > C` is then decided in unsigned arithmetic and is
    true for NA.  Changing the declared type of the column silently flips such tests.  For every ordering comparison of a
    table column with a constant, the truth value over all rows under the comparison's current signedness must equal the
    truth value under the signedness of the column type of the pinned tree (ref/schema.json)."""
    from .core import kids, strip, walk, qtype, expr_str, loc_str, ConstEval
    from . import schema as SC
    try:
        with open(SC.SCHEMA) as f:
            ref = {x[0]: x[1] for x in json.load(f)["structs"].get("instr_table", [])}
    except (OSError, ValueError, KeyError):
        raise AnalysisBroken("ref/schema.json has no instr_table")
    ce = ConstEval(prog)
    ops = {"<": lambda a, b: a < b, ">": lambda a, b: a > b, "<=": lambda a, b: a <= b, ">=": lambda a, b: a >= b}
    n = 0
    for fn, f in sorted(prog.lib_functions().items()):
        for m in walk(prog.body(f)):
            if m.get("kind") != "BinaryOperator" or m.get("opcode") not in ops:
                continue
            l, r = kids(m)
            for col, other, swapped in ((l, r, False), (r, l, True)):
                c0 = strip(col, casts=True)
                if c0.get("kind") != "MemberExpr" or "instr_table" not in qtype(strip(kids(c0)[0], casts=True)):
                    continue
                fld = c0.get("name")
                c = ce.try_eval(strip(other, casts=True))
                if c is None or fld not in ref:
                    continue
                n += 1
                cur = "u" if ("unsigned" in qtype(l) or "unsigned" in qtype(r)) else "s"
                was = _type_signedness(prog, ref[fld])
                key = "%s/%s/%s@%s" % (rule, fn, fld, loc_str(m))
                if was is None:
                    chk.broken(rule, key, loc_str(m), "the signedness of the pinned column type %s is known" % ref[fld], "cannot resolve the type")
                    continue
                if cur == was:
                    chk.ok(rule, key, loc_str(m), "`%s` is decided in the arithmetic (%s) the column %s was declared for" % (expr_str(m), "unsigned" if cur == "u" else "signed", fld))
                    continue
                op = m["opcode"]
                diff = []
                for row in tab.rows:
                    v = row.f.get(fld)
                    if v is None:
                        continue
                    def ev(sig):
                        a, b = (v & 0xffffffff, c & 0xffffffff) if sig == "u" else (v, c)
                        return ops[op](b, a) if swapped else ops[op](a, b)
                    if ev(cur) != ev(was):
                        diff.append(row.instr_name or str(row.idx))
                chk.require(not diff, rule, key, loc_str(m),
                            "`%s` gives every row the truth value it had with the column declared %s" % (expr_str(m), ref[fld]),
                            "now decided in %s arithmetic: differs for rows %s" % ("unsigned" if cur == "u" else "signed", sorted(set(diff))[:8]))
    return n
