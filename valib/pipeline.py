"""Role discovery in the assemble pipeline and the flow/effect rules built on it
(C06 C07 C08 C13 C14 C15 C16 C19)."""
from .core import (AnalysisBroken, ConstEval, kids, strip, walk, walk_with_parents, expr_str, loc_str, qtype, ref_name,
                   ref_decl, callee_name, call_args)
from . import eff as EFF
from .flow import Flow


class Roles:
    """functions located by what they do, with their current name only as a
    tie-breaker"""

    def __init__(self, prog):
        self.prog = prog
        self.g = EFF.call_graph(prog)
        lib = prog.lib_functions()
        # the encoder entry: the function with a (struct instr *, uint8_t *) signature that the emitters call
        cands = [n for n, f in lib.items() if f.get("storageClass") != "static" and
                 [qtype(p) for p in prog.params(f)] == ["struct instr *", "uint8_t *"]]
        self.encode = self._one(cands, "the encoder entry (struct instr *, uint8_t *)", prefer="assemble_asm")
        self.emitters = sorted(n for n in lib if self.encode in self.g.get(n, ()) and n != self.encode)
        # an emitter may be written on top of another one (the counting emitter calling the plain one): same kind of signature
        # (record and position pointer), calls an emitter
        def emitter_sig(f):
            ts = [qtype(p) for p in prog.params(f)]
            return "struct instr *" in ts and "unsigned int *" in ts
        direct = set(self.emitters)
        for n, f in lib.items():
            if n not in direct and n != self.encode and emitter_sig(f) and direct & set(self.g.get(n, ())) and \
                    all(emitter_sig(lib[e]) for e in direct & set(self.g.get(n, ()))):
                self.emitters.append(n)
        self.emitters = sorted(set(self.emitters))
        if len(self.emitters) < 2:
            raise AnalysisBroken("expected the per-instruction emitters calling %s, found %s" % (self.encode, self.emitters))
        # room check: called by every emitter, compares with buffer_len
        common = set.union(*[set(self.g[e]) for e in self.emitters])
        rc = [n for n in common if n in lib and any(a.field == "buffer_len" and a.ctx == "r" for a in EFF.accesses(prog.body(lib[n])))]
        self.room_check = self._one(rc, "the room check (called by the emitters, reads buffer_len)", prefer="check_len_or_resize")
        # driver: has a loop and calls all emitters (it may itself be one of them when the plain emitter was inlined into it)
        def has_loop(n):
            return any(m.get("kind") in ("WhileStmt", "ForStmt", "DoStmt") for m in walk(prog.body(lib[n])))
        dr = [n for n in lib if has_loop(n) and all(e in self.g.get(n, ()) for e in self.emitters if e != n) and
              len([e for e in self.emitters if e != n and e in self.g.get(n, ())]) >= 2]
        self.driver = self._one(dr, "the per-line driver (calls all emitters)", prefer="assemble_all")
        # padding writer: non-static function in the encoder's unit, called by an emitter, taking (uint8_t *, unsigned)
        pw = [n for n, f in lib.items() if n != self.encode and any(n in self.g[e] for e in self.emitters) and
              prog.params(f) and qtype(prog.params(f)[0]) in ("uint8_t *", "unsigned char *") and n != self.room_check]
        self.padder = self._one(pw, "the padding writer", prefer="nop_padding")
        # line parser: called by the driver with the address of the per-line record
        lp = []
        for c in walk(prog.body(lib[self.driver])):
            if c.get("kind") == "CallExpr" and callee_name(c) in lib and callee_name(c) not in self.emitters:
                if any(strip(a).get("kind") == "UnaryOperator" and strip(a).get("opcode") == "&" and
                       "struct instr" in qtype(strip(kids(strip(a))[0])) for a in call_args(c)):
                    lp.append(callee_name(c))
        self.line_parser = self._one(sorted(set(lp)), "the line parser (gets &record from the driver)", prefer="str_to_instr")
        # public assemble entries: non-static callers (transitively) of the driver that take the instance first
        self.entries = sorted(n for n, f in lib.items() if f.get("storageClass") != "static" and n != self.driver and
                              self.driver in EFF.reachable(self.g, [n]) and prog.params(f) and
                              "assemblyline" in qtype(prog.params(f)[0]))
        self.direct_entries = sorted(n for n in self.entries if self.driver in self.g[n])

    def _one(self, cands, what, prefer=None):
        cands = sorted(set(cands))
        if len(cands) == 1:
            return cands[0]
        if prefer in cands:
            return prefer
        raise AnalysisBroken("role not unique: %s -> %s" % (what, cands))

    def describe(self):
        return {"encoder": self.encode, "emitters": self.emitters, "room_check": self.room_check, "driver": self.driver,
                "padding_writer": self.padder, "line_parser": self.line_parser, "entries": self.entries}


INSTANCE_FIELDS_CONFIG = ("assembly_mode", "chunk_size", "assembly_opt", "debug", "external")
INSTANCE_FIELDS_RESULT = ("offset", "finalized", "buffer", "buffer_len")


def instance_fields(prog):
    rec = prog.records.get("assemblyline")
    if rec is None:
        raise AnalysisBroken("struct assemblyline not found")
    return [c["name"] for c in kids(rec) if c.get("kind") == "FieldDecl"]


# --------------------------------------------------------------------------
# save/restore discipline of configuration fields (C15)
# --------------------------------------------------------------------------

class SaveRestoreDomain:
    """state: {'dirty': frozenset(fields), 'saved': {var key: field}}"""

    def __init__(self, prog, fname, netdirty, inst_param):
        self.prog, self.fname = prog, fname
        self.netdirty = netdirty        # callee -> set of fields left dirty
        self.inst = inst_param
        self.rets = []
        self.config = set(INSTANCE_FIELDS_CONFIG)

    def copy(self, s):
        return {"dirty": s["dirty"], "saved": dict(s["saved"])}

    def join(self, a, b):
        saved = {k: v for k, v in a["saved"].items() if b["saved"].get(k) == v}
        return {"dirty": a["dirty"] | b["dirty"], "saved": saved}

    def equal(self, a, b):
        return a == b

    def widen(self, o, n):
        return n

    def _field_of(self, e):
        e = strip(e, casts=True)
        if e.get("kind") == "MemberExpr" and ref_name(kids(e)[0]) == self.inst and EFF.owner_field(e)[0] == "assemblyline":
            return e.get("name")
        return None

    def _is_whole(self, e):
        """`*inst`"""
        e = strip(e, casts=True)
        return e.get("kind") == "UnaryOperator" and e.get("opcode") == "*" and ref_name(strip(kids(e)[0], casts=True)) == self.inst

    def _snap_field(self, e, s):
        """`snapshot.field` of a local that was copied from the whole instance while that field was clean"""
        e = strip(e, casts=True)
        if e.get("kind") == "MemberExpr" and not e.get("isArrow"):
            b = strip(kids(e)[0], casts=True)
            if b.get("kind") == "DeclRefExpr":
                key = "s:" + b.get("referencedDecl", {}).get("id", "")
                if e.get("name") in s["saved"].get(key, ()):
                    return e.get("name")
        return None

    def decl(self, vd, s):
        init = kids(vd)
        if init:
            s = self.eval(init[-1], s)
            f = self._field_of(init[-1])
            if f in self.config and f not in s["dirty"]:
                s["saved"]["v:" + vd["id"]] = f
            elif self._is_whole(init[-1]):
                s["saved"]["s:" + vd["id"]] = frozenset(self.config - set(s["dirty"]))
            else:
                g = self._snap_field(init[-1], s)
                if g in self.config:
                    s["saved"]["v:" + vd["id"]] = g
        return s

    def eval(self, e, s):
        e0 = strip(e)
        if not e0:
            return s
        k = e0.get("kind")
        ks = kids(e0)
        if k in ("BinaryOperator", "CompoundAssignOperator") and e0.get("opcode", "").endswith("=") and \
                e0.get("opcode") not in ("==", "!=", "<=", ">="):
            s = self.eval(ks[1], s)
            f = self._field_of(ks[0])
            if e0.get("opcode") == "=" and self._is_whole(ks[0]):
                # `*inst = snapshot`: every field goes back to what the snapshot holds
                src = strip(ks[1], casts=True)
                key = "s:" + src.get("referencedDecl", {}).get("id", "") if src.get("kind") == "DeclRefExpr" else None
                clean = s["saved"].get(key) if key else None
                if clean is not None:
                    s["dirty"] = frozenset(set(s["dirty"]) - set(clean))
                else:
                    s["dirty"] = frozenset(self.config)
                return s
            if f in self.config:
                src = strip(ks[1], casts=True)
                key = None
                if src.get("kind") == "DeclRefExpr":
                    key = "v:" + src.get("referencedDecl", {}).get("id", "")
                if e0.get("opcode") == "=" and key and s["saved"].get(key) == f:
                    s["dirty"] = s["dirty"] - {f}
                elif e0.get("opcode") == "=" and self._snap_field(ks[1], s) == f:
                    s["dirty"] = s["dirty"] - {f}
                else:
                    s["dirty"] = s["dirty"] | {f}
            else:
                # a local receiving the current value of a clean field
                lhs = strip(ks[0], casts=True)
                if lhs.get("kind") == "DeclRefExpr" and e0.get("opcode") == "=":
                    key = "v:" + lhs.get("referencedDecl", {}).get("id", "")
                    g = self._field_of(ks[1])
                    if g in self.config and g not in s["dirty"]:
                        s["saved"][key] = g
                    elif self._snap_field(ks[1], s) in self.config:
                        s["saved"][key] = self._snap_field(ks[1], s)
                    else:
                        s["saved"].pop(key, None)
                    skey = "s:" + lhs.get("referencedDecl", {}).get("id", "")
                    if self._is_whole(ks[1]):
                        s["saved"][skey] = frozenset(self.config - set(s["dirty"]))
                    else:
                        s["saved"].pop(skey, None)
                elif lhs.get("kind") == "MemberExpr" and not lhs.get("isArrow"):
                    b = strip(kids(lhs)[0], casts=True)
                    if b.get("kind") == "DeclRefExpr":
                        skey = "s:" + b.get("referencedDecl", {}).get("id", "")
                        if skey in s["saved"]:
                            s["saved"][skey] = frozenset(set(s["saved"][skey]) - {lhs.get("name")})
            return s
        if k == "UnaryOperator" and e0.get("opcode") in ("++", "--"):
            f = self._field_of(ks[0])
            if f in self.config:
                s["dirty"] = s["dirty"] | {f}
            return s
        if k == "CallExpr":
            for a in call_args(e0):
                s = self.eval(a, s)
            cn = callee_name(e0)
            if cn in self.netdirty and any(ref_name(a) == self.inst for a in call_args(e0)):
                s["dirty"] = s["dirty"] | frozenset(self.netdirty[cn])
            return s
        for c in ks:
            s = self.eval(c, s)
        return s

    def assume(self, e, truth, s):
        return s

    def ret(self, n, s):
        self.rets.append((n, s))


def config_discipline(prog, roles):
    """netdirty[f] = configuration fields some return of f leaves modified, computed
    bottom-up over the call graph (functions taking the instance)"""
    lib = prog.lib_functions()
    takes = {n for n, f in lib.items() if prog.params(f) and "assemblyline" in qtype(prog.params(f)[0])}
    netdirty, details = {}, {}
    order = []
    seen = set()

    def visit(n):
        if n in seen:
            return
        seen.add(n)
        for c in sorted(roles.g.get(n, ())):
            if c in takes:
                visit(c)
        order.append(n)
    for n in sorted(takes):
        visit(n)
    for n in order:
        f = lib[n]
        inst = prog.params(f)[0]["name"]
        dom = SaveRestoreDomain(prog, n, netdirty, inst)
        end = Flow(dom).function(prog, f, {"dirty": frozenset(), "saved": {}})
        if end is not None:
            dom.rets.append((f, end))
        d = frozenset()
        for _, s in dom.rets:
            d |= s["dirty"]
        netdirty[n] = d
        details[n] = dom.rets
    return netdirty, details


# --------------------------------------------------------------------------
# GATE: every store into the buffer is preceded by a room check on the same position (C07)
# --------------------------------------------------------------------------

class GateDomain:
    """state: 'checked' | 'unchecked' (room checked since the position last changed)"""

    def __init__(self, prog, roles, fname, posparam):
        self.prog, self.roles, self.fname, self.pos = prog, roles, fname, posparam
        self.viol = []
        self.stores = []
        self.rets = []

    def copy(self, s):
        return s

    def join(self, a, b):
        return a if a == b else "unchecked"

    def equal(self, a, b):
        return a == b

    def widen(self, o, n):
        return n

    def decl(self, vd, s):
        for c in kids(vd):
            s = self.eval(c, s)
        if kids(vd) and self._room_call_on_pos(kids(vd)[-1]):
            return ("held", vd["name"])       # the result of the room check waits in a variable
        return s

    def _room_call_on_pos(self, e):
        e = strip(e, casts=True)
        if e.get("kind") == "CallExpr" and callee_name(e) == self.roles.room_check:
            args = call_args(e)
            return len(args) >= 2 and self._is_pos(args[1])
        return False

    def _is_pos(self, e):
        e = strip(e, casts=True)
        if e.get("kind") == "UnaryOperator" and e.get("opcode") == "*":
            return ref_name(kids(e)[0]) == self.pos
        return ref_name(e) == self.pos

    def eval_cond(self, e, s):
        return self.eval(e, s, in_cond=True)

    def eval(self, e, s, in_cond=False):
        e0 = strip(e)
        if not e0:
            return s
        k, ks = e0.get("kind"), kids(e0)
        if k == "CallExpr":
            for a in call_args(e0):
                s = self.eval(a, s)
                a0 = strip(a, casts=True)
                if a0.get("kind") == "UnaryOperator" and a0.get("opcode") == "&" and self._is_pos(kids(a0)[0]):
                    s = "unchecked"      # the callee may move the position
            cn = callee_name(e0)
            if cn in (self.roles.encode, self.roles.padder):
                self.stores.append(e0)
                if s != "checked":
                    self.viol.append((e0, "%s() writes into the buffer but no room check on the current position dominates it" % cn))
            if cn == self.roles.room_check and not in_cond:
                pass        # result discarded: not a gate
            return s
        if k in ("BinaryOperator", "CompoundAssignOperator") and e0.get("opcode", "").endswith("=") and \
                e0.get("opcode") not in ("==", "!=", "<=", ">="):
            s = self.eval(ks[1], s)
            if self._is_pos(ks[0]):
                s = "unchecked"
            elif e0.get("opcode") == "=" and strip(ks[0]).get("kind") == "DeclRefExpr" and self._room_call_on_pos(ks[1]):
                s = ("held", ref_name(strip(ks[0])))
            elif isinstance(s, tuple) and ref_name(strip(ks[0], casts=True)) == s[1]:
                s = "unchecked"
            return s
        if k == "UnaryOperator" and e0.get("opcode") in ("++", "--") and self._is_pos(ks[0]):
            return "unchecked"
        for c in ks:
            s = self.eval(c, s, in_cond)
        return s

    def assume(self, e, truth, s):
        e0 = strip(e)
        if isinstance(s, tuple):
            # the held status is tested: `v`, `!v` (through Flow), `v != 0`, `v == EXIT_SUCCESS`, ...
            e1 = strip(e0, casts=True)
            if e1.get("kind") == "DeclRefExpr" and ref_name(e1) == s[1]:
                return "checked" if not truth else s
            if e1.get("kind") == "BinaryOperator" and e1.get("opcode") in ("==", "!="):
                l, r = strip(kids(e1)[0], casts=True), strip(kids(e1)[1], casts=True)
                for a, b in ((l, r), (r, l)):
                    if a.get("kind") == "DeclRefExpr" and ref_name(a) == s[1]:
                        v = ConstEval(self.prog).try_eval(b)
                        passed = (v == 0 and ((e1["opcode"] == "==") == truth)) or (v not in (0, None) and ((e1["opcode"] == "!=") == truth))
                        return "checked" if passed else s
            return s
        # FAIL_IF(room_check(al, pos)): the check passed on the false branch
        if e0.get("kind") == "CallExpr" and callee_name(e0) == self.roles.room_check:
            args = call_args(e0)
            on_pos = len(args) >= 2 and self._is_pos(args[1])
            if not truth and on_pos:
                return "checked"
            return s
        if e0.get("kind") == "BinaryOperator" and e0.get("opcode") in ("==", "!="):
            l, r = strip(kids(e0)[0]), strip(kids(e0)[1])
            for a, b in ((l, r), (r, l)):
                if a.get("kind") == "CallExpr" and callee_name(a) == self.roles.room_check:
                    v = ConstEval(self.prog).try_eval(b)
                    args = call_args(a)
                    on_pos = len(args) >= 2 and self._is_pos(args[1])
                    passed = (v == 0 and ((e0["opcode"] == "==") == truth)) or (v not in (0, None) and ((e0["opcode"] == "!=") == truth))
                    if passed and on_pos:
                        return "checked"
        return s

    def ret(self, n, s):
        self.rets.append((n, s))


def position_of(prog, roles, em):
    """(name, is_pointer_parameter) of the write position in an emitter: its `unsigned int *` parameter, or - in the driver when
    the plain emitter was inlined into it - the local whose address the driver hands to the other emitters"""
    f = prog.fn(em)
    cand = [p["name"] for p in prog.params(f) if qtype(p) == "unsigned int *"]
    if len(cand) == 1:
        return cand[0], True
    locs = set()
    for c in walk(prog.body(f)):
        if c.get("kind") == "CallExpr" and callee_name(c) in roles.emitters:
            for a in call_args(c):
                a0 = strip(a, casts=True)
                if a0.get("kind") == "UnaryOperator" and a0.get("opcode") == "&" and qtype(strip(kids(a0)[0])) == "unsigned int":
                    locs.add(ref_name(strip(kids(a0)[0])))
    if len(locs) == 1:
        return locs.pop(), False
    raise AnalysisBroken("emitter %s: position parameter not identified (%s)" % (em, [qtype(p) for p in prog.params(f)]))


def gate_rule(chk, prog, roles, rule="GATE"):
    lib = prog.lib_functions()
    n = 0
    for em in roles.emitters:
        f = lib[em]
        posname, _ = position_of(prog, roles, em)
        dom = GateDomain(prog, roles, em, posname)
        Flow(dom).function(prog, f, "unchecked")
        bad = {id(c): t for c, t in dom.viol}
        for c in {id(x): x for x in dom.stores}.values():
            n += 1
            chk.require(id(c) not in bad, rule, "%s/%s/%s" % (rule, em, callee_name(c)), loc_str(c),
                        "in %s the buffer write by %s() is dominated by a passed room check on the unchanged position" % (em, callee_name(c)),
                        bad.get(id(c)))
    chk.floor("buffer write sites in emitters", n, 4)
    return n


def encoder_idempotence_rule(chk, prog, roles, rule="IDEM"):
    """chunk fitting assembles the same record twice (once to measure, once after padding): every store the
    encoder makes into the per-line record must be idempotent (F = c, F &= c, F |= c with a constant c)"""
    lib = prog.lib_functions()
    enc = sorted(EFF.reachable(roles.g, [roles.encode]) & set(lib))
    n = 0
    ce = ConstEval(prog)
    for fn in enc:
        f = lib[fn]
        for m in walk(prog.body(f)):
            k = m.get("kind")
            tgt = None
            if k in ("BinaryOperator", "CompoundAssignOperator") and m.get("opcode", "").endswith("=") and m.get("opcode") not in ("==", "!=", "<=", ">="):
                tgt = strip(kids(m)[0])
            elif k == "UnaryOperator" and m.get("opcode") in ("++", "--"):
                tgt = strip(kids(m)[0])
            if tgt is None or tgt.get("kind") != "MemberExpr":
                continue
            owner, fld = EFF.owner_field(tgt)
            if owner not in ("instr", "prefix", "operand", "keywords"):
                continue
            n += 1
            ok = False
            if k != "UnaryOperator":
                c = ce.try_eval(kids(m)[1])
                ok = c is not None and m.get("opcode") in ("=", "&=", "|=")
            chk.require(ok, rule, "%s/%s/%s" % (rule, fn, expr_str(tgt)), loc_str(m),
                        "a store of the encoder into the per-line record is idempotent (the record is assembled again after padding)", expr_str(m))
    chk.floor("encoder stores into the record", n, 2)
    return n


def restore_rule(chk, prog, roles, rule="RESTORE", fields=None):
    """every return of the assemble entry points (and the helpers they reach) leaves the configuration fields as at entry"""
    netdirty, details = config_discipline(prog, roles)
    n = 0
    for fn in sorted(netdirty):
        if fn in roles.entries or fn == roles.driver or fn in roles.emitters or fn == roles.room_check:
            for r, s in details[fn]:
                n += 1
                d = s["dirty"] if fields is None else s["dirty"] & set(fields)
                chk.require(not d, rule, "%s/%s@%s" % (rule, fn, loc_str(r)), loc_str(r),
                            "every return of %s leaves the configuration fields (%s) as they were at entry" % (fn, ", ".join(fields or INSTANCE_FIELDS_CONFIG)),
                            "fields still modified on this path: %s" % sorted(d))
    return netdirty, n


class _OrderDomain:
    """state: frozenset of operand expressions (text) from which a derived value (the REX/VEX prefix bits) has been
    computed; a later call that rewrites that operand invalidates the derived value"""

    def __init__(self, prog, readers, writers):
        self.prog, self.readers, self.writers = prog, readers, writers
        self.viol = []
        self.nread = 0

    def copy(self, s): return s
    def join(self, a, b): return a | b
    def equal(self, a, b): return a == b
    def widen(self, o, n): return n

    def decl(self, vd, s):
        for c in kids(vd):
            s = self.eval(c, s)
        return s

    def eval(self, e, s):
        e0 = strip(e)
        if not e0 or s is None:
            return s
        if e0.get("kind") == "CallExpr":
            for a in call_args(e0):
                s = self.eval(a, s)
            cn = callee_name(e0)
            args = [expr_str(strip(a, casts=True)) for a in call_args(e0)]
            if cn in self.writers:
                idxs = self.writers[cn]
                for i in idxs:
                    tgt = args[i] if i < len(args) else None
                    if tgt in s:
                        self.viol.append((e0, "%s() rewrites %s after the prefix bits were derived from it" % (cn, tgt)))
                if not idxs and s:
                    # the writer addresses the operand by position (instr, m): any derived value is suspect
                    self.viol.append((e0, "%s() may rewrite the memory operand after the prefix bits were derived from it" % cn))
            if cn in self.readers:
                self.nread += 1
                s = s | frozenset(args[i] for i in self.readers[cn] if i < len(args))
            return s
        for c in kids(e0):
            s = self.eval(c, s)
        return s

    def assume(self, e, t, s): return s
    def ret(self, n, s): pass


def prefix_after_rewrite_rule(chk, prog, rule="ORDER"):
    """the REX/VEX extension bits are derived from the operands only after every rewriting of those operands
    (index/base swap, no-base rewriting): effect summaries decide who reads and who writes operand.reg/index"""
    lib = prog.lib_functions()
    g = EFF.call_graph(prog)
    fx = EFF.field_effects(prog, g)
    opfields = {("operand", "reg"), ("operand", "index")}

    def trans(fn, kind):
        out = set()
        for r in EFF.reachable(g, [fn]):
            if r in fx:
                out |= fx[r][kind]
        return out
    # readers: the functions whose result is stored into <record>.hex.rex (they derive R/X/B/W from the operands)
    readers, writers = {}, {}
    hosts = set()
    for fn, f in lib.items():
        for m in walk(prog.body(f)):
            if m.get("kind") in ("BinaryOperator", "CompoundAssignOperator") and m.get("opcode") in ("=", "|="):
                l, r = strip(kids(m)[0]), strip(kids(m)[1], casts=True)
                if l.get("kind") == "MemberExpr" and l.get("name") == "rex" and EFF.owner_field(l)[0] == "prefix" and \
                        r.get("kind") == "CallExpr" and callee_name(r) in lib:
                    cn = callee_name(r)
                    ps = prog.params(lib[cn])
                    readers[cn] = [i for i, p in enumerate(ps) if qtype(p) == "struct operand *"]
                    hosts.add(fn)
    # writers: functions called by the same hosts that (transitively) write operand.reg / operand.index
    for h in hosts:
        for c in walk(prog.body(lib[h])):
            if c.get("kind") == "CallExpr" and callee_name(c) in lib and callee_name(c) not in readers:
                cn = callee_name(c)
                if trans(cn, "w") & opfields:
                    ps = prog.params(lib[cn])
                    writers[cn] = [i for i, p in enumerate(ps) if qtype(p) == "struct operand *"]
    if not readers:
        chk.broken(rule, rule + "/readers", "-", "the function deriving REX bits from operands is visible", "none found")
        return
    chk.analysed["prefix_readers"] = sorted(readers)
    chk.analysed["operand_rewriters"] = sorted(writers)
    n = 0
    for fn, f in sorted(lib.items()):
        if fn in readers or fn in writers:
            continue
        if not any(c.get("kind") == "CallExpr" and callee_name(c) in readers for c in walk(prog.body(f))):
            continue
        dom = _OrderDomain(prog, readers, writers)
        Flow(dom).function(prog, f, frozenset())
        n += dom.nread
        seen = set()
        for node, text in dom.viol:
            key = "%s/%s/%s" % (rule, fn, callee_name(node))
            if key not in seen:
                seen.add(key)
                chk.bad(rule, key, loc_str(node), "in %s the prefix bits are derived after the operand's final rewriting" % fn, text)
        if not dom.viol:
            chk.ok(rule, "%s/%s" % (rule, fn), loc_str(f), "in %s no operand is rewritten after the prefix bits were derived from it" % fn)
    chk.floor("prefix derivation sites", n, 4)


# --------------------------------------------------------------------------
# OUTKILL: a decision stored through an out-parameter is not overwritten unread (C02 C16)
# --------------------------------------------------------------------------

def _outparam_writes(prog, f, pname):
    """(kills at entry, writes conditionally) for `*pname` in f"""
    body = prog.body(f)

    def is_store(m):
        if m.get("kind") == "BinaryOperator" and m.get("opcode") == "=":
            l = strip(kids(m)[0], casts=True)
            if l.get("kind") == "UnaryOperator" and l.get("opcode") == "*" and ref_name(strip(kids(l)[0], casts=True)) == pname:
                return not any(d.get("kind") == "DeclRefExpr" and ref_name(d) == pname for d in walk(kids(m)[1]))
        return False
    kills = False
    for st in kids(body):
        if st.get("kind") in ("IfStmt", "WhileStmt", "ForStmt", "DoStmt", "SwitchStmt", "ReturnStmt"):
            break
        if is_store(strip(st)):
            kills = True
            break
        if any(d.get("kind") == "DeclRefExpr" and ref_name(d) == pname for d in walk(st)):
            break       # read or handed on before being overwritten
    cond = False
    for m, parents in walk_with_parents(body):
        if is_store(m) and any(p.get("kind") in ("IfStmt", "WhileStmt", "ForStmt", "DoStmt", "SwitchStmt", "ConditionalOperator") for p in parents):
            cond = True
    return kills, cond


def outparam_kill_rule(chk, prog, rule="OUTKILL"):
    """when two calls in a row receive the address of the same local, the later callee must not start by overwriting what the
    earlier one may have decided: that decision would never be read (the calls are in the wrong order, or the reset is misplaced)"""
    lib = prog.lib_functions()
    n = 0
    for fn, f in sorted(lib.items()):
        for comp in walk(prog.body(f)):
            if comp.get("kind") != "CompoundStmt":
                continue
            seq = kids(comp)
            # (statement index, call, variable, callee parameter)
            uses = []
            for i, st in enumerate(seq):
                for c in walk(st):
                    if c.get("kind") == "CallExpr" and callee_name(c) in lib:
                        ps = prog.params(lib[callee_name(c)])
                        for p, a in zip(ps, call_args(c)):
                            a0 = strip(a, casts=True)
                            if a0.get("kind") == "UnaryOperator" and a0.get("opcode") == "&" and \
                                    strip(kids(a0)[0], casts=True).get("kind") == "DeclRefExpr" and "char" not in qtype(p):
                                uses.append((i, c, ref_name(strip(kids(a0)[0], casts=True)), p["name"]))
            for (i1, c1, v1, p1) in uses:
                for (i2, c2, v2, p2) in uses:
                    if v1 != v2 or i2 <= i1:
                        continue
                    # no reference to the variable in between
                    between = any(d.get("kind") == "DeclRefExpr" and ref_name(d) == v1 for st in seq[i1 + 1:i2] for d in walk(st))
                    if between:
                        continue
                    if any(u[2] == v1 and i1 < u[0] < i2 for u in uses):
                        continue
                    n += 1
                    k2, _ = _outparam_writes(prog, lib[callee_name(c2)], p2)
                    _, w1 = _outparam_writes(prog, lib[callee_name(c1)], p1)
                    chk.require(not (k2 and w1), rule, "%s/%s/%s/%s->%s" % (rule, fn, v1, callee_name(c1), callee_name(c2)), loc_str(c2),
                                "what %s() decides for %s is still there when it is used (%s() does not begin by resetting it)"
                                % (callee_name(c1), v1, callee_name(c2)),
                                "%s() stores into *%s under a condition and %s(), called next with the same variable, starts with an unconditional *%s = ..."
                                % (callee_name(c1), p1, callee_name(c2), p2))
    chk.floor("consecutive calls sharing an out-parameter", n, 2)
    return n


# --------------------------------------------------------------------------
# ZREAD: no field of the per-line record is read before anything can have written it
# --------------------------------------------------------------------------

def zero_read_rule(chk, prog, roles, rule="ZREAD"):
    """The per-line record starts as `{0}` for every line.  Walking the pipeline in program order from the driver (callees entered
    at their call sites, loop bodies taken twice, both branches of a choice taken one after the other so that what either may
    write counts as written), a scalar field of the record that is read at a point where no store to it - nor to anything whose
    address was handed out - can have happened yet is still its zero initialiser on every execution: the test or value that
    uses it is constant, which is never what the author meant (a field consulted before the stage that computes it)."""
    lib = prog.lib_functions()
    REC = ("instr", "operand", "keywords", "prefix")
    reports, nreads = [], [0]
    marked = set()

    def mark_bases(f):
        if id(f) in marked:
            return
        marked.add(id(f))
        for m in walk(prog.body(f)):
            if m.get("kind") == "MemberExpr" and kids(m):
                b = strip(kids(m)[0], casts=True)
                if b and b.get("kind") == "MemberExpr":
                    b["_base"] = True
                if b and b.get("kind") == "ArraySubscriptExpr":
                    bb = strip(kids(b)[0], casts=True)
                    if bb and bb.get("kind") == "MemberExpr":
                        bb["_base"] = True

    def scan(fn, written, depth, report):
        f = lib[fn]
        mark_bases(f)

        def visit(n, report):
            n0 = strip(n)
            if not n0:
                return
            k, ks = n0.get("kind"), kids(n0)
            if k in ("BinaryOperator", "CompoundAssignOperator") and n0.get("opcode", "").endswith("=") and \
                    n0.get("opcode") not in ("==", "!=", "<=", ">="):
                visit(ks[1], report)
                l = strip(ks[0])
                if l.get("kind") == "MemberExpr":
                    o, fl = EFF.owner_field(l)
                    for c in kids(l):
                        visit(c, report)
                    if o in REC:
                        written.add((o, fl))
                    return
                visit(ks[0], report)
                return
            if k == "UnaryOperator" and n0.get("opcode") in ("++", "--", "&"):
                l = strip(ks[0])
                if l.get("kind") == "MemberExpr":
                    o, fl = EFF.owner_field(l)
                    if o in REC:
                        written.add((o, fl))
                        for c in kids(l):
                            visit(c, report)
                        return
            if k == "MemberExpr":
                o, fl = EFF.owner_field(n0)
                if o == "keywords" and any(w[0] == "keywords" for w in written):
                    written.add((o, fl))        # the keyword flags overlay one another (union with is_keyword)
                if o in REC and not n0.get("_base") and "[" not in qtype(n0):
                    if report:
                        nreads[0] += 1
                    if (o, fl) not in written and report:
                        reports.append((fn, n0, o, fl))
                for c in ks:
                    visit(c, report)
                return
            if k == "CallExpr":
                for a in call_args(n0):
                    visit(a, report)
                cn = callee_name(n0)
                if cn in lib and depth < 8:
                    scan(cn, written, depth + 1, report)
                return
            if k == "VarDecl" and qtype(n0).replace("const ", "").strip() == "struct instr":
                written.clear()             # a fresh record: nothing of an earlier line is left
            if k in ("WhileStmt", "ForStmt", "DoStmt"):
                for c in ks:
                    visit(c, False)
                for c in ks:
                    visit(c, report)
                return
            for c in ks:
                visit(c, report)
        visit(prog.body(f), report)
    scan(roles.driver, set(), 0, True)
    seen = set()
    for fn, node, o, fl in reports:
        key = "%s/%s/%s.%s" % (rule, fn, o, fl)
        if key in seen:
            continue
        seen.add(key)
        chk.bad(rule, key, loc_str(node), "a field of the per-line record is read only after something can have stored into it",
                "%s is read in %s before any store to it can have run: it is always its zero initialiser here" % (expr_str(node), fn))
    if not reports:
        chk.ok(rule, rule + "/all", loc_str(prog.fn(roles.driver)), "%d reads of record fields, each preceded by a possible store" % nreads[0])
    chk.floor("reads of per-line record fields on the pipeline walk", nreads[0], 150)
    return nreads[0]
