"""STRB - bounds of reads and writes through pointers into NUL-terminated strings.

The tokeniser and the memory-operand scanners look around a cursor in a string
they only know to be NUL-terminated (`mem[i + 2]`, `mem[i - 2]`, `imme[2]`,
`mem[len - 1]`, `pointer++`).  None of these has a capacity the interval engine
(ABS) could compare with; what makes them safe is a fact relative to the
position of the terminator.  This engine is an abstract interpretation with

  * per integer variable: an interval and, per string S, an upper bound
    `v <= strlen(S) + c` (and equality `v == strlen(S) + c`);
  * per string: a lower bound on its length, the set of characters its first
    and its last character can be, and - per (string, cursor) - the characters
    the scanned prefix S[0..v-1] and the character S[v] can be;
  * a test `S[e] == c` with c != 0 proves e < strlen(S); one whose characters
    exclude every possible first (last) character proves e >= 1 (e <= len-2);
  * context-sensitive interprocedural analysis (a callee is analysed once per
    distinct abstract argument tuple, outcomes are kept apart per constant
    return value and rejoin the caller as separate disjuncts keyed by the
    struct fields they were stored to), flow-insensitive origin sets to decide
    which strings a store may modify.

Every read `S[e]` needs 0 <= e <= strlen(S); every write and every pointer
advance needs to stay strictly inside the string.  Strings that live in fixed
arrays are assumed NUL-terminated inside the array - that is ABS's STR rule.
"""
import re
from .core import (AnalysisBroken, ConstEval, kids, strip, walk, expr_str, loc_str, qtype, ref_name, callee_name, call_args)
from .flow import Flow
from . import eff as EFF

INF = float("inf")
ALLC = frozenset(range(-128, 128))
NEG = {"==": "!=", "!=": "==", "<": ">=", "<=": ">", ">": "<=", ">=": "<"}
SWAP = {"==": "==", "!=": "!=", "<": ">", "<=": ">=", ">": "<", ">=": "<="}
MAX_DEPTH = 40


def is_strptr(qt):
    qt = qt.replace("const ", "").strip()
    return qt in ("char *", "char *restrict") or re.match(r"^char \(\*\)", qt) is not None


def is_chararr(qt):
    return re.match(r"^(const )?char \[\d+\]$", qt.strip()) is not None


class SF:
    """facts about one string"""
    __slots__ = ("minlen", "first", "last")

    def __init__(self, minlen=0, first=ALLC, last=ALLC):
        self.minlen, self.first, self.last = minlen, first, last

    def key(self):
        return (self.minlen, self.first, self.last)

    def join(self, o):
        return SF(min(self.minlen, o.minlen), self.first | o.first, self.last | o.last)

    def __eq__(self, o):
        return isinstance(o, SF) and self.key() == o.key()

    def __hash__(self):
        return hash(self.key())

    def __repr__(self):
        def cs(s):
            if s == ALLC:
                return "*"
            if len(s) > 128:
                return "^" + "".join(chr(c) if 32 <= c < 127 else "\\x%02x" % (c & 0xff) for c in sorted(ALLC - s))
            return "".join(chr(c) if 32 <= c < 127 else "\\x%02x" % (c & 0xff) for c in sorted(s))
        return "<len>=%d first=%s last=%s>" % (self.minlen, cs(self.first), cs(self.last))


class AV:
    """integer value: interval plus bounds relative to string lengths"""
    __slots__ = ("lo", "hi", "ub", "eq")

    def __init__(self, lo=-INF, hi=INF, ub=None, eq=None):
        self.lo, self.hi, self.ub, self.eq = lo, hi, ub or {}, eq or {}

    def key(self):
        return (self.lo, self.hi, tuple(sorted(self.ub.items())), tuple(sorted(self.eq.items())))

    def __eq__(self, o):
        return isinstance(o, AV) and self.key() == o.key()

    def __hash__(self):
        return hash(self.key())

    def shift(self, k):
        return AV(self.lo + k, self.hi + k, {s: c + k for s, c in self.ub.items()}, {s: c + k for s, c in self.eq.items()})

    def exact(self):
        return self.lo == self.hi and self.lo not in (INF, -INF)

    def __repr__(self):
        r = "[%s,%s]" % (self.lo, self.hi)
        if self.eq:
            r += " ==len%+d" % list(self.eq.values())[0]
        elif self.ub:
            r += " <=len%+d" % min(self.ub.values())
        return r


TOPV = AV()
CHARV = AV(-128, 255)


def const(k):
    return AV(k, k)


class Env:
    __slots__ = ("iv", "sf", "cur", "pre", "fld", "alias", "calias")

    def __init__(self):
        self.iv, self.sf, self.cur, self.pre, self.fld = {}, {}, {}, {}, {}
        self.alias = {}         # pointer variable -> (base string, integer key or None, constant): p == base + key + constant
        self.calias = {}        # character variable -> (string, integer key or None, constant): c == string[key + constant]

    def copy(self):
        e = Env()
        e.iv, e.sf, e.cur, e.pre, e.fld = dict(self.iv), dict(self.sf), dict(self.cur), dict(self.pre), dict(self.fld)
        e.alias = dict(self.alias)
        e.calias = dict(self.calias)
        return e

    def key(self):
        return tuple(sorted((k, v) for k, v in self.fld.items()))

    def same(self, o):
        return self.iv == o.iv and self.sf == o.sf and self.cur == o.cur and self.pre == o.pre and self.fld == o.fld and \
            self.alias == o.alias and self.calias == o.calias


def mat(av, env):
    """materialise the bounds a finite interval implies"""
    if av.hi != INF:
        ub = dict(av.ub)
        for s, f in env.sf.items():
            if f is None:
                continue
            c = av.hi - f.minlen
            if c < ub.get(s, INF):
                ub[s] = c
        return AV(av.lo, av.hi, ub, av.eq)
    return av


def av_join(a, b, ea, eb):
    a, b = mat(a, ea), mat(b, eb)
    ub = {s: max(c, b.ub[s]) for s, c in a.ub.items() if s in b.ub}
    eq = {s: c for s, c in a.eq.items() if b.eq.get(s) == c}
    return AV(min(a.lo, b.lo), max(a.hi, b.hi), ub, eq)


def env_join(a, b):
    o = Env()
    for k in a.iv:
        if k in b.iv:
            o.iv[k] = av_join(a.iv[k], b.iv[k], a, b)
    for k in a.sf:
        if k in b.sf:
            o.sf[k] = None if (a.sf[k] is None or b.sf[k] is None) else a.sf[k].join(b.sf[k])
    for k in a.cur:
        if k in b.cur:
            o.cur[k] = a.cur[k] | b.cur[k]
    for k in a.pre:
        if k in b.pre:
            o.pre[k] = a.pre[k] | b.pre[k]
    for k in set(a.pre) ^ set(b.pre):
        if k[1] == "$g":        # characters a walking pointer has skipped: nothing skipped where the key is absent
            o.pre[k] = a.pre.get(k, frozenset()) | b.pre.get(k, frozenset())
    for k in a.fld:
        if k in b.fld and a.fld[k] == b.fld[k]:
            o.fld[k] = a.fld[k]
    for k in a.alias:
        if b.alias.get(k) == a.alias[k]:
            o.alias[k] = a.alias[k]
    for k in a.calias:
        if b.calias.get(k) == a.calias[k]:
            o.calias[k] = a.calias[k]
    return o


def env_widen(old, new):
    o = new.copy()
    for k, n in new.iv.items():
        p = old.iv.get(k)
        if p is None:
            continue
        lo = n.lo if n.lo >= p.lo else -INF
        hi = n.hi if n.hi <= p.hi else INF
        ub = {s: c for s, c in n.ub.items() if s in p.ub and c <= p.ub[s]}
        o.iv[k] = AV(lo, hi, ub, dict(n.eq))
    return o


# ---- origins ---------------------------------------------------------------------------------------
def origins(prog):
    """flow-insensitive: which objects may a char pointer variable point into"""
    org = {}
    lib = prog.lib_functions()

    def of(e, fn):
        e = strip(e, casts=True)
        k = e.get("kind")
        if k == "DeclRefExpr":
            d = e.get("referencedDecl", {})
            if is_chararr(qtype(e)) or "[" in qtype(e):
                return {("arr", fn if d.get("kind") != "VarDecl" or d.get("id") not in prog.global_ids else "", d.get("name"))}
            return set(org.get(d.get("id"), ()))
        if k == "MemberExpr":
            return {("fld", e.get("name"))}
        if k == "StringLiteral":
            return {("lit",)}
        if k == "BinaryOperator" and e.get("opcode") in ("+", "-"):
            return of(kids(e)[0], fn)
        if k == "UnaryOperator" and e.get("opcode") == "&":
            return of(kids(e)[0], fn)
        if k == "ArraySubscriptExpr":
            return of(kids(e)[0], fn)
        if k == "ConditionalOperator":
            return of(kids(e)[1], fn) | of(kids(e)[2], fn)
        if k == "CallExpr":
            cn = callee_name(e)
            a = call_args(e)
            if cn in ("strtok_r",):
                sv = strip(a[2], casts=True)
                svid = None
                if sv.get("kind") == "UnaryOperator" and sv.get("opcode") == "&":
                    svid = strip(kids(sv)[0], casts=True).get("referencedDecl", {}).get("id")
                src = of(a[0], fn)
                if svid:
                    if src - org.get(svid, set()):
                        org.setdefault(svid, set()).update(src)
                        changed[0] = True
                    return src | org.get(svid, set())
                return src
            if cn in ("strstr", "strchr", "strrchr", "strtok", "strpbrk"):
                return of(a[0], fn)
        return set()

    changed = [True]
    if not hasattr(prog, "global_ids"):
        prog.global_ids = set()
    rounds = 0
    while changed[0]:
        changed[0] = False
        rounds += 1
        if rounds > 50:
            raise AnalysisBroken("origin analysis did not converge")
        for fn, f in lib.items():
            for p in prog.params(f):
                if is_strptr(qtype(p)) and fn in prog.public_api and not org.get(p["id"]):
                    org.setdefault(p["id"], set()).add(("ext", fn, p["name"]))
                    changed[0] = True
            for m in walk(prog.body(f)):
                k = m.get("kind")
                if k == "VarDecl" and is_strptr(qtype(m)) and kids(m):
                    s = of(kids(m)[-1], fn)
                    if s - org.get(m["id"], set()):
                        org.setdefault(m["id"], set()).update(s)
                        changed[0] = True
                elif k == "BinaryOperator" and m.get("opcode") == "=":
                    l = strip(kids(m)[0], casts=True)
                    if l.get("kind") == "DeclRefExpr" and is_strptr(qtype(l)):
                        i = l["referencedDecl"]["id"]
                        s = of(kids(m)[1], fn)
                        if s - org.get(i, set()):
                            org.setdefault(i, set()).update(s)
                            changed[0] = True
                elif k == "CallExpr":
                    cn = callee_name(m)
                    if cn == "strtok_r":
                        of(m, fn)
                    if cn in lib:
                        ps = prog.params(lib[cn])
                        for p, a in zip(ps, call_args(m)):
                            if is_strptr(qtype(p)) or "char" in qtype(p) and "[" in qtype(p):
                                s = of(a, fn)
                                if s - org.get(p["id"], set()):
                                    org.setdefault(p["id"], set()).update(s)
                                    changed[0] = True
    return org


# ---- the domain ------------------------------------------------------------------------------------
class StrDomain:
    widen_after = 4

    def __init__(self, eng, fname, depth):
        self.eng, self.fname, self.depth = eng, fname, depth
        self.f = eng.prog.fn(fname)
        self.outcomes = []      # (return stmt, env)
        self.moved = set()      # string pointer variables that were re-pointed (their facts no longer describe the caller's string)
        self.walked = set()     # ... of which: only ever advanced one character at a time

    # state = list of Env (disjuncts with distinct fld keys)
    def rekey(self, envs):
        out = {}
        for e in envs:
            k = e.key()
            out[k] = env_join(out[k], e) if k in out else e
        return [out[k] for k in sorted(out, key=repr)]

    def copy(self, s):
        return [e.copy() for e in s]

    def join(self, a, b):
        return self.rekey(list(a) + list(b))

    def equal(self, a, b):
        return len(a) == len(b) and all(x.same(y) for x, y in zip(a, b))

    def widen(self, old, new):
        om = {e.key(): e for e in old}
        return [env_widen(om[e.key()], e) if e.key() in om else e for e in new]

    # ---- helpers -----------------------------------------------------------------------------------
    def sid(self, e):
        """id of the string pointer variable e refers to, or None"""
        e = strip(e, casts=True)
        if e.get("kind") == "DeclRefExpr" and e.get("referencedDecl", {}).get("kind") in ("VarDecl", "ParmVarDecl"):
            qt = qtype(e)
            if is_strptr(qt):
                return e["referencedDecl"]["id"]
        return None

    def ikey(self, e):
        """key of an integer lvalue we track"""
        e = strip(e, casts=True)
        k = e.get("kind")
        if k == "DeclRefExpr" and e.get("referencedDecl", {}).get("kind") in ("VarDecl", "ParmVarDecl"):
            qt = qtype(e)
            if "*" in qt or "[" in qt or "struct" in qt:
                return None
            return e["referencedDecl"]["id"]
        if k == "UnaryOperator" and e.get("opcode") == "*":
            b = strip(kids(e)[0], casts=True)
            if b.get("kind") == "DeclRefExpr" and "*" in qtype(b) and not is_strptr(qtype(b)) and "char" not in qtype(b):
                return ("*", b["referencedDecl"]["id"])
        return None

    def fpath(self, e):
        """textual path of a scalar struct field lvalue"""
        e = strip(e, casts=True)
        if e.get("kind") == "MemberExpr" and "[" not in qtype(e) and "*" not in qtype(e):
            return expr_str(e)
        return None

    def norm(self, av, env):
        lo = av.lo
        for s, c in av.eq.items():
            f = env.sf.get(s)
            if f is not None and f.minlen + c > lo:
                lo = f.minlen + c
        if lo != av.lo:
            return AV(lo, av.hi, av.ub, av.eq)
        return av

    def excess(self, av, s, env):
        f = env.sf.get(s)
        if f is None:
            return INF
        return min(av.ub.get(s, INF), av.eq.get(s, INF), av.hi - f.minlen)

    def ptr_sum(self, e, env):
        """e == S + a + b ...  ->  (string id, summed offset) or (None, None)"""
        e = strip(e, casts=True)
        off = None
        while e.get("kind") == "BinaryOperator" and e.get("opcode") == "+" and "*" in qtype(e):
            l, r = kids(e)
            if "*" not in qtype(strip(l, casts=True)) and "*" in qtype(strip(r, casts=True)):
                l, r = r, l
            v = self.ev(r, env)
            off = v if off is None else (off.shift(int(v.lo)) if v.exact() else v.shift(int(off.lo)) if off.exact() else AV(off.lo + v.lo, off.hi + v.hi))
            e = strip(l, casts=True)
        s = self.sid(e)
        if s is None or off is None:
            return None, None
        return s, off

    def ptr_alias(self, e, env):
        """e == S + v + c with one integer variable v (or none): (S, key of v, c); through an existing alias of S"""
        e = strip(e, casts=True)
        terms = []
        while e.get("kind") == "BinaryOperator" and e.get("opcode") == "+" and "*" in qtype(e):
            l, r = kids(e)
            if "*" not in qtype(strip(l, casts=True)) and "*" in qtype(strip(r, casts=True)):
                l, r = r, l
            terms.append(r)
            e = strip(l, casts=True)
        b = self.sid(e)
        if b is None:
            return None
        key, c = None, 0
        for t in terms:
            v = self.eng.ce.try_eval(t)
            if v is not None:
                c += v
                continue
            k2, c2 = self.varlike(t)
            if k2 is None or key is not None:
                return None
            key, c = k2, c + c2
        if b in env.alias:
            b0, k0, c0 = env.alias[b]
            if k0 is not None and key is not None:
                return None
            return (b0, key if key is not None else k0, c + c0)
        return (b, key, c)

    def through_alias(self, s, idx, env):
        """(base string, index into it) for an access S[idx] where S is a known alias base + v + c"""
        if s in env.alias:
            b, key, c = env.alias[s]
            off = self.norm(env.iv.get(key, TOPV), env).shift(c) if key is not None else const(c)
            if idx.exact():
                return b, off.shift(int(idx.lo))
            if off.exact():
                return b, idx.shift(int(off.lo))
            return b, AV(off.lo + idx.lo, off.hi + idx.hi)
        return s, idx

    def varlike(self, e):
        """e == var + k  ->  (ikey, k)"""
        e = strip(e, casts=True)
        k = self.ikey(e)
        if k is not None:
            return k, 0
        if e.get("kind") == "BinaryOperator" and e.get("opcode") in ("+", "-"):
            c = self.eng.ce.try_eval(kids(e)[1])
            kk = self.ikey(kids(e)[0])
            if c is not None and kk is not None:
                return kk, (c if e["opcode"] == "+" else -c)
        return None, 0

    def kill_var(self, key, env):
        for d in (env.cur, env.pre):
            for k in [k for k in d if k[1] == key]:
                del d[k]
        for p in [p for p, a in env.alias.items() if a[1] == key]:
            del env.alias[p]
        for p in [p for p, a in env.calias.items() if a[1] == key or p == key]:
            del env.calias[p]

    def kill_string(self, s, env, reset=True):
        """the contents / length of s may have changed"""
        for p in [p for p, a in env.calias.items() if a[0] == s]:
            del env.calias[p]
        if not reset:       # the pointer itself moved: nothing is an alias of it or through it any more
            for p in [p for p, a in env.alias.items() if p == s or a[0] == s]:
                del env.alias[p]
        for k, av in list(env.iv.items()):
            if s in av.ub or s in av.eq:
                env.iv[k] = AV(av.lo, av.hi, {x: c for x, c in av.ub.items() if x != s}, {x: c for x, c in av.eq.items() if x != s})
        for d in (env.cur, env.pre):
            for k in [k for k in d if k[0] == s]:
                del d[k]
        if reset and s in env.sf:
            env.sf[s] = SF()

    def clobber(self, s, env):
        """a store of unknown characters through s: every string that may share an object with s loses its facts"""
        org = self.eng.org
        os_ = org.get(s)
        for t in list(env.sf):
            ot = org.get(t)
            if t == s or not os_ or not ot or (os_ & ot):
                self.kill_string(t, env)

    def site(self, node, kind, ok, witness):
        self.eng.record(self.fname, node, kind, ok, witness)

    # ---- expressions -------------------------------------------------------------------------------
    def ev(self, e, env):
        k = e.get("kind")
        ks = kids(e)
        if k in ("ParenExpr", "ConstantExpr"):
            return self.ev(ks[0], env)
        if k in ("IntegerLiteral", "CharacterLiteral"):
            return const(int(e["value"]))
        if k in ("ImplicitCastExpr", "CStyleCastExpr"):
            v = self.ev(ks[0], env)
            ck = e.get("castKind")
            if ck in ("LValueToRValue", "NoOp"):
                return v
            if ck == "IntegralCast":
                qt = qtype(e).replace("const ", "")
                if qt.startswith("unsigned") or qt in ("size_t", "uint32_t", "uint64_t"):
                    v = self.norm(v, env)
                    if v.lo < 0:
                        return AV(0, INF)
                    if qt == "unsigned char":
                        return v if v.hi <= 255 else AV(0, 255)
                    return v
                if qt in ("char", "signed char"):
                    return v if (v.lo >= -128 and v.hi <= 127) else AV(-128, 127)
                return v
            if ck == "IntegralToBoolean":
                return AV(0, 1)
            return TOPV if "*" in qtype(e) else v
        if k == "DeclRefExpr":
            c = self.eng.ce.try_eval(e)
            if c is not None:
                return const(c)
            key = self.ikey(e)
            if key is not None:
                return self.norm(env.iv.get(key, TOPV), env)
            return TOPV
        if k == "MemberExpr":
            p = self.fpath(e)
            if p is not None and p in env.fld:
                return const(env.fld[p])
            for c in ks:
                self.ev(c, env)
            return TOPV
        if k == "UnaryOperator":
            op = e.get("opcode")
            if op in ("++", "--"):
                d = 1 if op == "++" else -1
                s = self.sid(ks[0])
                if s is not None:
                    self.advance(s, const(d), e, env)
                    return TOPV
                key = self.ikey(ks[0])
                old = self.ev(ks[0], env)
                new = old.shift(d)
                if key is not None:
                    self.set_int(key, new, env, delta=d)
                else:
                    self.store_other(ks[0], env)
                return old if e.get("isPostfix") else new
            if op == "*":
                s = self.sid(ks[0])
                if s is not None:
                    self.access(s, const(0), e, env, "read")
                    return CHARV
                key = self.ikey(e)
                if key is not None:
                    return self.norm(env.iv.get(key, TOPV), env)
                b = strip(ks[0], casts=True)
                if b.get("kind") == "BinaryOperator" and self.ptr_sum(b, env.copy())[0] is not None:
                    ps_, off = self.ptr_sum(b, env)
                    self.access(ps_, off, e, env, "read")
                    return CHARV
                self.ev(ks[0], env)
                return TOPV
            if op == "&":
                return TOPV
            v = self.ev(ks[0], env)
            if op == "-":
                return AV(-v.hi, -v.lo)
            if op == "+":
                return v
            if op == "!":
                return AV(0, 1)
            if op == "~" and v.exact():
                return const(~int(v.lo))
            return TOPV
        if k == "BinaryOperator":
            op = e.get("opcode")
            if op == "=":
                return self.assign(ks[0], ks[1], e, env)
            if op == ",":
                self.ev(ks[0], env)
                return self.ev(ks[1], env)
            if op in ("&&", "||"):
                self.ev(ks[0], env)
                e2 = env.copy()
                self.ev(ks[1], e2)
                j = env_join(env, e2)
                env.iv, env.sf, env.cur, env.pre, env.fld, env.alias, env.calias = j.iv, j.sf, j.cur, j.pre, j.fld, j.alias, j.calias
                return AV(0, 1)
            a, b = self.ev(ks[0], env), self.ev(ks[1], env)
            if op in NEG:
                return AV(0, 1)
            if op == "+":
                if b.exact():
                    return a.shift(int(b.lo))
                if a.exact():
                    return b.shift(int(a.lo))
                return AV(a.lo + b.lo, a.hi + b.hi)
            if op == "-":
                if b.exact():
                    return a.shift(-int(b.lo))
                return AV(a.lo - b.hi, a.hi - b.lo)
            if a.exact() and b.exact():
                c = self.eng.ce.try_eval(e)
                if c is not None:
                    return const(c)
            if op == "&" and b.exact() and b.lo >= 0:
                return AV(0, b.lo)
            if op == "%" and b.exact() and b.lo > 0 and a.lo >= 0:
                return AV(0, b.lo - 1)
            return TOPV
        if k == "CompoundAssignOperator":
            op = e.get("opcode")
            s = self.sid(ks[0])
            b = self.ev(ks[1], env)
            if s is not None:
                if op == "+=":
                    self.advance(s, b, e, env)
                else:
                    self.kill_string(s, env)
                return TOPV
            key = self.ikey(ks[0])
            a = self.ev(ks[0], env)
            if op == "+=":
                v = a.shift(int(b.lo)) if b.exact() else AV(a.lo + b.lo, a.hi + b.hi)
            elif op == "-=":
                v = a.shift(-int(b.lo)) if b.exact() else AV(a.lo - b.hi, a.hi - b.lo)
            else:
                v = TOPV
            if key is not None:
                self.set_int(key, v, env, delta=int(b.lo) if (b.exact() and op in ("+=",)) else None)
            else:
                self.store_other(ks[0], env)
            return v
        if k == "ArraySubscriptExpr":
            s = self.sid(ks[0])
            idx = self.ev(ks[1], env)
            if s is not None:
                self.access(s, idx, e, env, "read")
                return CHARV
            self.ev(ks[0], env)
            return CHARV if "char" in qtype(e) else TOPV
        if k == "ConditionalOperator":
            self.ev(ks[0], env)
            e1, e2 = env.copy(), env.copy()
            a, b = self.ev(ks[1], e1), self.ev(ks[2], e2)
            j = env_join(e1, e2)
            r = av_join(a, b, e1, e2)
            env.iv, env.sf, env.cur, env.pre, env.fld, env.alias, env.calias = j.iv, j.sf, j.cur, j.pre, j.fld, j.alias, j.calias
            return r
        if k == "CallExpr":
            return self.call(e, env)
        c = self.eng.ce.try_eval(e)
        if c is not None:
            return const(c)
        for c in ks:
            if isinstance(c, dict) and c.get("kind", "").endswith(("Expr", "Operator", "Literal")):
                self.ev(c, env)
        return TOPV

    def set_int(self, key, av, env, delta=None):
        env.iv[key] = av
        for p in [p for p, a in env.alias.items() if a[1] == key]:
            del env.alias[p]
        for p in [p for p, a in env.calias.items() if a[1] == key or p == key]:
            del env.calias[p]
        if env.fld and not isinstance(key, tuple):
            d = self.eng.prog.by_id.get(key)
            nm = d.get("name") if d else None
            for p in list(env.fld):
                if nm is None or re.search(r"(^|[^\w.>])%s\b" % re.escape(nm), p):
                    del env.fld[p]
        if delta == 1:
            # cursor moved one character forward: the character it was on joins the scanned prefix
            for (s, v) in [k for k in env.pre if k[1] == key]:
                env.pre[(s, v)] = env.pre[(s, v)] | env.cur.get((s, v), ALLC)
            for k in [k for k in env.cur if k[1] == key]:
                del env.cur[k]
        else:
            self.kill_var(key, env)
            if av.exact() and av.lo == 0:
                for s in env.sf:
                    env.pre[(s, key)] = frozenset()

    def store_other(self, lhs, env):
        """a store to something that is not a tracked scalar"""
        l = strip(lhs, casts=True)
        p = self.fpath(l)
        if p is not None:
            self.kill_field(p, env)

    def kill_field(self, p, env):
        last = re.split(r"\.|->", p)[-1]
        for q in list(env.fld):
            if re.split(r"\.|->", q)[-1] == last:
                del env.fld[q]

    def char_source(self, rhs, env):
        """rhs is a plain read S[v + c] / *S / *(S + c): (string, key, constant) through pointer aliases, else None"""
        r = strip(rhs, casts=True)
        s, idxn = None, None
        if r.get("kind") == "ArraySubscriptExpr" and self.sid(kids(r)[0]) is not None:
            s, idxn = self.sid(kids(r)[0]), kids(r)[1]
        elif r.get("kind") == "UnaryOperator" and r.get("opcode") == "*" and self.sid(kids(r)[0]) is not None:
            s, idxn = self.sid(kids(r)[0]), None
        if s is None:
            return None
        if idxn is None:
            key, k = None, 0
        else:
            c = self.eng.ce.try_eval(idxn)
            if c is not None:
                key, k = None, c
            else:
                key, k = self.varlike(idxn)
                if key is None:
                    return None
        if s in env.alias:
            b, akey, c0 = env.alias[s]
            if akey is not None and key is not None:
                return None
            return (b, key if key is not None else akey, k + c0)
        return (s, key, k)

    def assign(self, lhs, rhs, node, env):
        l = strip(lhs, casts=True)
        s = self.sid(l)
        if s is not None:
            self.assign_ptr(s, rhs, env)
            return TOPV
        v = self.ev(rhs, env)
        key = self.ikey(l)
        if key is not None:
            self.set_int(key, v, env)
            src = self.char_source(rhs, env) if "char" in qtype(l) else None
            if src is not None and src[1] != key:
                env.calias[key] = src
            return v
        p = self.fpath(l)
        if p is not None:
            for c in kids(l):
                self.ev(c, env)
            self.kill_field(p, env)
            if v.exact():
                env.fld[p] = int(v.lo)
            return v
        # store through a string pointer
        if l.get("kind") == "ArraySubscriptExpr" and self.sid(kids(l)[0]) is not None:
            s = self.sid(kids(l)[0])
            idx = self.ev(kids(l)[1], env)
            self.store(s, idx, v, l, env)
            return v
        if l.get("kind") == "UnaryOperator" and l.get("opcode") == "*" and self.sid(kids(l)[0]) is not None:
            self.store(self.sid(kids(l)[0]), const(0), v, l, env)
            return v
        if l.get("kind") in ("ArraySubscriptExpr", "MemberExpr", "UnaryOperator"):
            for c in kids(l):
                self.ev(c, env)
        return v

    def assign_ptr(self, s, rhs, env):
        r = strip(rhs, casts=True)
        if r.get("kind") == "BinaryOperator" and self.ptr_sum(r, env.copy())[0] == s:
            # p = p + n  is an advance of p
            _, n = self.ptr_sum(r, env)
            self.advance(s, n, r, env)
            return
        self.moved.add(s)
        self.walked.discard(s)
        for p in [p for p, a in env.alias.items() if p == s or a[0] == s]:
            del env.alias[p]
        self.kill_string(s, env)
        env.sf[s] = SF()
        if r.get("kind") == "CallExpr":
            self.call(r, env, into=s)
            return
        src = self.sid(r)
        if src is not None:
            env.sf[s] = env.sf.get(src, SF())
            return
        c = self.eng.ce.try_eval(r)
        if c == 0:
            env.sf[s] = None       # NULL
            return
        if r.get("kind") == "BinaryOperator" and self.ptr_sum(r, env.copy())[0] is not None:
            src, n = self.ptr_sum(r, env)
            env.sf[s] = env.sf.get(src, SF())
            self.advance(s, n, r, env, base=src)
            al = self.ptr_alias(r, env)
            if al is not None and s != al[0]:
                env.alias[s] = al
            return
        self.ev(rhs, env)

    # ---- accesses ----------------------------------------------------------------------------------
    def access(self, s, idx, node, env, kind):
        s, idx = self.through_alias(s, idx, env)
        f = env.sf.get(s, SF())
        if f is None:
            self.site(node, kind, False, "the pointer may be NULL here")
            return
        if s not in env.sf:
            env.sf[s] = f
        idx = self.norm(idx, env)
        ex = self.excess(idx, s, env)
        limit = 0 if kind == "read" else -1
        ok = idx.lo >= 0 and ex <= limit
        wit = "index %s, string %s" % (idx, f)
        if not ok:
            wit = ("index may be negative: " if idx.lo < 0 else "index may pass the terminator: ") + wit
        self.site(node, kind, ok, wit)

    def overlapping(self, s, env):
        org = self.eng.org
        os_ = org.get(s)
        out = []
        for t in set(env.sf) | {p["id"] for p in self.eng.prog.params(self.f) if is_strptr(qtype(p))}:
            ot = org.get(t)
            if t == s or not os_ or not ot or (os_ & ot):
                out.append(t)
        return out

    def effect(self, s, kind, env):
        eff = self.eng.effects.setdefault(self.fname, {})
        for t in self.overlapping(s, env):
            if kind == "clobber" or t not in eff:
                eff[t] = kind

    def store(self, s, idx, v, node, env):
        self.access(s, idx, node, env, "write")
        s, idx = self.through_alias(s, idx, env)
        f = env.sf.get(s)
        idx = self.norm(idx, env)
        inside = f is not None and idx.lo >= 0 and self.excess(idx, s, env) <= -1
        nonnul = v.lo > 0 or v.hi < 0
        if inside and nonnul and v.exact():
            c = int(v.lo)
            for t in self.overlapping(s, env):
                ft = env.sf.get(t)
                if ft is None:
                    continue
                if t == s:
                    env.sf[t] = SF(ft.minlen, ft.first | {c} if idx.lo == 0 else ft.first, ft.last | {c})
                else:
                    env.sf[t] = SF(ft.minlen, ft.first | {c}, ft.last | {c})
                for d in (env.cur, env.pre):
                    for k in [k for k in d if k[0] == t]:
                        d[k] = d[k] | {c}
                for p in [p for p, a in env.calias.items() if a[0] == t]:
                    del env.calias[p]
            self.effect(s, "content", env)
        else:
            self.effect(s, "clobber", env)
            self.clobber(s, env)

    def advance(self, s, n, node, env, base=None):
        """s (or base) + n becomes the new s: must stay within the string"""
        b = base if base is not None else s
        step1 = base is None and n.exact() and n.lo == 1 and (s not in self.moved or s in self.walked)
        self.moved.add(s)
        if step1:
            self.walked.add(s)
        else:
            self.walked.discard(s)
        f = env.sf.get(b, SF())
        if f is None:
            self.site(node, "advance", False, "the pointer may be NULL here")
            return
        ghost = env.pre.get((s, "$g"), frozenset()) | f.first
        n = self.norm(n, env)
        ex = self.excess(n, b, env)
        ok = n.lo >= 0 and ex <= 0
        self.site(node, "advance", ok, "advance by %s in string %s" % (n, f))
        self.kill_string(s, env, reset=False)
        if step1:
            env.pre[(s, "$g")] = ghost
        newmin = max(0, f.minlen - int(n.hi)) if n.hi != INF else 0
        keep_first = n.exact() and n.lo == 0
        env.sf[s] = SF(newmin, f.first if keep_first else ALLC, f.last)

    # ---- calls -----------------------------------------------------------------------------------------
    def call(self, e, env, into=None):
        name = callee_name(e)
        args = call_args(e)
        prog = self.eng.prog
        if name == "strlen":
            s = self.sid(args[0])
            if s is not None and env.sf.get(s, SF()) is not None:
                f = env.sf.get(s, SF())
                env.sf.setdefault(s, f)
                return AV(f.minlen, INF, {s: 0}, {s: 0})
            self.ev(args[0], env)
            return AV(0, INF)
        if name == "strtok_r":
            s = self.sid(args[0])
            delims = strip(args[1], casts=True)
            dset = None
            if delims.get("kind") == "StringLiteral":
                dset = frozenset(ord(c) for c in _lit(delims))
            if s is not None:
                self.effect(s, "clobber", env)
                self.clobber(s, env)
            else:
                # continuation call: the string being cut is whatever the save pointer came from
                sv = strip(args[2], casts=True)
                svid = strip(kids(sv)[0], casts=True).get("referencedDecl", {}).get("id") if sv.get("kind") == "UnaryOperator" else None
                os_ = self.eng.org.get(svid)
                for t in list(env.sf):
                    ot = self.eng.org.get(t)
                    if not os_ or not ot or (os_ & ot):
                        self.kill_string(t, env)
                        self.eng.effects.setdefault(self.fname, {})[t] = "clobber"
            if into is not None and dset is not None:
                nf = ALLC - dset - {0}
                env.sf[into] = SF(1, nf, nf)
            return TOPV
        if name in ("strstr", "strchr", "strrchr", "strcmp", "strncmp", "strtoul", "strtol", "atoi", "tolower", "toupper", "fprintf",
                    "printf", "strncpy", "memset", "memcpy", "free", "malloc", "calloc", "puts", "fputs"):
            for i, a in enumerate(args):
                a0 = strip(a, casts=True)
                ps_, off = self.ptr_sum(a0, env) if a0.get("kind") == "BinaryOperator" else (None, None)
                if ps_ is not None:
                    self.access(ps_, off, a0, env, "read")
                else:
                    self.ev(a, env)
                s = self.sid(a)
                if s is not None and env.sf.get(s, SF()) is None:
                    self.site(a0, "read", False, "a NULL pointer may be passed to %s" % name)
            if name in ("strncpy", "memset", "memcpy"):
                s = self.sid(args[0])
                if s is not None:
                    self.effect(s, "clobber", env)
                    self.clobber(s, env)
            return TOPV
        if name not in prog.lib_functions():
            for a in args:
                self.ev(a, env)
            return TOPV
        return self.call_lib(e, name, args, env, into)

    def call_lib(self, e, name, args, env, into):
        prog = self.eng.prog
        callee = prog.fn(name)
        ps = prog.params(callee)
        vals = []
        for p, a in zip(ps, args):
            a0 = strip(a, casts=True)
            if is_strptr(qtype(p)) or ("char" in qtype(p) and "[" in qtype(p)):
                s = self.sid(a0)
                if s is not None:
                    f = env.sf.get(s, SF())
                    vals.append(("s", s, f))
                elif a0.get("kind") == "BinaryOperator" and self.ptr_sum(a0, env.copy())[0] is not None:
                    b, n = self.ptr_sum(a0, env)
                    n = self.norm(n, env)
                    self.access(b, n, a0, env, "read")
                    f = env.sf.get(b, SF())
                    vals.append(("s", None, SF(max(0, f.minlen - int(n.hi)) if n.hi != INF else 0, ALLC, f.last)))
                else:
                    self.ev(a, env)
                    vals.append(("s", None, SF()))      # a fixed array / field: NUL-terminated by ABS's STR rule
            elif "*" in qtype(p) or "[" in qtype(p):
                self.ev(a, env) if a0.get("kind") != "UnaryOperator" else None
                vals.append(("p", a0, None))
            else:
                vals.append(("i", None, self.norm(self.ev(a, env), env)))
        # context: string facts, integer values with bounds expressed over the callee's string parameters
        smap = {}      # caller string id -> callee param id
        for p, v in zip(ps, vals):
            if v[0] == "s" and v[1] is not None and v[1] not in smap:
                smap[v[1]] = p["id"]
        ctx = []
        for p, v in zip(ps, vals):
            if v[0] == "s":
                ctx.append(("s", v[2].key() if v[2] is not None else None))
            elif v[0] == "i":
                av = mat(v[2], env)
                ctx.append(("i", av.lo, av.hi, tuple(sorted((smap[s], c) for s, c in av.ub.items() if s in smap)),
                            tuple(sorted((smap[s], c) for s, c in av.eq.items() if s in smap))))
            else:
                ctx.append(("p",))
        # scalar fields of structures handed on: rename the base variable to the callee's parameter
        fctx = []
        for p, a in zip(ps, args):
            a0 = strip(a, casts=True)
            if a0.get("kind") == "DeclRefExpr" and "struct" in qtype(p):
                base = ref_name(a0)
                for path, val in env.fld.items():
                    if re.match(r"^%s\b" % re.escape(base), path):
                        np = self._rename(path, args, ps)
                        if np is not None:
                            fctx.append((np, val))
        summ = self.eng.summary(name, tuple(ctx), tuple(sorted(fctx)), self.depth + 1)
        # effects on the caller
        wfields = self.eng.written_fields(name)
        for path in list(env.fld):
            if any(re.search(r"(\.|->)%s$" % re.escape(fl), path) for fl in wfields):
                del env.fld[path]
        if summ is None:        # recursion in progress / depth bound: forget everything the callee may touch
            for v in vals:
                if v[0] == "s" and v[1] is not None:
                    self.clobber(v[1], env)
                if v[0] == "p":
                    self._kill_out(v[1], env)
            return TOPV
        inv = {pid: sid_ for sid_, pid in smap.items()}
        for pid, effect in summ["effects"].items():
            if pid in inv:
                self.effect(inv[pid], effect, env)
                if effect == "clobber":
                    self.clobber(inv[pid], env)
                else:
                    # characters inside the string were overwritten: what was known about single characters is gone
                    for t in self.overlapping(inv[pid], env):
                        for p_ in [p_ for p_, a_ in env.calias.items() if a_[0] == t]:
                            del env.calias[p_]
                        for d in (env.cur, env.pre):
                            for k in [k for k in d if k[0] == t]:
                                del d[k]
                        if env.sf.get(t) is not None:
                            env.sf[t] = SF(env.sf[t].minlen, ALLC, ALLC)
            elif effect == "clobber":
                # the callee wrote through a pointer the caller passed as an array / field: strings of the same origin lose facts
                os_ = self.eng.org.get(pid)
                for t in list(env.sf):
                    ot = self.eng.org.get(t)
                    if not os_ or not ot or (os_ & ot):
                        self.kill_string(t, env)
        outs = summ["outcomes"]
        if not outs:
            return TOPV
        # join all outcomes into this environment unless they are distinguished by a constant return value that is stored into a field
        results = []
        for o in outs:
            e2 = env.copy()
            for pid, f in o["sf"].items():
                if pid in inv and summ["effects"].get(pid) != "clobber":
                    cur = e2.sf.get(inv[pid])
                    e2.sf[inv[pid]] = f
            for i, (p, v) in enumerate(zip(ps, vals)):
                if v[0] == "p":
                    tgt = v[1]
                    val = o["outs"].get(p["id"])
                    self._set_out(tgt, self._back(val, inv) if val is not None else None, e2)
            results.append((self._back(o["ret"], inv), e2))
        self._pending = results
        # merged view (used when the caller does not split)
        merged = results[0][1]
        rv = results[0][0]
        for r, e2 in results[1:]:
            rv = av_join(rv, r, merged, e2)
            merged = env_join(merged, e2)
        env.iv, env.sf, env.cur, env.pre, env.fld, env.alias, env.calias = merged.iv, merged.sf, merged.cur, merged.pre, merged.fld, merged.alias, merged.calias
        return rv

    def _rename(self, path, args, ps):
        """the caller's field path expressed over the callee's parameters; None unless every variable in it is handed on unchanged"""
        m = {}
        for p, a in zip(ps, args):
            a0 = strip(a, casts=True)
            if a0.get("kind") == "DeclRefExpr" and ref_name(a0) not in m:
                m[ref_name(a0)] = p["name"]
        ok = [True]

        def sub(mo):
            pre, ident = mo.group(1), mo.group(2)
            if pre in (".", ">"):
                return mo.group(0)
            if ident not in m:
                ok[0] = False
                return mo.group(0)
            return pre + m[ident]
        out = re.sub(r"(^|[^\w])([A-Za-z_]\w*)", sub, path)
        return out if ok[0] else None

    def _back(self, av, inv):
        if av is None:
            return TOPV
        return AV(av.lo, av.hi, {inv[s]: c for s, c in av.ub.items() if s in inv}, {inv[s]: c for s, c in av.eq.items() if s in inv})

    def _kill_out(self, a0, env):
        if a0 is not None and a0.get("kind") == "UnaryOperator" and a0.get("opcode") == "&":
            key = self.ikey(kids(a0)[0])
            if key is not None:
                env.iv[key] = TOPV
                self.kill_var(key, env)
            s = self.sid(kids(a0)[0])
            if s is not None:
                self.kill_string(s, env)
        elif a0 is not None and a0.get("kind") == "DeclRefExpr":
            key = ("*", a0["referencedDecl"]["id"])
            env.iv.pop(key, None)

    def _set_out(self, a0, val, env):
        self._kill_out(a0, env)
        if val is None:
            return
        if a0.get("kind") == "UnaryOperator" and a0.get("opcode") == "&":
            key = self.ikey(kids(a0)[0])
            if key is not None:
                env.iv[key] = val
        elif a0.get("kind") == "DeclRefExpr":
            env.iv[("*", a0["referencedDecl"]["id"])] = val

    # ---- Flow interface --------------------------------------------------------------------------------
    def eval(self, e, s):
        out = []
        for env in s:
            env = env.copy()
            self._pending = None
            top = strip(e)
            # `x->f = callee(...)`: keep the callee's outcomes apart, one disjunct per stored constant
            if top.get("kind") == "BinaryOperator" and top.get("opcode") == "=" and self.fpath(kids(top)[0]) is not None and \
                    strip(kids(top)[1], casts=True).get("kind") == "CallExpr":
                p = self.fpath(kids(top)[0])
                base = env.copy()
                self.ev(kids(top)[1], base)
                if self._pending:
                    for r, e2 in self._pending:
                        self.kill_field(p, e2)
                        if r.exact():
                            e2.fld[p] = int(r.lo)
                        out.append(e2)
                    continue
                self.kill_field(p, base)
                out.append(base)
                continue
            self.ev(e, env)
            out.append(env)
        return self.rekey(out)

    def eval_cond(self, e, s):
        return s

    def eval_ret(self, e, s):
        out = []
        for env in s:
            env = env.copy()
            env.iv["$ret"] = self.norm(self.ev(e, env), env)
            out.append(env)
        return out

    def ret(self, n, s):
        for env in s:
            self.outcomes.append((n, env.copy()))

    def decl(self, vd, s):
        out = []
        init = kids(vd)
        qt = qtype(vd)
        for env in s:
            env = env.copy()
            if is_strptr(qt):
                if init:
                    self.assign_ptr(vd["id"], init[-1], env)
                else:
                    env.sf[vd["id"]] = SF()
            elif "[" in qt or "*" in qt or "struct" in qt:
                if init and init[-1].get("kind") not in ("InitListExpr",):
                    self.ev(init[-1], env)
            else:
                v = self.ev(init[-1], env) if init else TOPV
                if init and ("unsigned" in qt or qt in ("size_t",)):
                    v = self.norm(v, env)
                    if v.lo < 0:
                        v = AV(0, INF)
                self.set_int(vd["id"], v, env)
                if init and "char" in qt and "unsigned" not in qt:
                    src = self.char_source(init[-1], env)
                    if src is not None:
                        env.calias[vd["id"]] = src
            out.append(env)
        return self.rekey(out)

    # ---- conditions --------------------------------------------------------------------------------------
    def char_test(self, a, tr, env=None):
        """atom is a test of one string character against constants: (string id, index expr, set of characters for which it holds)"""
        a = strip(a, casts=True)
        node, op, c = None, None, None
        if a.get("kind") == "BinaryOperator" and a.get("opcode") in NEG:
            l, r = kids(a)
            lc, rc = self.eng.ce.try_eval(l), self.eng.ce.try_eval(r)
            if rc is not None and lc is None:
                node, op, c = l, a["opcode"], rc
            elif lc is not None and rc is None:
                node, op, c = r, SWAP[a["opcode"]], lc
        else:
            node, op, c = a, "!=", 0
        if node is None:
            return None
        unsigned = False
        n0 = node
        while n0.get("kind") in ("ParenExpr", "ImplicitCastExpr", "CStyleCastExpr"):
            if n0.get("kind") != "ParenExpr" and qtype(n0).replace("const ", "") == "unsigned char":
                unsigned = True
            n0 = kids(n0)[0]
        s = idx = None
        if n0.get("kind") == "ArraySubscriptExpr" and self.sid(kids(n0)[0]) is not None:
            s, idx = self.sid(kids(n0)[0]), kids(n0)[1]
        elif n0.get("kind") == "UnaryOperator" and n0.get("opcode") == "*" and self.sid(kids(n0)[0]) is not None:
            s, idx = self.sid(kids(n0)[0]), None
        elif n0.get("kind") == "UnaryOperator" and n0.get("opcode") == "*":
            b = strip(kids(n0)[0], casts=True)
            if b.get("kind") == "BinaryOperator" and b.get("opcode") == "+":
                l, r = kids(b)
                if self.sid(l) is None and self.sid(r) is not None:
                    l, r = r, l
                if self.sid(l) is not None:
                    s, idx = self.sid(l), r
        if s is None and env is not None and n0.get("kind") == "DeclRefExpr":
            ck = self.ikey(n0)
            if ck is not None and ck in env.calias:
                s, akey, ak = env.calias[ck]
                idx = ("vk", akey, ak)
        if s is None:
            return None
        if not tr:
            op = NEG[op]
        import operator
        f = {"==": operator.eq, "!=": operator.ne, "<": operator.lt, "<=": operator.le, ">": operator.gt, ">=": operator.ge}[op]
        R = frozenset(x for x in ALLC if f((x & 0xff) if unsigned else x, c))
        return s, idx, R

    def assume(self, atom, tr, s):
        out = []
        for env in s:
            env = env.copy()
            env = self.assume1(atom, tr, env)
            if env is not None:
                out.append(env)
        return self.rekey(out) if out else None

    def assume1(self, atom, tr, env):
        a = strip(atom, casts=True)
        self._pending = None
        self.ev(atom, env)          # records the accesses the test itself makes
        if self._pending:
            # the condition tests the result of a library call: keep only the callee outcomes compatible with it
            call, op, c = None, None, None
            if a.get("kind") == "CallExpr":
                call, op, c = a, "!=", 0
            elif a.get("kind") == "BinaryOperator" and a.get("opcode") in NEG:
                l, r = (strip(x, casts=True) for x in kids(a))
                if l.get("kind") == "CallExpr" and self.eng.ce.try_eval(r) is not None:
                    call, op, c = l, a["opcode"], self.eng.ce.try_eval(r)
                elif r.get("kind") == "CallExpr" and self.eng.ce.try_eval(l) is not None:
                    call, op, c = r, SWAP[a["opcode"]], self.eng.ce.try_eval(l)
            ncalls = sum(1 for m in walk(a) if m.get("kind") == "CallExpr" and callee_name(m) in self.eng.prog.lib_functions())
            if call is not None and ncalls == 1 and callee_name(call) in self.eng.prog.lib_functions():
                if not tr:
                    op = NEG[op]
                keep = []
                for rv, e2 in self._pending:
                    may = {"==": rv.lo <= c <= rv.hi, "!=": not (rv.exact() and rv.lo == c), "<": rv.lo < c, "<=": rv.lo <= c,
                           ">": rv.hi > c, ">=": rv.hi >= c}[op]
                    if may:
                        keep.append(e2)
                self._pending = None
                if not keep:
                    return None
                m = keep[0]
                for e2 in keep[1:]:
                    m = env_join(m, e2)
                return m
        self._pending = None
        ct = self.char_test(a, tr, env)
        if ct is not None:
            return self.assume_char(ct, env)
        if a.get("kind") == "BinaryOperator" and a.get("opcode") in NEG:
            op = a["opcode"] if tr else NEG[a["opcode"]]
            l, r = kids(a)
            # strstr(p, "lit") == p
            for x, y in ((l, r), (r, l)):
                x0 = strip(x, casts=True)
                if x0.get("kind") == "CallExpr" and callee_name(x0) == "strstr" and op == "==":
                    hay = self.sid(call_args(x0)[0])
                    lit = strip(call_args(x0)[1], casts=True)
                    if hay is not None and hay == self.sid(y) and lit.get("kind") == "StringLiteral":
                        t = _lit(lit)
                        f = env.sf.get(hay, SF())
                        if f is not None and t:
                            env.sf[hay] = SF(max(f.minlen, len(t)), frozenset({ord(t[0])}) & f.first or frozenset({ord(t[0])}), f.last)
                        return env
            # strncmp(p, "lit", n) == 0 with n >= strlen("lit") (or n = strlen("lit")): p starts with lit
            for x, y in ((l, r), (r, l)):
                x0 = strip(x, casts=True)
                if x0.get("kind") == "CallExpr" and callee_name(x0) in ("strncmp", "strcmp") and op == "==" and self.eng.ce.try_eval(y) == 0:
                    ca_ = call_args(x0)
                    hay = self.sid(ca_[0])
                    lit = strip(ca_[1], casts=True)
                    if hay is not None and lit.get("kind") == "StringLiteral":
                        t = _lit(lit)
                        nlen = len(t)
                        if callee_name(x0) == "strncmp":
                            n0 = strip(ca_[2], casts=True)
                            nv = self.eng.ce.try_eval(n0)
                            if nv is None and n0.get("kind") == "CallExpr" and callee_name(n0) == "strlen" and \
                                    strip(call_args(n0)[0], casts=True).get("kind") == "StringLiteral":
                                nv = len(_lit(strip(call_args(n0)[0], casts=True)))
                            nlen = min(nlen, nv) if nv is not None else 0
                        f = env.sf.get(hay, SF())
                        if f is not None and t and nlen >= 1:
                            env.sf[hay] = SF(max(f.minlen, nlen), frozenset({ord(t[0])}) & f.first or frozenset({ord(t[0])}), f.last)
                        return env
            # struct field against a constant
            for x, y in ((l, r), (r, l)):
                p = self.fpath(x)
                c = self.eng.ce.try_eval(y)
                if p is not None and c is not None and p in env.fld:
                    holds = {"==": env.fld[p] == c, "!=": env.fld[p] != c, "<": env.fld[p] < c, "<=": env.fld[p] <= c,
                             ">": env.fld[p] > c, ">=": env.fld[p] >= c}[op]
                    return env if holds else None
            for x, y, o in ((l, r, op), (r, l, SWAP[op])):
                key, k = self.varlike(x)
                if key is None or key not in env.iv:
                    continue
                b = self.norm(self.ev(y, env.copy()), env).shift(-k)
                v = env.iv[key]
                lo, hi, ub, eq = v.lo, v.hi, dict(v.ub), dict(v.eq)
                if o in ("<", "<="):
                    d = 1 if o == "<" else 0
                    hi = min(hi, b.hi - d)
                    bb = dict(b.ub)
                    bb.update(b.eq)
                    for st, c in bb.items():
                        ub[st] = min(ub.get(st, INF), c - d)
                elif o in (">", ">="):
                    d = 1 if o == ">" else 0
                    lo = max(lo, b.lo + d)
                elif o == "==":
                    lo, hi = max(lo, b.lo), min(hi, b.hi)
                    for st, c in b.ub.items():
                        ub[st] = min(ub.get(st, INF), c)
                    for st, c in b.eq.items():
                        eq[st] = c
                        ub[st] = min(ub.get(st, INF), c)
                elif o == "!=" and b.exact():
                    if lo == b.lo:
                        lo += 1
                    if hi == b.lo:
                        hi -= 1
                if lo > hi:
                    return None
                env.iv[key] = AV(lo, hi, ub, eq)
            return env
        # bare scalar
        key = self.ikey(a)
        if key is not None and key in env.iv:
            v = env.iv[key]
            if tr and v.lo == 0:
                env.iv[key] = AV(1, v.hi, v.ub, v.eq)
            if not tr:
                if v.lo > 0 or v.hi < 0:
                    return None
                env.iv[key] = AV(0, 0, v.ub, v.eq)
        p = self.fpath(a)
        if p is not None and p in env.fld:
            if bool(env.fld[p]) != tr:
                return None
        return env

    def assume_char(self, ct, env):
        s, idxn, R = ct
        if isinstance(idxn, tuple):          # a character variable known to hold s[key + k]
            _, key, k = idxn
            idx = self.norm(env.iv.get(key, TOPV), env).shift(k) if key is not None else const(k)
        elif idxn is None:
            key, k, idx = None, 0, const(0)
        else:
            key, k = self.varlike(idxn)
            idx = self.norm(self.ev(idxn, env.copy()), env)
        if s in env.alias:
            # a test of alias[e] is a test of base[v + c + e]
            b, akey, c = env.alias[s]
            if key is None and idx.exact():
                s, (_, idx2) = b, self.through_alias(s, idx, env)
                key, k, idx = akey, c + int(idx.lo), self.norm(idx2, env)
            else:
                s, idx = self.through_alias(s, idx, env)
                key, k = None, 0
                idx = self.norm(idx, env)
        f = env.sf.get(s, SF())
        if f is None:
            return env
        env.sf.setdefault(s, f)
        nonnul = 0 not in R
        ex = self.excess(idx, s, env)
        if idx.exact() and idx.lo == 0:
            nf = f.first & R if nonnul else f.first
            if nonnul and not nf:
                return None
            if R == frozenset({0}) and f.minlen > 0:
                return None
            f = SF(max(f.minlen, 1) if nonnul else f.minlen, nf if nonnul else f.first, f.last)
            env.sf[s] = f
        elif idx.exact() and nonnul and f.minlen >= idx.lo >= 0:
            f = SF(max(f.minlen, int(idx.lo) + 1), f.first, f.last)
            env.sf[s] = f
        if key is not None and key in env.iv:
            v = env.iv[key]
            lo, hi, ub, eq = v.lo, v.hi, dict(v.ub), dict(v.eq)
            if nonnul:
                ub[s] = min(ub.get(s, INF), -1 - k)
                # a character no first character can be: not at position 0
                if idx.lo == 0 and not (R & f.first):
                    lo = max(lo, 1 - k)
                # a character no last character can be: not at the last position
                if not (R & f.last) and min(ub[s] + k, ex) <= -1:
                    ub[s] = min(ub[s], -2 - k)
            elif R == frozenset({0}) and ex <= 0:
                eq[s] = -k
                ub[s] = min(ub.get(s, INF), -k)
            if lo > hi:
                return None
            env.iv[key] = AV(lo, hi, ub, eq)
            if k == 0:
                env.cur[(s, key)] = env.cur.get((s, key), ALLC) & R
        # the last character
        if idx.eq.get(s) == -1 and nonnul:
            nl = f.last & R
            if not nl:
                return None
            env.sf[s] = SF(f.minlen, f.first, nl)
        return env

    def assume_case(self, cnd, case, s):
        out = []
        c = self.eng.ce.try_eval(case)
        for env in s:
            env = env.copy()
            p = self.fpath(cnd)
            if p is not None and p in env.fld and c is not None and env.fld[p] != c:
                continue
            if p is not None and c is not None:
                env.fld[p] = c
            out.append(env)
        return self.rekey(out) if out else None

    def assume_default(self, cnd, cases, s):
        out = []
        cs = [self.eng.ce.try_eval(c) for c in cases]
        for env in s:
            p = self.fpath(cnd)
            if p is not None and p in env.fld and env.fld[p] in cs:
                continue
            out.append(env.copy())
        return self.rekey(out) if out else None


def _lit(node):
    v = node.get("value", "")
    try:
        import ast
        return ast.literal_eval(v) if v.startswith('"') else v
    except Exception:
        return v.strip('"')


# ---- the engine ----------------------------------------------------------------------------------------
class Engine:
    def __init__(self, prog):
        self.prog = prog
        self.ce = ConstEval(prog)
        if not hasattr(prog, "public_api"):
            prog.public_api = public_api(prog)
        self.org = origins(prog)
        self.g = EFF.call_graph(prog)
        self.feff = EFF.field_effects(prog, self.g)
        self._wf = {}
        self.memo = {}
        self.inprog = set()
        self.sites = {}
        self.effects = {}
        self.contexts = {}

    def written_fields(self, fn):
        if fn not in self._wf:
            w = EFF.transitive_writes(self.prog, self.feff, self.g, fn)
            self._wf[fn] = {f for (_, f) in w}
        return self._wf[fn]

    def record(self, fn, node, kind, ok, witness):
        key = (fn, loc_str(node), expr_str(node), kind)
        cur = self.sites.get(key)
        if cur is None:
            self.sites[key] = {"fn": fn, "where": loc_str(node), "text": expr_str(node), "kind": kind, "ok": ok, "witness": witness, "visits": 1}
        else:
            cur["visits"] += 1
            if cur["ok"] and not ok:
                cur["ok"], cur["witness"] = False, witness

    def summary(self, fname, ctx, fctx, depth):
        key = (fname, ctx, fctx)
        if key in self.memo:
            return self.memo[key]
        if key in self.inprog or depth > MAX_DEPTH:
            return None
        self.inprog.add(key)
        try:
            f = self.prog.fn(fname)
            ps = self.prog.params(f)
            env = Env()
            sparams = []
            for p, c in zip(ps, ctx):
                if c[0] == "s":
                    env.sf[p["id"]] = SF(*c[1]) if c[1] is not None else None
                    sparams.append(p["id"])
            for p, c in zip(ps, ctx):
                if c[0] == "i":
                    env.iv[p["id"]] = AV(c[1], c[2], dict(c[3]), dict(c[4]))
                    if c[1] == c[2] == 0:
                        for s in sparams:
                            env.pre[(s, p["id"])] = frozenset()
            for path, val in fctx:
                env.fld[path] = val
            dom = StrDomain(self, fname, depth)
            self.contexts[fname] = self.contexts.get(fname, 0) + 1
            Flow(dom).function(self.prog, f, [env])
            outs = {}
            for n, e in dom.outcomes:
                r = e.iv.get("$ret", TOPV)
                k = int(r.lo) if r.exact() else None
                sf = {}
                for s in sparams:
                    fcts = e.sf.get(s)
                    if fcts is None or (s in dom.moved and s not in dom.walked):
                        continue
                    if s in dom.walked:
                        # the parameter walked forward over the characters in `skipped`: the caller's string starts with one of
                        # them or, if nothing was skipped, like the remaining string; it ends like the remaining string or, if
                        # that is empty, with a skipped character
                        skipped = e.pre.get((s, "$g"), frozenset())
                        sf[s] = SF(fcts.minlen, fcts.first | skipped, fcts.last | skipped)
                        continue
                    # what the scanned prefix says about the first character
                    first = fcts.first
                    for (s2, v), pre in e.pre.items():
                        if s2 != s or v not in e.iv:
                            continue
                        av = e.iv[v]
                        cur = e.cur.get((s2, v), ALLC)
                        if av.lo == av.hi == 0:
                            cand = cur
                        elif av.lo >= 1:
                            cand = pre
                        else:
                            cand = pre | cur
                        first = first & cand if (first & cand) else first
                    sf[s] = SF(fcts.minlen, first, fcts.last)
                def unmoved(av):
                    if not (set(av.ub) | set(av.eq)) & dom.moved:
                        return av
                    return AV(av.lo, av.hi, {x: c for x, c in av.ub.items() if x not in dom.moved}, {x: c for x, c in av.eq.items() if x not in dom.moved})
                r = unmoved(r)
                outv = {}
                for p in ps:
                    kk = ("*", p["id"])
                    if kk in e.iv:
                        outv[p["id"]] = unmoved(e.iv[kk])
                o = {"ret": r, "sf": sf, "outs": outv, "env": e}
                if k in outs:
                    a = outs[k]
                    a["ret"] = av_join(a["ret"], r, a["env"], e)
                    for s in list(a["sf"]):
                        if s in sf:
                            a["sf"][s] = a["sf"][s].join(sf[s])
                        else:
                            del a["sf"][s]
                    for pid in list(a["outs"]):
                        if pid in outv:
                            a["outs"][pid] = av_join(a["outs"][pid], outv[pid], a["env"], e)
                        else:
                            del a["outs"][pid]
                    a["env"] = env_join(a["env"], e)
                else:
                    outs[k] = o
            eff = {}
            for s, kind in self.effects.get(fname, {}).items():
                if s in sparams:
                    eff[s] = kind
            res = {"outcomes": [outs[k] for k in sorted(outs, key=lambda x: (x is None, x))], "effects": eff}
            self.memo[key] = res
            return res
        finally:
            self.inprog.discard(key)


def public_api(prog):
    """library functions declared in the installed header"""
    from .core import file_of
    pub = set()
    for unit, tops in prog.units.items():
        for t in tops:
            if t.get("kind") == "FunctionDecl" and (file_of(t) or "").endswith("assemblyline.h"):
                pub.add(t.get("name"))
    lib = prog.lib_functions()
    names = {n for n in lib if n in pub}
    if not names:
        raise AnalysisBroken("no public entry point found (assemblyline.h)")
    return names


_CACHE = {}


def run_world(prog):
    if id(prog) in _CACHE:
        return _CACHE[id(prog)]
    eng = Engine(prog)
    lib = prog.lib_functions()
    # roots: every public function with a string parameter, analysed for an arbitrary NUL-terminated text
    roots = []
    for fn in sorted(prog.public_api):
        f = lib[fn]
        ps = prog.params(f)
        ctx = []
        for p in ps:
            qt = qtype(p)
            if is_strptr(qt):
                ctx.append(("s", SF().key()))
            elif "*" in qt or "[" in qt:
                ctx.append(("p",))
            else:
                ctx.append(("i", -INF, INF, (), ()))
        roots.append(fn)
        eng.summary(fn, tuple(ctx), (), 0)
    # which functions contain accesses through string pointers at all
    need = {}
    for fn, f in lib.items():
        dom = StrDomain(eng, fn, 0)
        for m in walk(prog.body(f)):
            if m.get("kind") == "ArraySubscriptExpr" and dom.sid(kids(m)[0]) is not None:
                need.setdefault(fn, []).append(m)
            elif m.get("kind") == "UnaryOperator" and m.get("opcode") == "*" and dom.sid(kids(m)[0]) is not None:
                need.setdefault(fn, []).append(m)
    res = {"sites": eng.sites, "contexts": eng.contexts, "need": need, "roots": roots, "eng": eng}
    _CACHE[id(prog)] = res
    return res
