"""Thorough tier extras: preprocessor configurations, AST-vs-object cross-extraction of the
instruction table, the checker's own acceptance self-test, generic lint cross-references."""
import json
import os
import re
import shutil
import subprocess
import sys
import tempfile
import time

from .core import VERIF, REPO, AnalysisBroken, load_program
from .report import Check

CONFIGS = {
    "no-config-h": ["-UHAVE_CONFIG_H"],
    "not-linux": ["-U__linux__", "-U__linux", "-Ulinux"],
}
# checks whose rules are anchored in the Linux-only growth code (mremap): not meaningful without it
LINUX_ONLY = {"C08", "C17", "C15", "C07"}
TAB_PROPS = {"C01", "C04", "C05", "C10", "C13"}


def config_variants(chk, prog, prop, mod):
    done = []
    for name, defs in CONFIGS.items():
        if name == "not-linux" and prop in LINUX_ONLY:
            continue
        flags = [f for f in prog.flags if not (name == "no-config-h" and f == "-DHAVE_CONFIG_H")]
        try:
            p2 = load_program(extra_defs=defs if name != "no-config-h" else [], cache=False) if name != "no-config-h" else _load_without_config(prog)
        except AnalysisBroken as e:
            chk.broken("CFG", "CFG/%s" % name, "-", "the sources parse in configuration %s" % name, str(e))
            continue
        sub = Check(prop, "thorough", chk.level)
        try:
            mod.run(sub, p2, "quick")
        except AnalysisBroken as e:
            sub.broken("ANCHOR", "ANCHOR", "-", "anchors visible", str(e))
        known = sub._known()
        nb = 0
        for o in sub.obs:
            if o.status == "violated" and o.key not in known:
                chk.bad("CFG", "CFG/%s/%s" % (name, o.key), o.where, "[configuration %s] %s" % (name, o.what), o.witness)
                nb += 1
            elif o.status == "broken":
                chk.broken("CFG", "CFG/%s/%s" % (name, o.key), o.where, "[configuration %s] %s" % (name, o.what), o.witness)
                nb += 1
        if not nb:
            chk.ok("CFG", "CFG/%s" % name, "-", "all %d obligations also hold when the sources are parsed with %s" % (len(sub.obs), " ".join(defs)))
        done.append({"configuration": name, "flags": defs, "obligations": len(sub.obs)})
    chk.notes["configurations"] = done


def _load_without_config(prog):
    # HAVE_CONFIG_H comes from the presence of config.h: parse with the define removed
    import valib.core as core
    lib, tool = core.compile_db(prog.repo)
    # emulate by undefining after the -D on the command line
    return load_program(extra_defs=["-UHAVE_CONFIG_H"], cache=False)


def cross_extract(chk, prog):
    """INSTR_TABLE as clang's code generator laid it out in .rodata must equal the AST extraction
    (guards the checker's constant evaluator, not the repository)"""
    from . import tables as T
    from .macros import macro_values
    rows = T.instr_table(prog)
    tmp = tempfile.mkdtemp(prefix="verif-xex-")
    try:
        obj = os.path.join(tmp, "instructions.o")
        unit = [u for u in prog.lib_units if u.endswith("instructions.c")]
        if not unit:
            raise AnalysisBroken("instructions.c not among the library units")
        p = subprocess.run(["clang", "-c", "-O0", "-fno-pic"] + prog.flags + [unit[0], "-o", obj], cwd=prog.repo,
                           stdout=subprocess.PIPE, stderr=subprocess.PIPE)
        if p.returncode:
            raise AnalysisBroken("cannot compile %s: %s" % (unit[0], p.stderr.decode()[:300]))
        nm = subprocess.run(["llvm-nm-14", "-S", "--defined-only", obj], stdout=subprocess.PIPE).stdout.decode()
        m = re.search(r"^([0-9a-f]+) ([0-9a-f]+) \w INSTR_TABLE$", nm, re.M)
        if not m:
            raise AnalysisBroken("INSTR_TABLE symbol not found in the object")
        addr, size = int(m.group(1), 16), int(m.group(2), 16)
        sec = subprocess.run(["llvm-objdump-14", "-s", "-j", ".rodata", obj], stdout=subprocess.PIPE).stdout.decode()
        data = {}
        for ln in sec.split("\n"):
            mm = re.match(r"^ ([0-9a-f]+) ((?:[0-9a-f]+ ?)+)", ln)
            if mm:
                a = int(mm.group(1), 16)
                hx = mm.group(2).replace(" ", "")
                for i in range(0, len(hx), 2):
                    data[a + i // 2] = int(hx[i:i + 2], 16)
        # field offsets from a probe TU
        offs = _offsets(prog, tmp)
        rs = offs["__size"]
        if size != rs * len(rows):
            chk.broken("XEX", "XEX/size", unit[0], "object size of INSTR_TABLE equals rows x sizeof(row)", "%d vs %d x %d" % (size, len(rows), rs))
            return

        def u32(off):
            return sum(data.get(addr + off + i, 0) << (8 * i) for i in range(4))
        bad = 0
        for r in rows:
            base = r.idx * rs
            name = bytes(data.get(addr + base + offs["instr_name"] + i, 0) for i in range(14)).split(b"\0")[0].decode()
            got = {"instr_name": name, "name": u32(base + offs["name"]), "instr_size": u32(base + offs["instr_size"]),
                   "op_offset_i": u32(base + offs["op_offset_i"]), "single_reg_r": u32(base + offs["single_reg_r"]),
                   "opcode": [u32(base + offs["opcode"] + 4 * i) for i in range(r.opcode_len)]}
            want = {"instr_name": r.instr_name, "name": r.f["name"] & 0xffffffff, "instr_size": r.f["instr_size"] & 0xffffffff,
                    "op_offset_i": r.f["op_offset_i"] & 0xffffffff, "single_reg_r": r.f["single_reg_r"] & 0xffffffff,
                    "opcode": [c.value & 0xffffffff for c in r.opcode] + [0] * (r.opcode_len - len(r.opcode))}
            if got != want:
                bad += 1
                if bad <= 3:
                    chk.broken("XEX", "XEX/row/%d" % r.idx, r.loc, "the AST extraction of the row equals the compiled object",
                               "object %s vs AST %s" % (got, want))
        if not bad:
            chk.ok("XEX", "XEX/INSTR_TABLE", unit[0], "all %d rows extracted from the AST equal the bytes clang emitted into .rodata" % len(rows))
    finally:
        shutil.rmtree(tmp, ignore_errors=True)


def _offsets(prog, tmp):
    src = os.path.join(tmp, "off.c")
    fields = ["instr_name", "name", "opd_format", "encode_operand", "type", "op_offset_i", "single_reg_r", "instr_size", "opcode"]
    with open(src, "w") as f:
        f.write('#include <stddef.h>\n#include "instructions.h"\n')
        for fl in fields:
            f.write("enum { off_%s = offsetof(struct instr_table, %s) };\n" % (fl, fl))
        f.write("enum { off___size = sizeof(struct instr_table) };\n")
    p = subprocess.run(["clang", "-fsyntax-only", "-Xclang", "-ast-dump=json", "-Wno-everything"] + prog.flags + [src], cwd=prog.repo,
                       stdout=subprocess.PIPE, stderr=subprocess.PIPE)
    if p.returncode:
        raise AnalysisBroken("offset probe failed: %s" % p.stderr.decode()[:300])
    tu = json.loads(p.stdout)
    out = {}

    def walk(n):
        if n.get("kind") == "EnumConstantDecl" and n.get("name", "").startswith("off_"):
            st = list(n.get("inner", []))
            while st:
                c = st.pop()
                if c.get("kind") == "ConstantExpr" and "value" in c:
                    out[n["name"][4:]] = int(c["value"])
                    break
                st.extend(x for x in c.get("inner", []) if x)
        for c in n.get("inner", []) or []:
            if c:
                walk(c)
    walk(tu)
    if "__size" not in out:
        raise AnalysisBroken("offset probe produced nothing")
    return out


def selftest(chk, prop):
    """the checker's acceptance catalogue for this property: every mutant reported, every benign edit silent"""
    sys.path.insert(0, os.path.join(VERIF, "selftest"))
    import run as ST
    cat = [e for e in ST.load_catalogue() if prop in e["props"]]
    for e in cat:
        e["props"] = [prop]
    from concurrent.futures import ThreadPoolExecutor
    t0 = time.time()
    with ThreadPoolExecutor(max_workers=12) as ex:
        res = list(ex.map(lambda e: ST.run_one(e), cat))
    nm = sum(1 for e in cat if e["kind"] == "mutant")
    nb = len(cat) - nm
    bad = [r for r in res if not r["ok"]]
    chk.notes["selftest"] = {"mutants": nm, "detected": nm - sum(1 for r, e in zip(res, cat) if not r["ok"] and e["kind"] == "mutant"),
                             "benign": nb, "silent": nb - sum(1 for r, e in zip(res, cat) if not r["ok"] and e["kind"] == "benign"),
                             "wall_s": round(time.time() - t0, 1), "failed": [r["id"] for r in bad]}
    for r in bad:
        chk.broken("SELFTEST", "SELFTEST/%s" % r["id"], "selftest/catalogue", "the checker passes its own acceptance entry %s" % r["id"],
                   r.get("why") or str(r.get("props")))
    if not bad and cat:
        chk.ok("SELFTEST", "SELFTEST/%s" % prop, "selftest/catalogue", "%d seeded mutants reported, %d benign edits silent" % (nm, nb))


def patch_sets(chk, prop):
    """the seeded changes written against this property (each must be reported, except the documented misses) and the
    behaviour-preserving refactorings (each must stay silent), applied to scratch copies"""
    import importlib.util
    from concurrent.futures import ThreadPoolExecutor

    def load(path, name):
        spec = importlib.util.spec_from_file_location(name, path)
        mod = importlib.util.module_from_spec(spec)
        spec.loader.exec_module(mod)
        return mod
    t0 = time.time()
    sd = os.path.join(VERIF, "seeded")
    bd = os.path.join(VERIF, "benign")
    misses = set()
    try:
        with open(os.path.join(sd, "KNOWN_MISSES.json")) as f:
            km = json.load(f)
            # documented: value logic no rule decides; changes of the command-line tool only (reported by C20, not by the library
            # property they were written against); seeds the suite itself kills once its comparisons are not vacuous
            misses = set(km["undetected"]) | set(km.get("cli_only_reported_by_C20", {})) | set(km.get("killed_by_the_suite_when_not_vacuous", {}))
    except (OSError, ValueError, KeyError):
        pass
    SR = load(os.path.join(sd, "run.py"), "verif_seeded_run")
    BR = load(os.path.join(bd, "run.py"), "verif_benign_run")
    seeds = sorted(d for d in os.listdir(sd) if d.startswith(prop + "-") and os.path.exists(os.path.join(sd, d, "patch.diff")))
    bens = sorted(d for d in os.listdir(bd) if os.path.exists(os.path.join(bd, d, "patch.diff")))
    with ThreadPoolExecutor(max_workers=12) as ex:
        sres = list(ex.map(lambda s_: SR.one(s_, lambda own: [prop]), seeds))
        bres = list(ex.map(lambda b_: BR.one(bd, b_, [prop]), bens))
    missed = [r["seed"] for r in sres if "error" not in r and not r["checks"].get(prop, {}).get("detected")]
    unexpected = [m for m in missed if m not in misses]
    errs = [r.get("seed") or r.get("id") for r in sres + bres if "error" in r]
    loud = [r["id"] for r in bres if "error" not in r and (r["alarms"] or r["broken"])]
    chk.notes["patch_sets"] = {"seeds": len(seeds), "seeds_detected": len(seeds) - len(missed), "documented_misses": sorted(set(missed) & misses),
                               "benign_refactorings": len(bens), "benign_silent": len(bens) - len(loud), "wall_s": round(time.time() - t0, 1)}
    for m in unexpected:
        chk.broken("SEEDS", "SEEDS/%s" % m, "seeded/%s" % m, "the seeded change %s (a confirmed violation of %s) is reported" % (m, prop), "not reported")
    for b in loud:
        chk.broken("BENIGN", "BENIGN/%s" % b, "benign/%s" % b, "the behaviour-preserving refactoring %s leaves the check silent" % b, "not silent")
    for e_ in errs:
        chk.broken("PATCHSET", "PATCHSET/%s" % e_, "-", "the stored patch applies to the current tree", "does not apply")
    if not unexpected and not loud and not errs:
        chk.ok("PATCHSET", "PATCHSET/%s" % prop, "seeded/ benign/", "%d seeded changes reported (%d documented misses), %d refactorings silent"
               % (len(seeds) - len(missed), len(set(missed) & misses), len(bens)))


def lint_crossref(chk, prog):
    """generic tools, recorded for cross-reference only (never gating)"""
    out = {}
    try:
        p = subprocess.run(["cppcheck", "--quiet", "--enable=warning", "-I", "src", "-I", "."] + prog.lib_units, cwd=prog.repo,
                           stdout=subprocess.PIPE, stderr=subprocess.PIPE, timeout=120)
        out["cppcheck"] = [l for l in p.stderr.decode().split("\n") if l.strip() and not l.startswith(" ")][:20]
    except (OSError, subprocess.TimeoutExpired) as e:
        out["cppcheck"] = ["not run: %s" % e]
    chk.notes["generic_lint_crossref_non_gating"] = out


def extra(chk, prog, prop, mod):
    if os.environ.get("VERIF_SCRATCH_OUT"):
        return          # self-test runs on scratch copies stay quick
    config_variants(chk, prog, prop, mod)
    if prop in TAB_PROPS:
        try:
            cross_extract(chk, prog)
        except AnalysisBroken as e:
            chk.broken("XEX", "XEX", "-", "cross-extraction possible", str(e))
    selftest(chk, prop)
    patch_sets(chk, prop)
    lint_crossref(chk, prog)
