"""MUSTCALL: validators stay on every accepting path.

For a function F of the parsing pipeline and a status-returning library function G that the pinned tree calls on *every* path of
F that ends in a successful return (ref/mustcall.json, produced by ref/make_mustcall.py with this same analysis), the current
tree must still do so as long as F calls G at all: a validator that is made conditional lets the inputs of the other branch
through unvalidated.  A must-analysis on the structured flow graph: the state is the set of callees certainly called so far
(intersection at joins; a loop body may run zero times; the right operand of && / || and the arms of ?: are not certain)."""
import json
import os
from .core import VERIF, ConstEval, kids, strip, walk, callee_name, call_args, loc_str, expr_str
from .flow import Flow

REF = os.path.join(VERIF, "ref", "mustcall.json")


class MustDomain:
    """state: (callees certainly called, constants certainly held by locals) - the second part decides loop and branch
    conditions over freshly initialised flags (`while (!placed && status == EXIT_SUCCESS)` is entered at least once)"""

    def __init__(self, prog, names):
        self.prog, self.names = prog, names
        self.rets = []

    def copy(self, s): return s
    def join(self, a, b): return (a[0] & b[0], a[1] & b[1])
    def equal(self, a, b): return a == b
    def widen(self, o, n): return (o[0] & n[0], o[1] & n[1])

    def _set(self, s, name, val):
        env = frozenset(x for x in s[1] if x[0] != name)
        if val is not None:
            env = env | {(name, val)}
        return (s[0], env)

    def decl(self, vd, s):
        for c in kids(vd):
            s = self.eval(c, s)
        if kids(vd):
            s = self._set(s, vd["name"], ConstEval(self.prog, dict(s[1])).try_eval(kids(vd)[-1]))
        return s

    def eval(self, e, s):
        e0 = strip(e)
        if not e0:
            return s
        k, ks = e0.get("kind"), kids(e0)
        if k == "BinaryOperator" and e0.get("opcode") in ("&&", "||"):
            return self.eval(ks[0], s)              # the right operand may not be evaluated
        if k == "ConditionalOperator":
            return self.eval(ks[0], s)
        for c in ks:
            s = self.eval(c, s)
        if k == "CallExpr" and callee_name(e0) in self.names:
            s = (s[0] | {callee_name(e0)}, s[1])
        if k == "CallExpr":
            for a in call_args(e0):
                a0 = strip(a, casts=True)
                if a0.get("kind") == "UnaryOperator" and a0.get("opcode") == "&":
                    t = strip(kids(a0)[0], casts=True)
                    if t.get("kind") == "DeclRefExpr":
                        s = self._set(s, t.get("referencedDecl", {}).get("name"), None)
        if k in ("BinaryOperator", "CompoundAssignOperator") and e0.get("opcode", "").endswith("=") and e0.get("opcode") not in ("==", "!=", "<=", ">="):
            l = strip(ks[0], casts=True)
            if l.get("kind") == "DeclRefExpr":
                v = ConstEval(self.prog, dict(s[1])).try_eval(ks[1]) if e0.get("opcode") == "=" else None
                s = self._set(s, l.get("referencedDecl", {}).get("name"), v)
        if k == "UnaryOperator" and e0.get("opcode") in ("++", "--"):
            l = strip(ks[0], casts=True)
            if l.get("kind") == "DeclRefExpr":
                s = self._set(s, l.get("referencedDecl", {}).get("name"), None)
        return s

    def assume(self, e, t, s):
        v = ConstEval(self.prog, dict(s[1])).try_eval(strip(e))
        if v is not None and bool(v) != t:
            return None
        return s

    def ret(self, n, s):
        self.rets.append((n, s[0]))


def must_calls(prog, fname, names):
    """{callee: called on every path to every successful return of fname}; None if the function has no successful return"""
    f = prog.fn(fname)
    dom = MustDomain(prog, names)
    end = Flow(dom).function(prog, f, (frozenset(), frozenset()))
    if end is not None:
        dom.rets.append((f, end[0]))
    ce = ConstEval(prog)
    good = []
    for n, s in dom.rets:
        if n.get("kind") == "ReturnStmt" and kids(n):
            v = ce.try_eval(strip(kids(n)[0], casts=True))
            if v is not None and v != 0 and "*" not in (f.get("type") or {}).get("qualType", "").split("(")[0]:
                if v in (1, -1) or v < 0:
                    continue            # EXIT_FAILURE / a negative sentinel: a rejecting return
        good.append((n, s))
    if not good:
        return None, []
    must = None
    for n, s in good:
        must = s if must is None else must & s
    return must, good


def snapshot(prog, kinds):
    out = {}
    names = set(kinds)
    for fn, f in sorted(prog.lib_functions().items()):
        called = {callee_name(c) for c in walk(prog.body(f)) if c.get("kind") == "CallExpr" and callee_name(c) in names}
        if not called:
            continue
        must, _ = must_calls(prog, fn, names)
        if must:
            out[fn] = sorted(must)
    return out


def mustcall_rule(chk, prog, kinds, rule="MUSTCALL"):
    try:
        with open(REF) as f:
            ref = json.load(f)
    except (OSError, ValueError):
        from .core import AnalysisBroken
        raise AnalysisBroken("ref/mustcall.json missing")
    lib = prog.lib_functions()
    names = set(kinds)
    n = 0
    for fn, want in sorted(ref.items()):
        if fn not in lib:
            continue
        f = lib[fn]
        called = {callee_name(c) for c in walk(prog.body(f)) if c.get("kind") == "CallExpr"}
        todo = [g for g in want if g in called and g in names]
        if not todo:
            continue
        must, good = must_calls(prog, fn, names)
        for g in todo:
            n += 1
            key = "%s/%s/%s" % (rule, fn, g)
            if must is None:
                chk.ok(rule, key, loc_str(f), "%s has no accepting return" % fn)
                continue
            bad = [r for r, s in good if g not in s]
            chk.require(not bad, rule, key, loc_str(bad[0]) if bad else loc_str(f),
                        "%s() is called on every path of %s that ends in an accepting return (it validates what %s accepts)" % (g, fn, fn),
                        "an accepting return is reachable without the call")
    chk.floor("validator calls that every accepting path makes", n, 20)
    return n
