"""USUB / BYTELEN: an unsigned `K - n` whose n counts the bytes of a value never wraps.

The encoder pads displacements and immediates to a fixed width with `for (k = 0; k < K - n; k++) ptr[pos++] = 0`, where n
is what the byte-emission routine returned (`while (c > 0) { ptr[n++] = c & 0xff; c >>= 8; }`).  If n can exceed K the
unsigned difference wraps and the loop writes gigabytes.  n is bounded by the width of the value that was emitted: the
rule follows the argument back through parameters (joined over call sites) to the integer type it had before widening, and
accepts a subtraction that is dominated by a test `n <= K`."""
from .core import (AnalysisBroken, ConstEval, kids, strip, walk, walk_with_parents, expr_str, loc_str, qtype, ref_name,
                   callee_name, call_args, int_type)

SIZES = {"char": 1, "unsigned char": 1, "signed char": 1, "uint8_t": 1, "int8_t": 1, "short": 2, "unsigned short": 2, "uint16_t": 2,
         "int16_t": 2, "int": 4, "unsigned int": 4, "unsigned": 4, "uint32_t": 4, "int32_t": 4, "long": 8, "unsigned long": 8,
         "uint64_t": 8, "int64_t": 8, "size_t": 8, "long long": 8, "unsigned long long": 8, "_Bool": 1, "bool": 1}


def byte_counters(prog):
    """functions (value, destination) -> number of bytes emitted: a loop that runs while the value is non-zero, stores one
    byte per iteration through the destination at a counter it increments, shifts the value right by 8 and returns the counter"""
    out = {}
    ce = ConstEval(prog)
    for fn, f in prog.lib_functions().items():
        ps = prog.params(f)
        if len(ps) != 2 or not int_type(qtype(ps[0])) or "*" not in qtype(ps[1]) and "[" not in qtype(ps[1]):
            continue
        v = ps[0]["name"]
        loops = [m for m in walk(prog.body(f)) if m.get("kind") in ("WhileStmt", "ForStmt")]
        if len(loops) != 1:
            continue
        lp = loops[0]
        raw = lp.get("inner", [])
        cond = strip(kids(lp)[0]) if lp["kind"] == "WhileStmt" else (strip(raw[2]) if len(raw) > 2 and raw[2] else None)
        if cond is None:
            continue
        ok_cond = (cond.get("kind") == "BinaryOperator" and cond.get("opcode") in (">", "!=") and ref_name(strip(kids(cond)[0], casts=True)) == v and
                   ce.try_eval(kids(cond)[1]) == 0) or ref_name(strip(cond, casts=True)) == v
        # the shift may sit in the body or in the increment part of a for loop; the step of the counter / cursor in the body
        shifts = [m for m in walk(lp) if m.get("kind") == "CompoundAssignOperator" and m.get("opcode") == ">>=" and
                  ref_name(strip(kids(m)[0], casts=True)) == v and ce.try_eval(kids(m)[1]) == 8]
        incs = [m for m in walk(kids(lp)[-1]) if m.get("kind") == "UnaryOperator" and m.get("opcode") == "++"]
        rets = [m for m in walk(prog.body(f)) if m.get("kind") == "ReturnStmt" and kids(m)]
        if not (ok_cond and len(shifts) == 1 and len(incs) == 1 and len(rets) == 1):
            continue
        stepped = ref_name(strip(kids(incs[0])[0], casts=True))
        r = strip(kids(rets[0])[0], casts=True)
        counter_ret = ref_name(r) == stepped
        # ... or a cursor walking the destination, the count being its distance from the destination
        cursor_ret = r.get("kind") == "BinaryOperator" and r.get("opcode") == "-" and ref_name(strip(kids(r)[0], casts=True)) == stepped and \
            ref_name(strip(kids(r)[1], casts=True)) == ps[1]["name"]
        if counter_ret or cursor_ret:
            out[fn] = 0       # index of the value parameter
    return out


def width_of(prog, fn, e, depth=0):
    """upper bound, in bytes, of the magnitude of integer expression e in function fn"""
    e0 = e
    while e0.get("kind") in ("ParenExpr", "ImplicitCastExpr", "CStyleCastExpr"):
        e0 = kids(e0)[0]
    ce = ConstEval(prog)
    v = ce.try_eval(e0)
    if v is not None and v >= 0:
        return max(1, (v.bit_length() + 7) // 8)
    if e0.get("kind") == "BinaryOperator" and e0.get("opcode") == "&":
        for side in kids(e0):
            m = ce.try_eval(side)
            if m is not None and m >= 0:
                return max(1, (m.bit_length() + 7) // 8)
    if e0.get("kind") == "DeclRefExpr" and e0.get("referencedDecl", {}).get("kind") == "ParmVarDecl" and depth < 4:
        f = prog.fn(fn)
        names = [p["name"] for p in prog.params(f)]
        if ref_name(e0) in names:
            # a parameter that is modified in the function keeps only its declared width
            if any(m.get("kind") in ("BinaryOperator", "CompoundAssignOperator") and m.get("opcode", "").endswith("=") and
                   m.get("opcode") not in ("==", "!=", "<=", ">=") and ref_name(strip(kids(m)[0], casts=True)) == ref_name(e0)
                   for m in walk(prog.body(f))):
                return SIZES.get(qtype(e0).replace("const ", "").strip(), 8)
            idx = names.index(ref_name(e0))
            ws = []
            for g, gf in prog.lib_functions().items():
                for c in walk(prog.body(gf)):
                    if c.get("kind") == "CallExpr" and callee_name(c) == fn:
                        ws.append(width_of(prog, g, call_args(c)[idx], depth + 1))
            if ws:
                return min(max(ws), SIZES.get(qtype(e0).replace("const ", "").strip(), 8))
    qt = qtype(e0).replace("const ", "").replace("volatile ", "").strip()
    td = prog.typedefs.get(qt)
    if td is not None and qt not in SIZES:
        qt = qtype(td).strip()
    return SIZES.get(qt, 8)


def _guarded(node, parents, var, K, ce):
    """is the subtraction inside the then-branch of an `if` one of whose conjuncts says var <= K"""
    def conj(e):
        e = strip(e)
        if e.get("kind") == "BinaryOperator" and e.get("opcode") == "&&":
            return conj(kids(e)[0]) + conj(kids(e)[1])
        return [e]
    chain = list(parents) + [node]
    for i, p in enumerate(chain[:-1]):
        if p.get("kind") == "IfStmt" and len(kids(p)) >= 2 and chain[i + 1] is kids(p)[1]:
            for a in conj(kids(p)[0]):
                if a.get("kind") == "BinaryOperator" and ref_name(strip(kids(a)[0], casts=True)) == var:
                    c = ce.try_eval(kids(a)[1])
                    if c is not None and ((a["opcode"] == "<=" and c <= K) or (a["opcode"] == "<" and c <= K + 1) or (a["opcode"] == "==" and c <= K)):
                        return True
    return False


def usub_rule(chk, prog, rule="USUB"):
    counters = byte_counters(prog)
    if not counters:
        raise AnalysisBroken("the byte-emission routine (value, destination) -> count was not identified")
    ce = ConstEval(prog)
    n = 0
    all_src = {}
    for fn, f in sorted(prog.lib_functions().items()):
        # locals holding a byte count: initialised or assigned from a counter call
        src = {}
        for m in walk(prog.body(f)):
            call = None
            if m.get("kind") == "VarDecl" and kids(m):
                call, name = strip(kids(m)[-1], casts=True), m["name"]
            elif m.get("kind") == "BinaryOperator" and m.get("opcode") == "=":
                call, name = strip(kids(m)[1], casts=True), ref_name(strip(kids(m)[0], casts=True))
            if call is not None and call.get("kind") == "CallExpr" and callee_name(call) in counters and name:
                src.setdefault(name, []).append(call)
        # a byte count handed on to a helper as an argument: the helper's parameter holds the same count
        all_src.setdefault(fn, {}).update(src)
    for fn, f in sorted(prog.lib_functions().items()):
        src = dict(all_src.get(fn, {}))
        names = [p["name"] for p in prog.params(f)]
        for g, gsrc in all_src.items():
            for c in walk(prog.body(prog.fn(g))):
                if c.get("kind") == "CallExpr" and callee_name(c) == fn:
                    for pn, a in zip(names, call_args(c)):
                        an = ref_name(strip(a, casts=True))
                        if an in gsrc:
                            src.setdefault(pn, []).extend(("via", g, cc, an) for cc in gsrc[an] if not isinstance(cc, tuple))
        if not src:
            continue
        for m, parents in walk_with_parents(prog.body(f)):
            if m.get("kind") != "BinaryOperator" or m.get("opcode") != "-":
                continue
            K = ce.try_eval(kids(m)[0])
            v = ref_name(strip(kids(m)[1], casts=True))
            if K is None or v not in src:
                continue
            qt = qtype(m).replace("const ", "")
            if not (qt.startswith("unsigned") or qt in ("size_t", "uint32_t", "uint64_t")):
                continue
            n += 1
            ws, bumps = [], 0
            for c in src[v]:
                if isinstance(c, tuple):        # ("via", caller, call): the count was computed in the caller
                    ws.append(width_of(prog, c[1], call_args(c[2])[counters[callee_name(c[2])]]))
                    bumps = max(bumps, sum(1 for x in walk(prog.body(prog.fn(c[1]))) if x.get("kind") == "UnaryOperator" and
                                           x.get("opcode") == "++" and ref_name(strip(kids(x)[0], casts=True)) == c[3]))
                else:
                    ws.append(width_of(prog, fn, call_args(c)[counters[callee_name(c)]]))
            w = max(ws)
            # a count that was bumped after the call (`bytes++`) is one larger
            bumps = max(bumps, sum(1 for x in walk(prog.body(f)) if x.get("kind") == "UnaryOperator" and x.get("opcode") == "++" and
                                   ref_name(strip(kids(x)[0], casts=True)) == v))
            ok = _guarded(m, parents, v, K, ce) or (w + bumps) <= K
            chk.require(ok, rule, "%s/%s/%s" % (rule, fn, expr_str(m)), loc_str(m),
                        "the unsigned difference %s cannot wrap: the byte count is tested against %d first, or the emitted value is at most %d bytes wide"
                        % (expr_str(m), K, K),
                        "%s counts the bytes of a value up to %d bytes wide%s and no test `%s <= %d` guards the subtraction"
                        % (v, w, " plus %d" % bumps if bumps else "", v, K))
    chk.floor("padding-length subtractions", n, 1)
    return n
