"""SUCC: the successor-row rule behind every `key` increment.

The encoder selects sibling encodings by incrementing the table index
(`key++`, `key += is_short`).  Whether row k+1 is the right continuation of
row k is a fact about the table.  Sites are enumerated from the AST with the
path guard that selects the rows they can fire from; guards are matched
against a table of confirmed instances (one line of reason each)."""
from .core import (AnalysisBroken, ConstEval, kids, strip, walk, walk_with_parents, expr_str, loc_str, ref_name, qtype,
                   callee_name, call_args)
from . import eff as EFF
from . import tabrules as TR


def _atoms(prog, cond, positive, out):
    """collect (kind, value, polarity) atoms of a guard condition"""
    c = strip(cond)
    k = c.get("kind")
    if k == "UnaryOperator" and c.get("opcode") == "!":
        _atoms(prog, kids(c)[0], not positive, out)
        return
    if k == "BinaryOperator" and c.get("opcode") == "&&" and positive:
        _atoms(prog, kids(c)[0], True, out)
        _atoms(prog, kids(c)[1], True, out)
        return
    if k == "BinaryOperator" and c.get("opcode") == "||" and not positive:
        _atoms(prog, kids(c)[0], False, out)
        _atoms(prog, kids(c)[1], False, out)
        return
    if k == "BinaryOperator" and c.get("opcode") in ("==", "!="):
        l, r = strip(kids(c)[0]), strip(kids(c)[1])
        pol = positive if c["opcode"] == "==" else not positive
        for a, b in ((l, r), (r, l)):
            if a.get("kind") == "MemberExpr" and a.get("name") in ("type", "name"):
                base = strip(kids(a)[0])
                if base.get("kind") == "ArraySubscriptExpr" and ref_name(kids(base)[0]) == "INSTR_TABLE":
                    nm = ref_name(b)
                    if nm:
                        out.append((a["name"], nm, pol))
                        return
    if k == "MemberExpr" and c.get("name") in ("imm", "mem_disp", "is_short", "is_long"):
        out.append(("flag", c["name"], positive))
        return
    txt = expr_str(c)
    if "cons" in txt:
        out.append(("cons", txt, positive))
    elif "||" in txt and positive:
        # a disjunction: keep type/name atoms that appear in every alternative
        alts = []

        def split(e):
            e = strip(e)
            if e.get("kind") == "BinaryOperator" and e.get("opcode") == "||":
                split(kids(e)[0]); split(kids(e)[1])
            else:
                alts.append(e)
        split(c)
        sets = []
        for a in alts:
            o = []
            _atoms(prog, a, True, o)
            sets.append(set(x for x in o if x[0] in ("type", "name")))
        common = set.intersection(*sets) if sets else set()
        out.extend(sorted(common))
        any_atoms = set.union(*sets) if sets else set()
        for x in sorted(any_atoms - common):
            out.append(("maybe-" + x[0], x[1], x[2]))


def path_guard(prog, fn_node, target):
    """atoms of the conditions that dominate `target` inside the function"""
    out = []
    for m, parents in walk_with_parents(prog.body(fn_node)):
        if m is target:
            chain = list(parents) + [m]
            for i, p in enumerate(chain[:-1]):
                if p.get("kind") == "IfStmt":
                    ks = kids(p)
                    nxt = chain[i + 1]
                    if nxt is ks[0]:
                        continue
                    if nxt is ks[1]:
                        _atoms(prog, ks[0], True, out)
                    elif len(ks) > 2 and nxt is ks[2]:
                        _atoms(prog, ks[0], False, out)
            # early returns that dominate the target in the same compound: `if (c) return;` before it
            for i, p in enumerate(chain[:-1]):
                if p.get("kind") == "CompoundStmt":
                    nxt = chain[i + 1]
                    for s in kids(p):
                        if s is nxt:
                            break
                        if s.get("kind") == "IfStmt":
                            ks = kids(s)
                            then = ks[1]
                            ends = _always_returns(then)
                            if ends and len(ks) == 2:
                                _atoms(prog, ks[0], False, out)
            return out
    return out


def _always_returns(s):
    k = s.get("kind")
    if k == "ReturnStmt":
        return True
    if k == "CompoundStmt":
        ks = kids(s)
        return bool(ks) and _always_returns(ks[-1])
    return False


def call_sites(prog, callee):
    out = []
    for fn, f in prog.lib_functions().items():
        for c in walk(prog.body(f)):
            if c.get("kind") == "CallExpr" and callee_name(c) == callee:
                out.append((fn, f, c))
    return out


def full_guard(prog, fn, target, depth=0):
    f = prog.fn(fn)
    g = path_guard(prog, f, target)
    if depth < 4 and f.get("storageClass") == "static":
        cs = call_sites(prog, fn)
        if len(cs) == 1:
            cfn, cf, call = cs[0]
            g = full_guard(prog, cfn, call, depth + 1) + g
    return g


def key_sites(prog):
    """every increment of `<instr>->key`: (fn, node, amount, guard atoms)"""
    sites = []
    for fn, f in sorted(prog.lib_functions().items()):
        for m in walk(prog.body(f)):
            k = m.get("kind")
            tgt = None
            amount = None
            if k == "UnaryOperator" and m.get("opcode") in ("++", "--"):
                tgt = strip(kids(m)[0])
                amount = 1 if m["opcode"] == "++" else -1
            elif k == "CompoundAssignOperator" and m.get("opcode") in ("+=", "-="):
                tgt = strip(kids(m)[0])
                amount = ConstEval(prog).try_eval(kids(m)[1])
                if amount is None:
                    amount = expr_str(kids(m)[1])
            elif k == "BinaryOperator" and m.get("opcode") == "=":
                t = strip(kids(m)[0])
                if t.get("kind") == "MemberExpr" and t.get("name") == "key" and EFF.owner_field(t)[0] == "instr":
                    rhs = strip(kids(m)[1])
                    # key = key + c
                    if rhs.get("kind") == "BinaryOperator" and rhs.get("opcode") in ("+", "-") and "key" in expr_str(rhs):
                        tgt = t
                        amount = expr_str(rhs)
            if tgt is None or tgt.get("kind") != "MemberExpr" or tgt.get("name") != "key":
                continue
            if EFF.owner_field(tgt)[0] != "instr":
                continue
            sites.append({"fn": fn, "node": m, "amount": amount, "guard": full_guard(prog, fn, m), "loc": loc_str(m)})
    return sites


def flag_stores(prog, flag, value=True):
    """stores `<x>.flag = true` with their guards"""
    out = []
    for fn, f in sorted(prog.lib_functions().items()):
        for m in walk(prog.body(f)):
            if m.get("kind") == "BinaryOperator" and m.get("opcode") == "=":
                t = strip(kids(m)[0])
                if t.get("kind") == "MemberExpr" and t.get("name") == flag:
                    v = ConstEval(prog).try_eval(kids(m)[1])
                    if bool(v) == value and v is not None:
                        out.append({"fn": fn, "node": m, "guard": full_guard(prog, fn, m), "loc": loc_str(m)})
    return out


# confirmed instances: guard signature -> (row selector, reason)
#   selector: ("type"|"name", constant, format predicate name)
CONFIRMED = {
    ("type", "CONTROL_FLOW"): ("imm", "short/long selection of a relative branch: the rel8 twin (or a duplicate) must follow"),
    ("name", "push"): ("imm", "push imm8 -> push imm32 when the value exceeds 0x7f"),
    ("name", "xchg"): ("regs", "xchg with the accumulator -> 90+rd"),
    ("type", "DATA_TRANSFER"): ("imm", "mov r/m, imm: B0+rd -> C6 /0"),
    ("type", "SHIFT"): ("imm", "shift by 1 -> shift by imm8"),
    ("type", "OPERATION"): ("imm", "ALU r/m, imm -> accumulator short form"),
    ("type", "PAD_ALWAYS"): ("imm", "test r/m, imm -> accumulator short form"),
}


def signature(guard):
    pos = [(k, v) for (k, v, pol) in guard if k in ("type", "name") and pol]
    return pos[-1] if pos else None


def first_match_rows(tab, pred):
    """rows a lookup can return: for each mnemonic and each format, the first row
    of the enumerator that lists the format; filtered by pred(row, fmt)"""
    out = []
    rows = tab.rows
    i = 3
    while i < len(rows) - 1:
        r0 = rows[i]
        if not r0.instr_name:
            i += 1
            continue
        # group: rows with the same enumerator starting at a named row
        j = i
        seen = set()
        while j < len(rows) - 1 and rows[j].f["name"] == r0.f["name"]:
            for f in tab.fmts_of(rows[j]):
                if f not in seen:
                    seen.add(f)
                    if pred(rows[j], f):
                        out.append((rows[j], f))
            j += 1
            if j < len(rows) and rows[j].instr_name and rows[j].instr_name != r0.instr_name:
                # alias rows (nop2..): each named row starts its own lookup
                break
        i += 1
        while i < len(rows) - 1 and not rows[i].instr_name:
            i += 1
    return out


def succ_rule(chk, tab, prog, rule="SUCC", only=None):
    """only: iterable of signatures to include (None = all)"""
    sites = key_sites(prog)
    chk.analysed["key_increment_sites"] = ["%s %s: key %s [%s]" % (s["loc"], s["fn"], s["amount"],
                                          ", ".join("%s%s=%s" % ("" if p else "!", k, v) for k, v, p in s["guard"])) for s in sites]
    todo = []
    for s in sites:
        if s["amount"] == 1:
            sig = signature(s["guard"])
            if sig not in CONFIRMED:
                chk.broken(rule, "%s/site/%s" % (rule, s["fn"]), s["loc"], "every key increment has a guard from the confirmed table",
                           "guard %s" % s["guard"])
                continue
            todo.append((sig, s))
        elif isinstance(s["amount"], str) and "is_short" in s["amount"]:
            stores = flag_stores(prog, "is_short", True)
            chk.analysed["is_short_stores"] = ["%s %s [%s]" % (t["loc"], t["fn"], t["guard"]) for t in stores]
            typed = [t for t in stores if signature(t["guard"]) == ("type", "CONTROL_FLOW")]
            if not typed:
                chk.broken(rule, rule + "/site/is_short", s["loc"], "the short flag is set under a CONTROL_FLOW test somewhere",
                           "stores: %s" % [t["loc"] for t in stores])
                continue
            for t in typed:
                todo.append((("type", "CONTROL_FLOW"), dict(s, loc=s["loc"], via=t["loc"])))
        else:
            chk.broken(rule, "%s/site/%s" % (rule, s["fn"]), s["loc"], "a key increment adds 1 or the short flag", "adds %s" % s["amount"])
    chk.floor("key increment sites", len(sites), 9)
    done = set()
    nob = 0
    for sig, s in todo:
        if only is not None and sig not in only:
            continue
        fmtkind, reason = CONFIRMED[sig]
        if sig in done:
            continue
        done.add(sig)

        def pred(r, f, sig=sig, fmtkind=fmtkind):
            if sig[0] == "type" and r.ident.get("type") != sig[1]:
                return False
            if sig[0] == "name" and r.ident.get("name") != sig[1]:
                return False
            if fmtkind == "imm":
                return f == "n" or "i" in f
            return "m" not in f and f != "n"
        for r, f in first_match_rows(tab, pred):
            hits, _ = TR.match_row(tab, r)
            mn = tab.mnemonic(r)
            if not hits:
                continue      # reported by T2
            if sig == ("type", "CONTROL_FLOW") and not any(F["enc"] in ("D", "S") or "i" in "".join(F.get("fmts") or []) for F in hits):
                continue      # ret/xend: no operand at all, the short flag cannot be set (C10/FMT conflation)
            nxt = tab.rows[r.idx + 1] if r.idx + 1 < len(tab.rows) else None
            key = "%s/%s/row=%s" % (rule, sig[1], TR.rowkey(tab, r))
            nob += 1
            if nxt is None or nxt.f["name"] != r.f["name"]:
                chk.bad(rule, key, r.loc, "the row after %s '%s' belongs to %s (%s; increment at %s)" % (mn, hits[0]["id"], mn, reason, s["loc"]),
                        "next row is %s" % (nxt.ident.get("name") if nxt else "none"))
                continue
            nh, nbest = TR.match_row(tab, nxt)
            ids = {F["id"] for F in hits}
            follows_ok = bool(nh) and any(F.get("follows") in ids for F in nh)
            dup = (_image(tab, nxt) == _image(tab, r))
            chk.require(follows_ok or dup, rule, key, r.loc,
                        "the row after %s '%s' is its continuation form (%s; increment at %s)" % (mn, hits[0]["id"], reason, s["loc"]),
                        "next row is %s" % ("form '%s'" % nh[0]["id"] if nh else "no form of %s (%s)" % (mn, nbest)))
    return nob


def _image(tab, r):
    d = tab.dec[r.idx]
    return (r.ident.get("encode_operand"), r.ident.get("type"), r.f["op_offset_i"], r.f["single_reg_r"], r.f["instr_size"],
            tuple(c.value for c in r.opcode[:r.f["instr_size"]]))


def branch_type_rule(chk, tab, rule="PAIR"):
    """rows that take a displacement are CONTROL_FLOW (the short/long logic and
    the 32-bit truncation are keyed on that type); each relative-branch mnemonic
    starts with its lookup row"""
    n = 0
    for r in tab.rows[3:-1]:
        hits, _ = TR.match_row(tab, r)
        if not hits:
            continue
        if any(F["enc"] in ("D", "S") for F in hits):
            n += 1
            chk.require(r.ident.get("type") == "CONTROL_FLOW", rule, "%s/type/%s" % (rule, TR.rowkey(tab, r)), r.loc,
                        "a displacement-taking row has type CONTROL_FLOW", "type %s" % r.ident.get("type"))
            fm = tab.fmts_of(r)
            chk.require(set(fm) <= {"n"}, rule, "%s/fmt/%s" % (rule, TR.rowkey(tab, r)), r.loc,
                        "a displacement-taking row accepts only the lone-immediate format", "formats %s" % fm)
    return n


def _conjuncts(e):
    e = strip(e)
    if e.get("kind") == "BinaryOperator" and e.get("opcode") == "&&":
        return _conjuncts(kids(e)[0]) + _conjuncts(kids(e)[1])
    return [e]


def sibling_guard_rule(chk, prog, rule="SIBG"):
    """one-sided checks: two key increments in one function with the same table guard (e.g. both `name == xchg`)
    must not differ by one of them omitting a conjunct the other tests on the mirrored operand"""
    import re
    sites = key_sites(prog)
    byfn = {}
    for s in sites:
        if s["amount"] == 1:
            byfn.setdefault((s["fn"], signature(s["guard"])), []).append(s)
    n = 0
    for (fn, sig), ss in sorted(byfn.items(), key=lambda kv: str(kv[0])):
        if len(ss) < 2:
            continue
        f = prog.fn(fn)
        conds = []
        for s in ss:
            inner = None
            for m, parents in walk_with_parents(prog.body(f)):
                if m is s["node"]:
                    for p in reversed(parents):
                        if p.get("kind") == "IfStmt":
                            inner = kids(p)[0]
                            break
            cj = set()
            if inner is not None:
                for c in _conjuncts(inner):
                    cj.add(re.sub(r"opd\[\d\]", "opd[#]", expr_str(c)))
            conds.append((s, cj))
        for i in range(len(conds)):
            for j in range(i + 1, len(conds)):
                (s1, a), (s2, b) = conds[i], conds[j]
                n += 1
                one_sided = (a < b) or (b < a)
                missing = sorted((a | b) - (a & b))
                # the same quantity compared with the same constant but a different operator
                import re as _re
                def split(c):
                    m_ = _re.match(r"^(.*) (==|!=|<=|>=|<|>) (.*)$", c)
                    return (m_.group(1), m_.group(3), m_.group(2)) if m_ else None
                sa = {split(c)[:2]: split(c)[2] for c in a if split(c)}
                sb = {split(c)[:2]: split(c)[2] for c in b if split(c)}
                opdiff = sorted("%s %s/%s %s" % (k[0], sa[k], sb[k], k[1]) for k in sa if k in sb and sa[k] != sb[k])
                if opdiff:
                    one_sided = True
                    missing = opdiff
                chk.require(not one_sided, rule, "%s/%s/%s" % (rule, fn, sig[1] if sig else "?"), s2["loc"] if a > b else s1["loc"],
                            "sibling key increments in %s test the same conditions on their (mirrored) operands" % fn,
                            "one branch omits %s" % missing)
    return n


# --------------------------------------------------------------------------
# class-set rules: which register classes (bit_mode) a role-anchored guard accepts
# --------------------------------------------------------------------------

def _mode_classes(prog):
    mem = prog.enum_members("bit_mode")
    if not mem:
        raise AnalysisBroken("enum bit_mode not found")
    return dict(mem)


def _masked_subject(prog, e, mode_mask, defs):
    """if e denotes `<something> & MODE_MASK` (directly or through a single-assignment local), a key for <something>"""
    e = strip(e, casts=True)
    if e.get("kind") == "DeclRefExpr" and ref_name(e) in defs:
        return _masked_subject(prog, defs[ref_name(e)], mode_mask, defs)
    if e.get("kind") == "BinaryOperator" and e.get("opcode") == "&":
        a, b = kids(e)
        for x, y in ((a, b), (b, a)):
            if ConstEval(prog).try_eval(y) == mode_mask:
                return expr_str(strip(x, casts=True))
    return None


def class_set(prog, cond, subject, classes, mode_mask, defs):
    """classes of `subject & MODE_MASK` for which cond may be true (three-valued: atoms about anything else are unknown)"""
    ce = ConstEval(prog)

    def ev(e, v):
        e = strip(e)
        k = e.get("kind")
        if k == "UnaryOperator" and e.get("opcode") == "!":
            r = ev(kids(e)[0], v)
            return None if r is None else (not r)
        if k == "BinaryOperator" and e.get("opcode") in ("&&", "||"):
            a, b = ev(kids(e)[0], v), ev(kids(e)[1], v)
            if e["opcode"] == "&&":
                if a is False or b is False:
                    return False
                return True if (a is True and b is True) else None
            if a is True or b is True:
                return True
            return False if (a is False and b is False) else None
        if k == "BinaryOperator" and e.get("opcode") in ("<", ">", "<=", ">=", "==", "!="):
            l, r = kids(e)
            sl, sr = _masked_subject(prog, l, mode_mask, defs), _masked_subject(prog, r, mode_mask, defs)
            cl, cr = ce.try_eval(l), ce.try_eval(r)
            a = v if sl == subject else cl
            b = v if sr == subject else cr
            if (sl == subject or sr == subject) and a is not None and b is not None:
                return {"<": a < b, ">": a > b, "<=": a <= b, ">=": a >= b, "==": a == b, "!=": a != b}[e["opcode"]]
            return None
        return None
    return {n for n, v in classes.items() if ev(cond, v) is not False}


def class_rules(chk, prog, rule="WCLASS"):
    from .macros import macro_values
    mm = macro_values(prog, ["MODE_MASK"])["MODE_MASK"]
    classes = _mode_classes(prog)
    WIDE = {"reg16", "ext16", "reg32", "ext32", "reg64", "ext64"}
    lib = prog.lib_functions()
    n = 0
    # R2: the function whose result is stored into op_offset returns 1 exactly for the 16/32/64-bit classes
    feeders = set()
    for fn, f in lib.items():
        for m in walk(prog.body(f)):
            if m.get("kind") == "BinaryOperator" and m.get("opcode") == "=":
                l, r = strip(kids(m)[0]), strip(kids(m)[1], casts=True)
                if l.get("kind") == "MemberExpr" and l.get("name") == "op_offset" and r.get("kind") == "CallExpr" and callee_name(r) in lib:
                    feeders.add(callee_name(r))
    for fn in sorted(feeders):
        f = lib[fn]
        defs = {m["name"]: kids(m)[-1] for m in walk(prog.body(f)) if m.get("kind") == "VarDecl" and kids(m)}
        for st in walk(prog.body(f)):
            if st.get("kind") != "IfStmt":
                continue
            rets = [m for m in walk(kids(st)[1]) if m.get("kind") == "ReturnStmt" and kids(m)]
            if not rets or ConstEval(prog).try_eval(kids(rets[0])[0]) != 1:
                continue
            cond = kids(st)[0]
            subjects = set()
            for m in walk(cond):
                s_ = _masked_subject(prog, m, mm, defs) if m.get("kind") in ("DeclRefExpr", "BinaryOperator") else None
                if s_:
                    subjects.add(s_)
            for sj in sorted(subjects):
                # the class set accepted through this subject alone: evaluate with every other subject comparison unknown->False
                other_false = _only(prog, cond, sj, mm, defs)
                acc = {nm for nm, v in classes.items() if other_false(v)}
                n += 1
                chk.require(acc == WIDE, rule, "%s/width/%s/%s" % (rule, fn, sj), loc_str(st),
                            "%s selects the wide opcode (w-bit) exactly for 16/32/64-bit register classes of %s" % (fn, sj),
                            "classes accepted: %s" % sorted(acc))
    chk.floor("width-class tests", n, 4)
    # R1: the accumulator short form of xchg (90+rd) exists only for 16/32/64-bit operands
    m2 = 0
    for s in key_sites(prog):
        if s["amount"] == 1 and signature(s["guard"]) == ("name", "xchg"):
            f = lib[s["fn"]]
            inner = None
            for node, parents in walk_with_parents(prog.body(f)):
                if node is s["node"]:
                    for p in reversed(parents):
                        if p.get("kind") == "IfStmt":
                            inner = kids(p)[0]
                            break
            if inner is None:
                continue
            subjects = set()
            for m in walk(inner):
                s_ = _masked_subject(prog, m, mm, {}) if m.get("kind") == "BinaryOperator" else None
                if s_:
                    subjects.add(s_)
            for sj in sorted(subjects):
                acc = class_set(prog, inner, sj, classes, mm, {}) - {"mmx64"}
                m2 += 1
                chk.require(acc == WIDE, rule, "%s/xchg-acc/%s" % (rule, sj), s["loc"],
                            "the one-byte xchg-with-accumulator form is chosen only for 16/32/64-bit operands (it has no 8-bit encoding)",
                            "classes accepted for %s: %s" % (sj, sorted(acc)))
    chk.floor("xchg accumulator guards", m2, 2)


def _only(prog, cond, subject, mm, defs):
    """predicate v -> may cond be true when `subject` has class v and every other masked subject has class reg8 (0)?"""
    ce = ConstEval(prog)

    def ev(e, v):
        e = strip(e)
        k = e.get("kind")
        if k == "UnaryOperator" and e.get("opcode") == "!":
            return not ev(kids(e)[0], v)
        if k == "BinaryOperator" and e.get("opcode") == "&&":
            return ev(kids(e)[0], v) and ev(kids(e)[1], v)
        if k == "BinaryOperator" and e.get("opcode") == "||":
            return ev(kids(e)[0], v) or ev(kids(e)[1], v)
        if k == "BinaryOperator" and e.get("opcode") in ("<", ">", "<=", ">=", "==", "!="):
            l, r = kids(e)
            sl, sr = _masked_subject(prog, l, mm, defs), _masked_subject(prog, r, mm, defs)
            a = (v if sl == subject else 0) if sl else ce.try_eval(l)
            b = (v if sr == subject else 0) if sr else ce.try_eval(r)
            if a is None or b is None:
                return True
            return {"<": a < b, ">": a > b, "<=": a <= b, ">=": a >= b, "==": a == b, "!=": a != b}[e["opcode"]]
        return True
    return lambda v: ev(cond, v)


# ---- bare-REX rule ------------------------------------------------------------------------------------------------------
def bare_rex_rule(chk, prog, rule="BAREREX"):
    """spl/bpl/sil/dil are only addressable with a REX prefix (0x40 without W/R/X/B).  In the function that derives the REX
    prefix of a ModRM instruction the test `operand >= spl` (8-bit class, not extended) that ORs in the bare prefix must exist
    for the r/m operand and for the ModRM.reg operand, and the one for the ModRM.reg operand must be reached on every path
    (the r/m one may be skipped where the size keyword path handles memory operands)."""
    from .core import walk_with_parents
    enums = prog.enums
    if "rex_" not in enums or "spl" not in enums:
        raise AnalysisBroken("enumerators rex_/spl not found")
    cands = []
    for fn, f in prog.lib_functions().items():
        ops = [p for p in prog.params(f) if "struct operand *" in qtype(p)]
        if len(ops) < 2:
            continue
        sites = []
        for m, parents in walk_with_parents(prog.body(f)):
            if m.get("kind") != "IfStmt":
                continue
            cond, then = kids(m)[0], kids(m)[1]
            sets = any(x.get("kind") == "CompoundAssignOperator" and x.get("opcode") == "|=" and
                       ConstEval(prog).try_eval(kids(x)[1]) == enums["rex_"] for x in walk(then))
            if not sets:
                continue
            subj = None
            for x in walk(cond):
                if x.get("kind") == "BinaryOperator" and x.get("opcode") in (">=", ">") and \
                        ConstEval(prog).try_eval(kids(x)[1]) in (enums["spl"], enums["spl"] - 1):
                    subj = strip(kids(x)[0], casts=True)
            if subj is None:
                continue
            nested = [p for p in parents if p.get("kind") in ("IfStmt", "SwitchStmt", "WhileStmt", "ForStmt", "ConditionalOperator")]
            sites.append((m, subj, nested))
        if sites:
            cands.append((fn, f, ops, sites))
    if len(cands) != 1:
        raise AnalysisBroken("the REX derivation with bare-prefix tests was not identified uniquely: %s" % [c[0] for c in cands])
    fn, f, ops, sites = cands[0]
    # which operand does a subject refer to: directly P->reg, or a local initialised from P->reg
    init = {}
    for m in walk(prog.body(f)):
        if m.get("kind") == "VarDecl" and kids(m):
            init[m["name"]] = expr_str(strip(kids(m)[-1], casts=True))
    by_op = {}
    for m, subj, nested in sites:
        t = expr_str(subj)
        t = init.get(t, t)
        for p in ops:
            if t.startswith(p["name"] + "->"):
                by_op.setdefault(p["name"], []).append((m, nested))
    # the ModRM.reg operand: the last struct operand parameter (m, r) - identified as the one whose REG_RB bit selects REX.R
    regop = None
    for m in walk(prog.body(f)):
        if m.get("kind") == "IfStmt":
            then = kids(m)[1]
            if any(x.get("kind") == "CompoundAssignOperator" and ConstEval(prog).try_eval(kids(x)[1]) == enums.get("rex_r") for x in walk(then)):
                for d in walk(kids(m)[0]):
                    if d.get("kind") == "DeclRefExpr" and ref_name(d) in [p["name"] for p in ops]:
                        regop = ref_name(d)
    if regop is None:
        raise AnalysisBroken("%s: the operand that selects REX.R was not identified" % fn)
    for p in ops:
        chk.require(p["name"] in by_op, rule, "%s/%s/%s" % (rule, fn, p["name"]), loc_str(f),
                    "%s tests operand %s for spl/bpl/sil/dil and ORs in the bare REX prefix" % (fn, p["name"]), "no such test")
    for m, nested in by_op.get(regop, []):
        chk.require(not nested, rule, "%s/%s/%s/unconditional" % (rule, fn, regop), loc_str(m),
                    "the bare-REX test of the ModRM.reg operand %s is reached on every path through %s" % (regop, fn),
                    "nested in %s" % [loc_str(x) for x in nested])
    chk.floor("bare-REX tests", sum(len(v) for v in by_op.values()), 2)


# ---- implicit size keywords only with a memory operand ---------------------------------------------------------------------
def implicit_keyword_rule(chk, prog, rule="KWMEM"):
    """The encoder sets a size keyword (byte/word/dword) implicitly from the register operand so that a memory operand gets
    its width.  With a register-only form the keyword must stay clear (the REX derivation takes the keyword branch otherwise and
    skips its register tests).  Every call of a function that stores `true` into one of these keyword fields outside the
    tokeniser is reached only where a memory operand is known to exist: `<instr>->mem_disp` is true, or a call that returns NA
    exactly when mem_disp is false returned something else."""
    from . import guards as GD
    lib = prog.lib_functions()
    ce = ConstEval(prog)
    KW = ("is_byte", "is_word", "is_dword")
    setters = []
    nlocal = 0
    is_mem_fact = lambda t: t.endswith("->mem_disp") or t.endswith(".mem_disp")
    for fn, f in lib.items():
        if any(c.get("kind") == "CallExpr" and callee_name(c) in ("strtok_r", "strstr") for c in walk(prog.body(f))) or \
                any("char" in qtype(p_) and "*" in qtype(p_) for p_ in prog.params(f)):
            continue        # the tokeniser sets the explicit keywords: it works on the text of the operand
        if not any(m.get("kind") == "MemberExpr" and m.get("name") in KW for m in walk(prog.body(f))):
            continue
        # a store that the function itself guards by the memory-operand test needs nothing from its callers
        for m, facts in GD.facts_at_stores(prog, fn):
            if m.get("kind") == "BinaryOperator" and m.get("opcode") == "=":
                l = strip(kids(m)[0], casts=True)
                if l.get("kind") == "MemberExpr" and l.get("name") in KW and ce.try_eval(kids(m)[1]) == 1:
                    if not GD.holds(facts, is_mem_fact, 0, False):
                        setters.append(fn)
                        break
                    nlocal += 1
                    chk.ok(rule, "%s/%s/local-store@%s" % (rule, fn, loc_str(m)), loc_str(m),
                           "the implicit keyword is stored under the function's own memory-operand test")
    setters = sorted(set(setters))
    # functions that return NA exactly when there is no memory operand
    na = prog.macro_value("NA") if hasattr(prog, "macro_value") else -1
    mem_tests = {}
    for fn, f in lib.items():
        body = kids(prog.body(f))
        if not body or body[0].get("kind") != "IfStmt":
            continue
        c = strip(kids(body[0])[0])
        then = kids(body[0])[1]
        neg_mem = c.get("kind") == "UnaryOperator" and c.get("opcode") == "!" and \
            strip(kids(c)[0], casts=True).get("kind") == "MemberExpr" and strip(kids(c)[0], casts=True).get("name") == "mem_disp"
        first_ret = [r for r in walk(then) if r.get("kind") == "ReturnStmt" and kids(r)]
        if not (neg_mem and first_ret):
            continue
        c0 = ce.try_eval(kids(first_ret[0])[0])
        same = [r for r in walk(prog.body(f)) if r.get("kind") == "ReturnStmt" and kids(r) and ce.try_eval(kids(r)[0]) == c0]
        if c0 is not None and len(same) == 1:
            mem_tests[fn] = c0          # returns c0 exactly when there is no memory operand
    n = 0
    for fn in sorted(lib):
        for call, facts in GD.facts_at_calls(prog, fn):
            if callee_name(call) not in setters or fn in setters:
                continue
            n += 1
            ok = GD.holds(facts, lambda t: t.endswith("->mem_disp") or t.endswith(".mem_disp"), 0, False) or \
                any(GD.holds(facts, lambda t, g=g: t.startswith(g + "("), c0, False) for g, c0 in mem_tests.items())
            chk.require(ok, rule, "%s/%s/%s@%s" % (rule, fn, callee_name(call), loc_str(call)), loc_str(call),
                        "%s() (sets an implicit size keyword) is called only where a memory operand is known to exist" % callee_name(call),
                        "facts at the call: %s" % sorted("%s %s %s" % (t, "==" if eq else "!=", c) for t, c, eq in facts)[:6])
    chk.analysed["implicit_keyword_setters"] = setters
    chk.analysed["memory_operand_tests"] = sorted(mem_tests)
    chk.floor("calls of implicit keyword setters", n + nlocal, 3)
