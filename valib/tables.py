"""TAB engine, part 1: extraction of the const tables from the AST.

Rows are matched to struct fields by field *name* (from the RecordDecl), cells
are evaluated with the constant evaluator; nothing depends on row positions or
source text."""
import re

from .core import (AnalysisBroken, ConstEval, NotConstant, kids, strip, expr_str, loc_str, qtype,
                   array_len, ref_name)


def _fields(prog, struct):
    rec = prog.records.get(struct)
    if rec is None:
        raise AnalysisBroken("struct %s not found" % struct)
    return [c for c in kids(rec) if c.get("kind") == "FieldDecl"]


def _elems(il):
    """explicit elements of an array InitListExpr and its declared length"""
    n = array_len(qtype(il))
    if "array_filler" in il:
        ex = [c for c in il["array_filler"][1:] if isinstance(c, dict) and c]
    else:
        ex = kids(il)
    return ex, n


def _str_value(n):
    """C string held by an initialiser of a char array: StringLiteral or {'x', ...}"""
    n = strip(n)
    if n.get("kind") == "StringLiteral":
        v = n.get("value", '""')
        body = v[1:-1]
        out = []
        i = 0
        while i < len(body):
            if body[i] == "\\" and i + 1 < len(body):
                c = body[i + 1]
                if c == "0":
                    out.append("\0")
                    i += 2
                    continue
                if c == "n":
                    out.append("\n"); i += 2; continue
                out.append(c)
                i += 2
                continue
            out.append(body[i])
            i += 1
        s = "".join(out)
        return s.split("\0")[0]
    if n.get("kind") == "InitListExpr":
        ex, _ = _elems(n)
        s = ""
        for c in ex:
            c = strip(c, casts=True)
            if c.get("kind") == "CharacterLiteral":
                if c["value"] == 0:
                    break
                s += chr(c["value"])
            elif c.get("kind") == "StringLiteral":
                return _str_value(c)
            else:
                raise AnalysisBroken("unexpected string initialiser at %s" % loc_str(n))
        return s
    raise AnalysisBroken("unexpected string initialiser kind %s at %s" % (n.get("kind"), loc_str(n)))


class Cell:
    __slots__ = ("value", "text", "node")

    def __init__(self, value, text, node):
        self.value, self.text, self.node = value, text, node


class Row:
    def __init__(self):
        self.idx = None
        self.loc = None
        self.f = {}        # field name -> int value
        self.ident = {}    # field name -> identifier/macro text of the initialiser
        self.instr_name = ""
        self.opd_format = []
        self.opd_format_ident = []
        self.opcode = []   # [Cell] explicit cells
        self.opcode_len = 0

    def __repr__(self):
        return "<row %s %s %s>" % (self.idx, self.ident.get("name"), self.instr_name)


def _ident(prog, n):
    """identifier of the initialiser: enumerator name, or macro name when the
    cell is spelled through an object-like macro (NA)"""
    s = strip(n, casts=True)
    m = prog.macro_of(s) if s else None
    if m:
        return m
    nm = ref_name(s) if s else None
    if nm:
        return nm
    return expr_str(n)


def instr_table(prog):
    t = prog.globals.get("INSTR_TABLE")
    if t is None or not kids(t):
        raise AnalysisBroken("INSTR_TABLE not found")
    il = kids(t)[-1]
    if il.get("kind") != "InitListExpr":
        raise AnalysisBroken("INSTR_TABLE has no initialiser list")
    fields = [f["name"] for f in _fields(prog, "instr_table")]
    need = {"instr_name", "name", "opd_format", "encode_operand", "type", "op_offset_i", "single_reg_r",
            "instr_size", "opcode"}
    if not need <= set(fields):
        raise AnalysisBroken("struct instr_table lost fields %s" % sorted(need - set(fields)))
    ce = ConstEval(prog)
    rows = []
    elems, n = _elems(il)
    if n is not None and len(elems) != n:
        raise AnalysisBroken("INSTR_TABLE: %d initialisers for %d rows" % (len(elems), n))
    for i, rn in enumerate(elems):
        rn = strip(rn)
        if rn.get("kind") != "InitListExpr":
            raise AnalysisBroken("INSTR_TABLE row %d is not an initialiser list" % i)
        vals = kids(rn)
        if len(vals) != len(fields):
            raise AnalysisBroken("INSTR_TABLE row %d has %d of %d fields" % (i, len(vals), len(fields)))
        r = Row()
        r.idx = i
        r.loc = loc_str(rn)
        for fname, v in zip(fields, vals):
            if fname == "instr_name":
                r.instr_name = _str_value(v)
            elif fname == "opd_format":
                ex, ln = _elems(strip(v))
                r.opd_format = [ce.eval(c) for c in ex] + [0] * ((ln or len(ex)) - len(ex))
                r.opd_format_ident = [_ident(prog, c) for c in ex]
            elif fname == "opcode":
                ex, ln = _elems(strip(v))
                r.opcode_len = ln
                for c in ex:
                    try:
                        val = ce.eval(c)
                    except NotConstant as e:
                        raise AnalysisBroken("INSTR_TABLE row %d: opcode cell not constant (%s)" % (i, e))
                    r.opcode.append(Cell(val & 0xffffffff, expr_str(c), c))
            else:
                try:
                    r.f[fname] = ce.eval(v)
                except NotConstant as e:
                    raise AnalysisBroken("INSTR_TABLE row %d field %s not constant (%s)" % (i, fname, e))
                r.ident[fname] = _ident(prog, v)
        rows.append(r)
    return rows


def opd_format_table(prog):
    t = prog.globals.get("OPD_FORMAT_TABLE")
    if t is None or not kids(t):
        raise AnalysisBroken("OPD_FORMAT_TABLE not found")
    il = kids(t)[-1]
    fields = [f["name"] for f in _fields(prog, "opd_format_table")]
    ce = ConstEval(prog)
    out = []
    elems, _ = _elems(il)
    for i, rn in enumerate(elems):
        vals = kids(strip(rn))
        d = dict(zip(fields, vals))
        out.append({"idx": i, "val": ce.eval(d["val"]), "ident": _ident(prog, d["val"]), "str": _str_value(d["str"]),
                    "loc": loc_str(rn)})
    return out


def reg_table(prog):
    t = prog.globals.get("REG_TABLE")
    if t is None or not kids(t):
        raise AnalysisBroken("REG_TABLE not found")
    il = kids(t)[-1]
    fields = [f["name"] for f in _fields(prog, "reg_table")]
    ce = ConstEval(prog)
    out = []
    elems, _ = _elems(il)
    for i, rn in enumerate(elems):
        vals = kids(strip(rn))
        d = dict(zip(fields, vals))
        conv = strip(d["reg_conversion"])
        ex, ln = _elems(conv)
        names = [_str_value(c) for c in ex]
        names += [""] * ((ln or len(names)) - len(names))
        out.append({"idx": i, "gen_reg": ce.eval(d["gen_reg"]), "ident": _ident(prog, d["gen_reg"]), "names": names,
                    "loc": loc_str(rn)})
    return out


def nop_table(prog):
    """[[bytes]] of FIXED_NOP_LENGTH (array of compound literals)"""
    t = prog.globals.get("FIXED_NOP_LENGTH")
    if t is None or not kids(t):
        raise AnalysisBroken("FIXED_NOP_LENGTH not found")
    il = kids(t)[-1]
    elems, n = _elems(il)
    ce = ConstEval(prog)
    out = []
    for e in elems:
        e = strip(e, casts=True)
        if e.get("kind") != "CompoundLiteralExpr":
            raise AnalysisBroken("FIXED_NOP_LENGTH entry is not a compound literal at %s" % loc_str(e))
        inner = kids(e)[0]
        ex, ln = _elems(inner)
        bs = [ce.eval(c) & 0xff for c in ex]
        bs += [0] * ((ln or len(bs)) - len(bs))
        out.append({"bytes": bs, "loc": loc_str(e), "declared": ln, "explicit": len(ex)})
    return out, n, loc_str(t)


# --------------------------------------------------------------------------
# decoding of an INSTR_TABLE row into architectural vocabulary
# --------------------------------------------------------------------------

class Markers:
    def __init__(self, prog):
        e = prog.enums
        for nm in ("REG", "REX", "VEX", "ib", "rd"):
            if nm not in e:
                raise AnalysisBroken("opcode marker %s not found" % nm)
        self.REG, self.REX, self.VEX, self.ib, self.rd = e["REG"], e["REX"], e["VEX"], e["ib"], e["rd"]
        self.all = {"REG": self.REG, "REX": self.REX, "VEX": self.VEX, "ib": self.ib, "rd": self.rd}


def classify_cell(v, mk, get_en):
    """('byte', b) | ('REX',) | ('REG',) | ('ib',) | ('rd', base) | ('VEX', descriptor) | ('bad', why)"""
    if v <= 0xff:
        return ("byte", v)
    hi = v & get_en
    kinds = [k for k, m in mk.all.items() if hi == m]
    if len(kinds) != 1:
        return ("bad", "marker bits %#x are not exactly one of REG/REX/VEX/ib/rd" % hi)
    k = kinds[0]
    low = v & ~get_en
    if k in ("REX", "REG", "ib"):
        if low:
            return ("bad", "%s marker with stray low bits %#x" % (k, low))
        return (k,)
    if k == "rd":
        if low > 0xff:
            return ("bad", "rd marker with base %#x" % low)
        return ("rd", low)
    return ("VEX", low)


def decode_vex(d):
    """descriptor bits as `assemble_VEX` consumes them (>>1 drops the WIG flag)"""
    wig = d & 1
    pp = (d >> 1) & 3
    L = (d >> 3) & 1
    tag = (d >> 4) & 0xf
    w1 = (d >> 8) & 1
    mmmmm = (d >> 9) & 0x1f
    rest = d >> 14
    if w1 and wig:
        W = "size"
    elif w1:
        W = "1"
    elif wig:
        W = "ig"
    else:
        W = "0"
    return {"pp": ["none", "66", "f3", "f2"][pp], "L": L, "W": W, "map": {1: "0f", 2: "0f38", 3: "0f3a"}.get(mmmmm, "?%d" % mmmmm),
            "tag": tag, "rest": rest}


def decode_row(r, mk, get_en, NA):
    """semantic description of a row or ('bad', why)"""
    size = r.f["instr_size"]
    cells = r.opcode
    out = {"pfx": [], "rex": False, "esc": [], "op": None, "op_index": None, "modrm": False, "ib": False, "rd": None,
           "vex": None, "tail": [], "problems": []}
    if size > (r.opcode_len or 0):
        out["problems"].append("instr_size %d exceeds the opcode array (%d)" % (size, r.opcode_len))
        return out
    if len(cells) > size and any(c.value for c in cells[size:]):
        out["problems"].append("non-zero cells beyond instr_size %d" % size)
    if len(cells) < size:
        # implicit zero cells inside instr_size are plain 0x00 bytes
        pass
    kinds = []
    for i in range(size):
        v = cells[i].value if i < len(cells) else 0
        kinds.append(classify_cell(v, mk, get_en))
    for i, k in enumerate(kinds):
        if k[0] == "bad":
            out["problems"].append("cell %d: %s" % (i, k[1]))
    if out["problems"]:
        return out
    names = [k[0] for k in kinds]
    for m in ("REX", "REG", "VEX", "ib", "rd"):
        if names.count(m) > 1:
            out["problems"].append("%d %s markers" % (names.count(m), m))
    if "VEX" in names and "REX" in names:
        out["problems"].append("both VEX and REX markers")
    if out["problems"]:
        return out
    # split: [legacy prefixes] [REX|VEX] [escape bytes] opcode [REG] [ib] / trailing bytes
    i = 0
    if "REX" in names or "VEX" in names:
        anchor = names.index("REX") if "REX" in names else names.index("VEX")
        for j in range(anchor):
            if kinds[j][0] != "byte" or kinds[j][1] not in (0x66, 0xf2, 0xf3):
                out["problems"].append("cell %d before the REX/VEX marker is not a mandatory prefix" % j)
            else:
                out["pfx"].append("%02x" % kinds[j][1])
        if "REX" in names:
            out["rex"] = True
        else:
            out["vex"] = decode_vex(kinds[anchor][1])
        i = anchor + 1
    else:
        # no REX: a leading 66/f2/f3 followed by 0f is a mandatory prefix
        while i < size and kinds[i][0] == "byte" and kinds[i][1] in (0x66, 0xf2, 0xf3) and i + 1 < size and \
                kinds[i + 1][0] == "byte" and kinds[i + 1][1] in (0x0f, 0x66, 0xf2, 0xf3):
            out["pfx"].append("%02x" % kinds[i][1])
            i += 1
    if out["problems"]:
        return out
    if not out["vex"]:
        if i < size and kinds[i] == ("byte", 0x0f) and i + 1 < size:
            out["esc"].append("0f")
            i += 1
            if i < size and kinds[i][0] == "byte" and kinds[i][1] in (0x38, 0x3a) and i + 1 < size and \
                    kinds[i + 1][0] in ("byte", "rd"):
                out["esc"].append("%02x" % kinds[i][1])
                i += 1
    if i >= size:
        out["problems"].append("no opcode byte")
        return out
    if kinds[i][0] == "byte":
        out["op"] = kinds[i][1]
    elif kinds[i][0] == "rd":
        out["op"] = kinds[i][1]
        out["rd"] = "op"
    else:
        out["problems"].append("cell %d where the opcode byte is expected is a %s marker" % (i, kinds[i][0]))
        return out
    out["op_index"] = i
    i += 1
    while i < size:
        k = kinds[i]
        if k[0] == "REG":
            out["modrm"] = True
        elif k[0] == "ib":
            out["ib"] = True
        elif k[0] == "byte":
            out["tail"].append(k[1])
        elif k[0] == "rd":
            out["tail"].append(("rd", k[1]))
        else:
            out["problems"].append("unexpected %s marker after the opcode" % k[0])
        i += 1
    ooi = r.f["op_offset_i"] & 0xffffffff
    if ooi == NA & 0xffffffff:
        out["width_at"] = None
    else:
        out["width_at"] = ooi
        if ooi >= size:
            out["problems"].append("op_offset_i %d is outside the %d opcode cells" % (ooi, size))
        elif kinds[ooi][0] not in ("byte", "rd"):
            out["problems"].append("op_offset_i %d points at a %s marker" % (ooi, kinds[ooi][0]))
    return out
