"""Structured control-flow interpreter over the clang AST.

The library has no goto, no setjmp and no indirect calls, so every function is
a tree of sequence / if / switch / loops with break / continue / return.  This
module walks that tree with an abstract domain supplied by the caller and
iterates loops to a fixpoint.

Domain interface (all states are opaque to the engine; None is bottom):
    copy(s) join(a, b) equal(a, b) widen(old, new)
    eval(expr, s) -> s            side effects of evaluating an expression
    assume(atom, truth, s) -> s|None   refine by a condition atom (after eval)
    decl(vardecl, s) -> s         a local declaration (with or without init)
    ret(stmt, s)                  a return statement is reached with state s
    enter(stmt, s)                optional hook, called for every statement
"""
from .core import AnalysisBroken, kids, strip, loc_str

WIDEN_AFTER = 40
MAX_ITER = 400


class Outcome:
    """states leaving a statement: normal fallthrough, break, continue, and forward gotos (label decl id -> state)"""
    __slots__ = ("next", "brk", "cont", "gotos")

    def __init__(self, nxt=None, brk=None, cont=None, gotos=None):
        self.next, self.brk, self.cont, self.gotos = nxt, brk, cont, gotos or {}


class Flow:
    def __init__(self, dom):
        self.d = dom
        self.seen_labels = set()

    # ---- helpers -----------------------------------------------------------
    def j(self, a, b):
        if a is None:
            return b
        if b is None:
            return a
        return self.d.join(a, b)

    def jg(self, a, b):
        """merge two goto maps"""
        if not b:
            return a
        out = dict(a)
        for k, v in b.items():
            out[k] = self.j(out.get(k), v)
        return out

    # ---- conditions -----------------------------------------------------------
    def cond(self, e, truth, s):
        """state after evaluating condition e to `truth` (None if infeasible)"""
        if s is None:
            return None
        c = strip(e)
        k = c.get("kind")
        if k == "UnaryOperator" and c.get("opcode") == "!":
            return self.cond(kids(c)[0], not truth, s)
        if k == "BinaryOperator" and c.get("opcode") in ("&&", "||"):
            a, b = kids(c)
            conj = (c["opcode"] == "&&")
            if conj == truth:
                # both must hold (&& true) / both must fail (|| false)
                return self.cond(b, truth, self.cond(a, truth, s))
            # either may decide
            s1 = self.cond(a, truth, self.d.copy(s))
            s2 = self.cond(b, truth, self.cond(a, not truth, self.d.copy(s)))
            return self.j(s1, s2)
        s = self.d.eval_cond(c, s) if hasattr(self.d, "eval_cond") else self.d.eval(c, s)
        if s is None:
            return None
        return self.d.assume(c, truth, s)

    # ---- statements --------------------------------------------------------------
    def stmt(self, n, s):
        if s is None:
            return Outcome()
        d = self.d
        if hasattr(d, "enter"):
            d.enter(n, s)
        k = n.get("kind")
        ks = kids(n)
        if k == "CompoundStmt":
            out = Outcome(nxt=s)
            for c in ks:
                if c.get("kind") == "LabelStmt":
                    # forward gotos to this label (from earlier statements of this block) join the flow here
                    lid = c.get("declId")
                    if lid in out.gotos:
                        out.next = self.j(out.next, out.gotos.pop(lid))
                    self.seen_labels.add(lid)
                    c = kids(c)[-1] if kids(c) else {"kind": "NullStmt"}
                if out.next is None:
                    # unreachable unless a later label is the target of a pending goto
                    continue
                o = self.stmt(c, out.next)
                out.next = o.next
                out.brk = self.j(out.brk, o.brk)
                out.cont = self.j(out.cont, o.cont)
                out.gotos = self.jg(out.gotos, o.gotos)
            return out
        if k == "NullStmt":
            return Outcome(nxt=s)
        if k == "DeclStmt":
            for c in ks:
                if c.get("kind") == "VarDecl" and s is not None:
                    s = d.decl(c, s)
            return Outcome(nxt=s)
        if k == "ReturnStmt":
            if ks:
                s = d.eval_ret(ks[0], s) if hasattr(d, "eval_ret") else d.eval(ks[0], s)
            if s is not None:
                d.ret(n, s)
            return Outcome()
        if k == "BreakStmt":
            return Outcome(brk=s)
        if k == "ContinueStmt":
            return Outcome(cont=s)
        if k == "IfStmt":
            cnd, then = ks[0], ks[1]
            els = ks[2] if len(ks) > 2 else None
            st = self.cond(cnd, True, d.copy(s))
            sf = self.cond(cnd, False, d.copy(s))
            o1 = self.stmt(then, st) if st is not None else Outcome()
            o2 = self.stmt(els, sf) if (els is not None and sf is not None) else Outcome(nxt=sf)
            return Outcome(self.j(o1.next, o2.next), self.j(o1.brk, o2.brk), self.j(o1.cont, o2.cont), self.jg(o1.gotos, o2.gotos))
        if k == "WhileStmt":
            return self.loop(s, cond=ks[0], body=ks[-1], inc=None, test_first=True)
        if k == "DoStmt":
            return self.loop(s, cond=ks[1], body=ks[0], inc=None, test_first=False)
        if k == "ForStmt":
            # clang: [init, condvar, cond, inc, body]
            raw = n.get("inner", [])
            init, cnd, inc, body = raw[0], raw[2], raw[3], raw[4]
            if init:
                o = self.stmt(init, s)
                s = o.next
            return self.loop(s, cond=cnd or None, body=body, inc=inc or None, test_first=True)
        if k == "SwitchStmt":
            return self.switch(n, s)
        if k in ("CaseStmt", "DefaultStmt"):
            return self.stmt(ks[-1], s)
        if k == "GotoStmt":
            lid = n.get("targetLabelDeclId")
            if lid is None or lid in self.seen_labels:
                raise AnalysisBroken("backward goto at %s: the structured interpreter only handles forward gotos (cleanup labels)" % loc_str(n))
            return Outcome(gotos={lid: s})
        if k == "LabelStmt":
            # a label that is not a direct child of a block
            self.seen_labels.add(n.get("declId"))
            return self.stmt(ks[-1], s) if ks else Outcome(nxt=s)
        if k == "IndirectGotoStmt":
            raise AnalysisBroken("indirect goto at %s" % loc_str(n))
        # expression statement
        s = d.eval(n, s)
        return Outcome(nxt=s)

    def loop(self, s, cond, body, inc, test_first):
        d = self.d
        head = d.copy(s)            # state at loop head (before the test for while/for; before the body for do)
        exit_state = None
        loop_gotos = {}
        it = 0
        while True:
            it += 1
            if it > MAX_ITER:
                raise AnalysisBroken("loop did not stabilise at %s" % loc_str(body))
            cur = d.copy(head)
            exit_now = None
            if test_first:
                if cond:
                    exit_now = self.cond(cond, False, d.copy(cur))
                    cur = self.cond(cond, True, cur)
            o = self.stmt(body, cur) if cur is not None else Outcome()
            loop_gotos = self.jg(loop_gotos, o.gotos)
            after = self.j(o.next, o.cont)
            if inc and after is not None:
                after = d.eval(inc, after)
            if not test_first:
                # do { } while (cond)
                if after is not None and cond:
                    exit_now = self.cond(cond, False, d.copy(after))
                    after = self.cond(cond, True, after)
                elif after is not None:
                    exit_now = after
            exit_now = self.j(exit_now, o.brk)
            exit_state = self.j(exit_state, exit_now)
            if after is None:
                break
            new_head = d.join(d.copy(head), after)
            if it > getattr(d, "widen_after", WIDEN_AFTER):
                new_head = d.widen(head, new_head)
            if d.equal(new_head, head):
                break
            head = new_head
        # one more pass is not needed: exit_state accumulated over all iterations is an over-approximation
        # only if it was computed from the final head; recompute once from the fixpoint head
        cur = d.copy(head)
        final_exit = None
        if test_first:
            if cond:
                final_exit = self.cond(cond, False, d.copy(cur))
                cur = self.cond(cond, True, cur)
        o = self.stmt(body, cur) if cur is not None else Outcome()
        after = self.j(o.next, o.cont)
        if inc and after is not None:
            after = d.eval(inc, after)
        if not test_first:
            if after is not None and cond:
                final_exit = self.cond(cond, False, d.copy(after))
            elif after is not None:
                final_exit = after
        if test_first and cond:
            # the loop is left either before the first iteration (the test fails on the entry state) or after some iteration (it
            # fails on a state that came round the back edge); testing the two apart keeps what every iteration establishes
            # (head = entry joined with the back-edge states, so this is no less sound than testing the joined head)
            first = self.cond(cond, False, d.copy(s))
            later = self.cond(cond, False, d.copy(after)) if after is not None else None
            final_exit = self.j(first, later)
        final_exit = self.j(final_exit, o.brk)
        loop_gotos = self.jg(loop_gotos, o.gotos)
        return Outcome(nxt=final_exit, gotos=loop_gotos)

    def switch(self, n, s):
        d = self.d
        ks = kids(n)
        cnd, body = ks[0], ks[-1]
        s = d.eval(cnd, s)
        if s is None:
            return Outcome()
        stmts = kids(body) if body.get("kind") == "CompoundStmt" else [body]
        # entry states per statement index
        has_default = False
        labels = []      # (index, case expr or None)
        for i, st in enumerate(stmts):
            lab = st
            while lab.get("kind") in ("CaseStmt", "DefaultStmt"):
                if lab["kind"] == "DefaultStmt":
                    has_default = True
                    labels.append((i, None))
                else:
                    labels.append((i, kids(lab)[0]))
                lab = kids(lab)[-1]
        out = Outcome()
        flow_in = None
        case_exprs = [e for _, e in labels if e is not None]
        for i, st in enumerate(stmts):
            entry = None
            for (li, e) in labels:
                if li != i:
                    continue
                if e is not None:
                    se = d.assume_case(cnd, e, d.copy(s)) if hasattr(d, "assume_case") else d.copy(s)
                else:
                    se = d.assume_default(cnd, case_exprs, d.copy(s)) if hasattr(d, "assume_default") else d.copy(s)
                entry = self.j(entry, se)
            cur = self.j(flow_in, entry)
            inner = st
            while inner.get("kind") in ("CaseStmt", "DefaultStmt"):
                inner = kids(inner)[-1]
            o = self.stmt(inner, cur) if cur is not None else Outcome()
            flow_in = o.next
            out.brk = self.j(out.brk, o.brk)
            out.cont = self.j(out.cont, o.cont)
            out.gotos = self.jg(out.gotos, o.gotos)
        nxt = self.j(flow_in, out.brk)
        if not has_default:
            nd = d.assume_default(cnd, case_exprs, d.copy(s)) if hasattr(d, "assume_default") else d.copy(s)
            nxt = self.j(nxt, nd)
        return Outcome(nxt=nxt, cont=out.cont, gotos=out.gotos)

    def function(self, prog, f, init):
        body = prog.body(f)
        o = self.stmt(body, init)
        if o.gotos:
            raise AnalysisBroken("goto to a label that is not in an enclosing block of %s" % f.get("name"))
        return o.next       # state falling off the end (void functions)
