"""Obligation bookkeeping, known findings, evidence files, exit protocol.

exit 0  every obligation discharged (known findings printed as KNOWN-FINDING)
exit 1  at least one obligation refuted and not listed as known: VIOLATION lines
exit 2  analysis broken (anchor vanished / unknown idiom / floor not reached)
"""
import json
import os
import sys
import time

from .core import VERIF, AnalysisBroken


def OUTBASE():
    """evidence/ and out/ live in /verif, except for self-test runs on scratch
    copies (VERIF_SCRATCH_OUT), which must not touch the real evidence"""
    return os.environ.get("VERIF_SCRATCH_OUT") or VERIF


class Ob:
    __slots__ = ("rule", "key", "where", "what", "status", "witness")

    def __init__(self, rule, key, where, what, status, witness=None):
        self.rule = rule        # rule family, e.g. "T2"
        self.key = key          # stable instance key, e.g. "T2/row=shr#0"
        self.where = where      # file:line
        self.what = what        # one-line statement of the obligation
        self.status = status    # "ok" | "violated" | "broken"
        self.witness = witness  # computed witness for violated/broken

    def as_dict(self):
        d = {"rule": self.rule, "key": self.key, "where": self.where, "what": self.what, "status": self.status}
        if self.witness is not None:
            d["witness"] = self.witness
        return d


class Check:
    def __init__(self, prop, tier="quick", level="other"):
        self.prop = prop
        self.tier = tier
        self.level = level
        self.obs = []
        self.t0 = time.time()
        self.analysed = {}
        self.floors = []          # (name, measured, minimum)
        self.assumptions = []
        self.notes = {}
        self.explanation = ""
        self.trusted_base = []
        self.model = None         # for model_checking: dict(states=, transitions=, samples=)
        self.seed = int(os.environ.get("VERIF_SEED", "0") or 0)

    # ---- recording -------------------------------------------------------
    def ok(self, rule, key, where, what):
        self.obs.append(Ob(rule, key, where, what, "ok"))

    def bad(self, rule, key, where, what, witness):
        self.obs.append(Ob(rule, key, where, what, "violated", witness))

    def broken(self, rule, key, where, what, witness):
        self.obs.append(Ob(rule, key, where, what, "broken", witness))

    def require(self, cond, rule, key, where, what, witness=None):
        if cond:
            self.ok(rule, key, where, what)
        else:
            self.bad(rule, key, where, what, witness)
        return cond

    def floor(self, name, measured, confirmed):
        """`confirmed` is the instance count confirmed by hand on the pinned tree.  The rule counts as vacuous (analysis broken)
        only when clearly fewer instances are found - two thirds of the confirmed count - so that merging two sites or
        replacing an if-chain by a switch in an otherwise correct tree is not reported as a broken analysis."""
        self.floors.append((name, measured, max(1, (2 * confirmed + 2) // 3) if confirmed > 0 else 0))

    # ---- finish ----------------------------------------------------------
    def _known(self):
        path = os.path.join(VERIF, "known_findings.json")
        if not os.path.exists(path):
            return {}
        with open(path) as f:
            data = json.load(f)
        return {e["key"]: e for e in data.get("findings", [])
                if e.get("status") == "known" and e.get("property") == self.prop}

    def finish(self):
        known = self._known()
        broken = [o for o in self.obs if o.status == "broken"]
        for name, measured, minimum in self.floors:
            if measured < minimum:
                broken.append(Ob("FLOOR", "FLOOR/" + name, "-", "instance floor %s >= %d" % (name, minimum),
                                 "broken", "only %d instances found" % measured))
        viol = [o for o in self.obs if o.status == "violated"]
        new = [o for o in viol if o.key not in known]
        kn = [o for o in viol if o.key in known]
        outdir = os.path.join(OUTBASE(), "out", self.prop)
        os.makedirs(outdir, exist_ok=True)
        for f in os.listdir(outdir):
            try:
                os.unlink(os.path.join(outdir, f))
            except OSError:
                pass
        for o in kn:
            print("KNOWN-FINDING: property=%s %s [%s at %s: %s]" % (self.prop, known[o.key].get("what", o.what), o.key, o.where, o.witness))
        for i, o in enumerate(new):
            path = os.path.join(outdir, "%d.json" % i)
            with open(path, "w") as f:
                json.dump({"property": self.prop, **o.as_dict()}, f, indent=1)
            print("%s %s: %s -- %s" % (o.where, o.key, o.what, o.witness))
            print("VIOLATION property=%s replay=%s" % (self.prop, path))
        for o in broken:
            print("ANALYSIS-BROKEN property=%s %s at %s: %s -- %s" % (self.prop, o.key, o.where, o.what, o.witness),
                  file=sys.stderr)
        self._evidence(len(new), len(kn), broken)
        n_ok = sum(1 for o in self.obs if o.status == "ok")
        print("%s[%s]: %d obligations, %d discharged, %d known findings, %d violations, %d broken (%.1fs)" % (
            self.prop, self.tier, len(self.obs), n_ok, len(kn), len(new), len(broken), time.time() - self.t0))
        if new:
            return 1
        if broken:
            return 2
        return 0

    def _evidence(self, n_new, n_known, broken):
        n_ok = sum(1 for o in self.obs if o.status == "ok")
        rules = {}
        for o in self.obs:
            r = rules.setdefault(o.rule, {"obligations": 0, "discharged": 0})
            r["obligations"] += 1
            if o.status == "ok":
                r["discharged"] += 1
        samples = []
        seen = set()
        for o in self.obs:           # one sample per rule, then the refuted ones
            if o.rule not in seen:
                seen.add(o.rule)
                samples.append(o.as_dict())
        for o in self.obs:
            if o.status != "ok" and len(samples) < 60:
                samples.append(o.as_dict())
        cov = {
            "obligations": len(self.obs),
            "discharged": n_ok,
            "evaluations": len(self.obs),
            "distinct_nontrivial": len({o.key for o in self.obs}),
            "rule": "one obligation per (rule, instance) enumerated from the parsed program; distinct = distinct instance keys",
            "samples": samples,
            "checker_cmd": "bin/check %s --tier %s" % (self.prop, self.tier),
            "trusted_base": self.trusted_base or ["clang 14 front end (parser, types, constant folding)",
                                                  "the checker in /verif/valib"],
            "explanation": self.explanation or "static rules over the parsed program; see per_rule and samples",
            "exhaustive": True,
            "per_rule": rules,
            "analysed": self.analysed,
            "floors": [{"name": n, "measured": m, "minimum": k} for n, m, k in self.floors],
            "known_findings_reported": n_known,
            "analysis_broken": [o.as_dict() for o in broken],
        }
        if self.model:
            cov.update(self.model)
        cov.update(self.notes)
        ev = {
            "property_id": self.prop,
            "tier": self.tier,
            "seed": self.seed,
            "level": self.level,
            "coverage": cov,
            "assumptions": self.assumptions,
            "wall_s": round(time.time() - self.t0, 3),
            "violations": n_new,
        }
        d = os.path.join(OUTBASE(), "evidence")
        os.makedirs(d, exist_ok=True)
        tmp = os.path.join(d, ".%s.%d.tmp" % (self.prop, os.getpid()))
        with open(tmp, "w") as f:
            json.dump(ev, f, indent=1)
        os.replace(tmp, os.path.join(d, self.prop + ".json"))


def run_check(prop, fn, tier, level="other"):
    """Run a check body `fn(chk, prog)`; map AnalysisBroken to exit 2."""
    from .core import load_program
    chk = Check(prop, tier, level)
    try:
        prog = load_program()
        chk.analysed["units"] = prog.lib_units + prog.tool_units
        chk.analysed["tree_hash"] = prog.tree_hash
        fn(chk, prog)
    except AnalysisBroken as e:
        chk.broken("ANCHOR", "ANCHOR", "-", "the construct the rule is anchored in is visible", str(e))
    return chk.finish()
