"""Rules about the three emitters, chunk modes and counting (C07 C13 C14)."""
from .core import (AnalysisBroken, ConstEval, kids, strip, walk, walk_with_parents, expr_str, loc_str, qtype, ref_name,
                   callee_name, call_args)
from . import eff as EFF
from . import pipeline as PL
from .flow import Flow


def _norm(e):
    return expr_str(strip(e, casts=True))


def _split_add(e):
    """terms of a + b (+ c)"""
    e = strip(e, casts=True)
    if e.get("kind") == "BinaryOperator" and e.get("opcode") == "+":
        return _split_add(kids(e)[0]) + _split_add(kids(e)[1])
    return [e]


def emitter_facts(prog, roles, em):
    """structural facts of one emitter"""
    f = prog.fn(em)
    ps = prog.params(f)
    inst = ps[0]["name"]
    posname, is_param = PL.position_of(prog, roles, em)
    P = ("*" + posname) if is_param else posname
    facts = {"fn": em, "inst": inst, "P": P, "encode_calls": [], "room_calls": [], "pad_calls": [], "grid": [], "updates": [],
             "locals": {}}
    for m in walk(prog.body(f)):
        if m.get("kind") == "VarDecl" and kids(m):
            facts["locals"][m["name"]] = kids(m)[-1]
    for m in walk(prog.body(f)):
        k = m.get("kind")
        if k == "CallExpr":
            cn = callee_name(m)
            if cn == roles.encode:
                facts["encode_calls"].append(m)
            elif cn == roles.room_check:
                facts["room_calls"].append(m)
            elif cn == roles.padder:
                facts["pad_calls"].append(m)
        if k == "BinaryOperator" and m.get("opcode") == "-":
            r = strip(kids(m)[1], casts=True)
            if r.get("kind") == "BinaryOperator" and r.get("opcode") == "%":
                facts["grid"].append(m)
        if k == "CompoundAssignOperator" and m.get("opcode") == "+=" and _norm(kids(m)[0]) == P:
            facts["updates"].append(m)
    return facts


def emitter_shape_rules(chk, prog, roles, want=("DEST", "ROOMPOS", "ADV", "GRID"), rule="SHAPE"):
    n = 0
    for em in roles.emitters:
        fa = emitter_facts(prog, roles, em)
        P, inst = fa["P"], fa["inst"]
        dest_want = sorted([inst + "->buffer", P])
        if "DEST" in want:
            for c in fa["encode_calls"] + fa["pad_calls"]:
                n += 1
                d = call_args(c)[1] if callee_name(c) == roles.encode else call_args(c)[0]
                d = strip(d, casts=True)
                if d.get("kind") == "DeclRefExpr" and ref_name(d) in fa["locals"]:
                    d = fa["locals"][ref_name(d)]
                got = sorted(_norm(t) for t in _split_add(d))
                chk.require(got == dest_want, rule, "%s/dest/%s/%s" % (rule, em, callee_name(c)), loc_str(c),
                            "%s() in %s writes at <instance>->buffer + <current position>" % (callee_name(c), em), "writes at %s" % _norm(d))
        if "ROOMPOS" in want:
            for c in fa["room_calls"]:
                n += 1
                a = call_args(c)
                chk.require(len(a) == 2 and _norm(a[0]) == inst and _norm(a[1]) == P, rule, "%s/roompos/%s" % (rule, em), loc_str(c),
                            "the room check in %s is made for this instance at the current position" % em, "called with (%s)" % ", ".join(_norm(x) for x in a))
        if "ADV" in want:
            # the position advances by the value the encoder returned for this instruction
            results = set()
            for nm, init in fa["locals"].items():
                i = strip(init, casts=True)
                if i.get("kind") == "CallExpr" and callee_name(i) in (roles.encode,):
                    results.add(nm)
            okadv = False
            for u in fa["updates"]:
                r = strip(kids(u)[1], casts=True)
                if ref_name(r) in results or (r.get("kind") == "CallExpr" and callee_name(r) == roles.encode):
                    okadv = True
            # an emitter built on another emitter: the delegate (checked on its own) advances the position it is handed
            posname_ = P.lstrip("*")
            for c in walk(prog.body(prog.fn(em))):
                if c.get("kind") == "CallExpr" and callee_name(c) in roles.emitters and callee_name(c) != em and not fa["encode_calls"]:
                    if any(_norm(a) == posname_ for a in call_args(c)) and any(_norm(a) == inst for a in call_args(c)):
                        okadv = True
            n += 1
            chk.require(okadv, rule, "%s/advance/%s" % (rule, em), loc_str(prog.fn(em)),
                        "%s advances the position by the length the encoder returned" % em,
                        "updates: %s" % [expr_str(u) for u in fa["updates"]])
            for u in fa["updates"]:
                r = strip(kids(u)[1], casts=True)
                good = ref_name(r) in results or (r.get("kind") == "CallExpr" and callee_name(r) in (roles.encode, roles.padder))
                n += 1
                chk.require(good, rule, "%s/advance-by/%s/%s" % (rule, em, _norm(r)[:30]), loc_str(u),
                            "the position changes only by lengths actually written (encoder or padding writer results)", expr_str(u))
        if "GRID" in want:
            for gexp in fa["grid"]:
                n += 1
                f_ = prog.fn(em)
                reassigned = {ref_name(strip(kids(x)[0])) for x in walk(prog.body(f_))
                              if x.get("kind") in ("BinaryOperator", "CompoundAssignOperator") and x.get("opcode", "").endswith("=") and
                              x.get("opcode") not in ("==", "!=", "<=", ">=") and strip(kids(x)[0]).get("kind") == "DeclRefExpr"}

                def res(e):
                    """text of e with a local that only ever holds <instance>->chunk_size replaced by that field"""
                    e0 = strip(e, casts=True)
                    if e0.get("kind") == "DeclRefExpr" and ref_name(e0) in fa["locals"] and ref_name(e0) not in reassigned:
                        i0 = _norm(fa["locals"][ref_name(e0)])
                        if i0 == inst + "->chunk_size":
                            return i0
                        if i0 == P and not fa["encode_calls"]:
                            return i0       # the position as it was before the delegate emitter advanced it
                    return _norm(e0)
                l = res(kids(gexp)[0])
                r = strip(kids(gexp)[1], casts=True)
                a, b = res(kids(r)[0]), res(kids(r)[1])
                cs = inst + "->chunk_size"
                chk.require(l == cs and b == cs and a == P, rule, "%s/grid/%s" % (rule, em), loc_str(gexp),
                            "free space in the chunk is chunk_size - (position mod chunk_size), measured from the buffer start", expr_str(gexp))
            if fa["pad_calls"]:
                for c in fa["pad_calls"]:
                    n += 1
                    ln = strip(call_args(c)[1], casts=True)
                    src = fa["locals"].get(ref_name(ln)) if ref_name(ln) else None
                    ok = src is not None and any(src is g or strip(src, casts=True) is g for g in fa["grid"])
                    chk.require(ok, rule, "%s/pad-length/%s" % (rule, em), loc_str(c),
                                "the padding length is the free space computed for the current position", "length %s" % _norm(ln))
    return n


# --------------------------------------------------------------------------
class ModeDomain:
    """state: (mode value set, lt2 in {True, False, None}, chunk field from param?)"""

    def __init__(self, prog, inst, sizeparam, driver, enumvals):
        self.prog, self.inst, self.size, self.driver = prog, inst, sizeparam, driver
        self.ev = enumvals
        self.calls, self.rets = [], []

    def copy(self, s): return dict(s)

    def join(self, a, b):
        return {"mode": a["mode"] | b["mode"], "lt2": a["lt2"] if a["lt2"] == b["lt2"] else None,
                "chunk": a["chunk"] if a["chunk"] == b["chunk"] else "?"}

    def equal(self, a, b): return a == b
    def widen(self, o, n): return n

    def decl(self, vd, s):
        for c in kids(vd):
            s = self.eval(c, s)
        return s

    def _mode_of(self, rhs, s):
        """names of the mode values an assigned expression can have (a conditional expression on the size is split by assume)"""
        src = strip(rhs, casts=True)
        if src.get("kind") == "ConditionalOperator":
            c, a, b = kids(src)
            out = frozenset()
            for arm, t in ((a, True), (b, False)):
                cnd, tt = strip(c), t
                while cnd.get("kind") == "UnaryOperator" and cnd.get("opcode") == "!":
                    cnd, tt = strip(kids(cnd)[0]), not tt
                if self.assume(cnd, tt, self.copy(s)) is not None:
                    out |= self._mode_of(arm, s)
            return out
        v = ConstEval(self.prog).try_eval(rhs)
        nm = [n for n, x in self.ev.items() if x == v]
        if nm:
            return frozenset(nm)
        saved = src.get("kind") == "DeclRefExpr" or (src.get("kind") == "MemberExpr" and not src.get("isArrow"))
        return frozenset(["saved" if saved else "?"])

    def eval(self, e, s):
        e0 = strip(e)
        if not e0:
            return s
        k, ks = e0.get("kind"), kids(e0)
        if k == "BinaryOperator" and e0.get("opcode") == "=":
            s = self.eval(ks[1], s)
            l = strip(ks[0])
            if l.get("kind") == "MemberExpr" and ref_name(kids(l)[0]) == self.inst:
                if l.get("name") == "assembly_mode":
                    s["mode"] = self._mode_of(ks[1], s)
                if l.get("name") == "chunk_size":
                    src = strip(ks[1], casts=True)
                    s["chunk"] = "param" if ref_name(src) == self.size else ("saved" if (src.get("kind") == "DeclRefExpr" or (src.get("kind") == "MemberExpr" and not src.get("isArrow"))) else "?")
            return s
        if k == "CallExpr":
            for a in call_args(e0):
                s = self.eval(a, s)
            if callee_name(e0) == self.driver:
                self.calls.append((e0, dict(s)))
            return s
        for c in ks:
            s = self.eval(c, s)
        return s

    def assume(self, e, truth, s):
        e0 = strip(e)
        if e0.get("kind") == "BinaryOperator" and e0.get("opcode") in ("<", "<=", ">", ">="):
            l, r = strip(kids(e0)[0], casts=True), strip(kids(e0)[1], casts=True)
            if ref_name(l) == self.size:
                v = ConstEval(self.prog).try_eval(r)
                op = e0["opcode"]
                lt2 = None
                if (op, v) in (("<", 2), ("<=", 1)):
                    lt2 = truth
                elif (op, v) in ((">=", 2), (">", 1)):
                    lt2 = not truth
                if lt2 is not None:
                    s["lt2"] = lt2
        return s

    def ret(self, n, s):
        self.rets.append((n, dict(s)))


def _mode_enum(prog):
    mem = prog.enum_members("ASM_MODE")
    if not mem:
        raise AnalysisBroken("enum ASM_MODE not found")
    return dict(mem)


def counting_mode_rule(chk, prog, roles, rule="MODE"):
    """the counting entry selects ASSEMBLE exactly when chunk_size < 2, and CHUNK_COUNT with the
    caller's chunk size otherwise, at the moment it calls the driver"""
    ev = _mode_enum(prog)
    n = 0
    for fn in roles.direct_entries:
        f = prog.fn(fn)
        ps = prog.params(f)
        sizep = [p["name"] for p in ps if p["name"] == "chunk_size" or (qtype(p) == "int" and "chunk" in p["name"])]
        if not sizep:
            continue
        dom = ModeDomain(prog, ps[0]["name"], sizep[0], roles.driver, ev)
        Flow(dom).function(prog, f, {"mode": frozenset(["entry"]), "lt2": None, "chunk": "entry"})
        for c, s in dom.calls:
            n += 1
            key = "%s/count-entry/%s" % (rule, fn)
            if s["lt2"] is None and s["mode"] == frozenset(["ASSEMBLE"]):
                continue
            # path-split: the flow engine joins both branches before the call; analyse the branch outcome instead
            ok = False
            witness = "mode %s when chunk_size<2 is %s" % (sorted(s["mode"]), s["lt2"])
            chk.require(_count_paths_ok(prog, f, dom, ev), rule, key, loc_str(c),
                        "at the call into the driver the mode is ASSEMBLE iff chunk_size < 2, else CHUNK_COUNT with chunk_size taken from the argument",
                        witness)
    return n


def _count_paths_ok(prog, f, dom0, ev):
    """enumerate the two branch outcomes explicitly: re-run the domain with lt2 fixed"""
    res = {}
    for lt2 in (True, False):
        class Fixed(ModeDomain):
            def assume(self, e, truth, s, lt2=lt2):
                e0 = strip(e)
                if e0.get("kind") == "BinaryOperator" and e0.get("opcode") in ("<", "<=", ">", ">="):
                    l, r = strip(kids(e0)[0], casts=True), strip(kids(e0)[1], casts=True)
                    if ref_name(l) == self.size:
                        v = ConstEval(self.prog).try_eval(r)
                        op = e0["opcode"]
                        val = None
                        if (op, v) in (("<", 2), ("<=", 1)):
                            val = lt2
                        elif (op, v) in ((">=", 2), (">", 1)):
                            val = not lt2
                        if val is not None and val != truth:
                            return None
                return s
        d = Fixed(dom0.prog, dom0.inst, dom0.size, dom0.driver, ev)
        Flow(d).function(prog, f, {"mode": frozenset(["entry"]), "lt2": lt2, "chunk": "entry"})
        res[lt2] = d.calls
    ok = True
    for c, s in res[True]:
        ok = ok and s["mode"] == frozenset(["ASSEMBLE"])
    for c, s in res[False]:
        ok = ok and s["mode"] == frozenset(["CHUNK_COUNT"]) and s["chunk"] == "param"
    return ok and bool(res[True]) and bool(res[False])


def setter_mode_rule(chk, prog, rule="MODE"):
    """asm_set_chunk_size enables fitting only with a size >= 2 (and stores that size)"""
    ev = _mode_enum(prog)
    f = prog.fn("asm_set_chunk_size")
    ps = prog.params(f)
    res = {}
    for lt2 in (True, False):
        class Fixed(ModeDomain):
            def assume(self, e, truth, s, lt2=lt2):
                e0 = strip(e)
                if e0.get("kind") == "BinaryOperator" and e0.get("opcode") in ("<", "<=", ">", ">="):
                    l, r = strip(kids(e0)[0], casts=True), strip(kids(e0)[1], casts=True)
                    if ref_name(l) == self.size:
                        v = ConstEval(self.prog).try_eval(r)
                        op = e0["opcode"]
                        val = None
                        if (op, v) in (("<", 2), ("<=", 1)):
                            val = lt2
                        elif (op, v) in ((">=", 2), (">", 1)):
                            val = not lt2
                        if val is not None and val != truth:
                            return None
                return s
        d = Fixed(prog, ps[0]["name"], ps[1]["name"], "\0", ev)
        end = Flow(d).function(prog, f, {"mode": frozenset(["entry"]), "lt2": lt2, "chunk": "entry"})
        outs = [s for _, s in d.rets] + ([end] if end is not None else [])
        res[lt2] = outs
    ok_small = bool(res[True]) and all(s["mode"] == frozenset(["ASSEMBLE"]) for s in res[True])
    ok_big = bool(res[False]) and all(s["mode"] == frozenset(["CHUNK_FITTING"]) and s["chunk"] == "param" for s in res[False])
    chk.require(ok_small, rule, rule + "/setter/small", loc_str(f), "asm_set_chunk_size with a size below 2 leaves the instance in plain ASSEMBLE mode",
                str([sorted(s["mode"]) for s in res[True]]))
    chk.require(ok_big, rule, rule + "/setter/fitting", loc_str(f),
                "asm_set_chunk_size with a size >= 2 selects CHUNK_FITTING and stores that size",
                str([(sorted(s["mode"]), s["chunk"]) for s in res[False]]))


def division_sites_rule(chk, prog, roles, rule="DIV"):
    """every % or / by chunk_size lives in a function only reached under the CHUNK_COUNT / CHUNK_FITTING
    cases of the driver's mode switch (where the mode rules guarantee chunk_size >= 2), or in a debug
    printer that tests the size itself"""
    ev = _mode_enum(prog)
    lib = prog.lib_functions()
    n = 0
    # which emitters does the driver call under which values of the mode (switch cases or ==/!= tests: a flow analysis
    # of the driver over the set of possible modes)
    drv = lib[roles.driver]
    dom = _ModeAtCallDomain(prog, ev, set(lib))
    Flow(dom).function(prog, drv, frozenset(ev.values()))
    names = {v: k for k, v in ev.items()}
    case_of = {}
    for callee, modes in dom.calls:
        case_of.setdefault(callee, set()).update(names.get(v, "?%s" % v) for v in modes)
    guarded_fitting = {c for c, modes in case_of.items() if modes <= {"CHUNK_FITTING"}}
    for fn, f in sorted(lib.items()):
        for m in walk(prog.body(f)):
            if m.get("kind") == "BinaryOperator" and m.get("opcode") in ("%", "/"):
                d = strip(kids(m)[1], casts=True)
                txt = _norm(d)
                if "chunk_size" not in txt:
                    continue
                n += 1
                key = "%s/%s@%s" % (rule, fn, expr_str(m)[:40])
                if fn in roles.emitters:
                    cases = case_of.get(fn, set())
                    chk.require(bool(cases) and cases <= {"CHUNK_COUNT", "CHUNK_FITTING"}, rule, key, loc_str(m),
                                "the division by chunk_size is only reached in the CHUNK_COUNT / CHUNK_FITTING cases of the mode switch",
                                "%s is called under cases %s" % (fn, sorted(cases)))
                else:
                    # debug printer: the caller guards with mode == CHUNK_FITTING
                    callers = EFF.callers_of(roles.g, fn)
                    okc = callers == [roles.driver] and fn in guarded_fitting
                    chk.require(okc, rule, key, loc_str(m), "the division by chunk_size outside the emitters is only reached when the mode is CHUNK_FITTING",
                                "callers %s" % callers)
    chk.floor("divisions by chunk_size", n, 3)
    return n


class _ModeAtCallDomain:
    """state: frozenset of the values <instance>->assembly_mode can have; records it at every call of a library function"""

    def __init__(self, prog, ev, libnames):
        self.prog, self.ev, self.lib = prog, ev, libnames
        self.calls = []
        self.ce = ConstEval(prog)

    def copy(self, s): return s
    def join(self, a, b): return a | b
    def equal(self, a, b): return a == b
    def widen(self, o, n): return n

    def _is_mode(self, e):
        e = strip(e, casts=True)
        return e.get("kind") == "MemberExpr" and e.get("name") == "assembly_mode"

    def decl(self, vd, s):
        for c in kids(vd):
            s = self.eval(c, s)
        return s

    def eval(self, e, s):
        e0 = strip(e)
        if not e0 or s is None:
            return s
        k, ks = e0.get("kind"), kids(e0)
        if k == "ConditionalOperator":
            # `mode == A ? f(...) : (mode == B ? g(...) : ...)`: each arm is evaluated under what its condition says about the mode
            s = self.eval(ks[0], s)
            out = None
            for arm, t in ((ks[1], True), (ks[2], False)):
                c_, tt = strip(ks[0]), t
                while c_.get("kind") == "UnaryOperator" and c_.get("opcode") == "!":
                    c_, tt = strip(kids(c_)[0]), not tt
                sa = self.assume(c_, tt, s)
                if sa is not None:
                    ra = self.eval(arm, sa)
                    out = ra if out is None else (out | ra if ra is not None else out)
            return out if out is not None else s
        if k == "CallExpr":
            for a in call_args(e0):
                s = self.eval(a, s)
            if callee_name(e0) in self.lib:
                self.calls.append((callee_name(e0), s))
            return s
        if k in ("BinaryOperator", "CompoundAssignOperator") and e0.get("opcode", "").endswith("=") and \
                e0.get("opcode") not in ("==", "!=", "<=", ">=") and self._is_mode(ks[0]):
            v = self.ce.try_eval(ks[1])
            return frozenset([v]) if v is not None else frozenset(self.ev.values())
        for c in ks:
            s = self.eval(c, s)
        return s

    def assume(self, e, truth, s):
        e0 = strip(e)
        if e0.get("kind") == "BinaryOperator" and e0.get("opcode") in ("==", "!="):
            l, r = kids(e0)
            for a, b in ((l, r), (r, l)):
                if self._is_mode(a):
                    v = self.ce.try_eval(b)
                    if v is not None:
                        eq = (e0["opcode"] == "==") == truth
                        out = frozenset(x for x in s if (x == v) == eq)
                        return out or None
        return s

    def assume_case(self, cnd, case, s):
        if self._is_mode(cnd):
            v = self.ce.try_eval(case)
            out = frozenset(x for x in s if x == v)
            return out or None
        return s

    def assume_default(self, cnd, cases, s):
        if self._is_mode(cnd):
            vs = {self.ce.try_eval(c) for c in cases}
            out = frozenset(x for x in s if x not in vs)
            return out or None
        return s

    def ret(self, n, s): pass


def _call_guarded_by_mode(prog, drv, callee, ev):
    for m, parents in walk_with_parents(prog.body(drv)):
        if m.get("kind") == "CallExpr" and callee_name(m) == callee:
            for p in parents:
                if p.get("kind") == "IfStmt":
                    c = expr_str(kids(p)[0])
                    if "assembly_mode == CHUNK_FITTING" in c:
                        return True
            return False
    return False


def reset_rule(chk, prog, roles, rule="RESET"):
    """the driver zeroes *dest (when given) before the per-line loop; increments of the break counter
    happen only in the counting emitter"""
    drv = prog.fn(roles.driver)
    ps = prog.params(drv)
    destp = [p["name"] for p in ps if qtype(p) == "int *"]
    if len(destp) != 1:
        raise AnalysisBroken("driver: result-count parameter not identified")
    dest = destp[0]
    body = kids(prog.body(drv))
    reset_seen = False
    for st in body:
        if st.get("kind") in ("WhileStmt", "ForStmt", "DoStmt"):
            break
        for m in walk(st):
            if m.get("kind") == "BinaryOperator" and m.get("opcode") == "=" and _norm(kids(m)[0]) == "*" + dest and \
                    ConstEval(prog).try_eval(kids(m)[1]) == 0:
                # guard may only be a NULL test of dest
                reset_seen = True
                if st.get("kind") == "IfStmt":
                    g = expr_str(kids(st)[0])
                    reset_seen = g in ("%s != 0" % dest, dest, "0 != %s" % dest)
    chk.require(reset_seen, rule, rule + "/driver", loc_str(drv), "the driver stores 0 into *%s (when non-NULL) before the per-line loop" % dest,
                "no such store before the loop")
    # the driver passes its own dest to the counting emitter
    for c in walk(prog.body(drv)):
        if c.get("kind") == "CallExpr" and callee_name(c) in roles.emitters:
            f = prog.fn(callee_name(c))
            for i, p in enumerate(prog.params(f)):
                if qtype(p) == "int *":
                    chk.require(_norm(call_args(c)[i]) == dest, rule, "%s/pass/%s" % (rule, callee_name(c)), loc_str(c),
                                "the driver hands its own result pointer to the counting emitter", _norm(call_args(c)[i]))
    # entries that have a dest parameter pass it on every path that reaches a successful return
    n = 0
    for fn in roles.entries:
        f = prog.fn(fn)
        dp = [p["name"] for p in prog.params(f) if qtype(p) == "int *"]
        if not dp:
            continue
        n += 1
        dom = PassThroughDomain(prog, dp[0], set(roles.entries) | {roles.driver})
        Flow(dom).function(prog, f, False)
        bad = [r for r, s in dom.rets if not s and ConstEval(prog).try_eval(strip(kids(r)[0], casts=True)) in (0, None)]
        chk.require(not bad, rule, "%s/deleg/%s" % (rule, fn), loc_str(f),
                    "every non-failing return of %s is preceded by a call that hands %s to the driver (so the count is reset and reported)" % (fn, dp[0]),
                    "return at %s reached without it" % (loc_str(bad[0]) if bad else ""))
    chk.floor("counting entry points", n, 3)


class PassThroughDomain:
    """has a call passing `var` to one of `targets` happened on this path?  A static helper that receives `var` counts as such a
    call when, interpreted with the constant arguments of this call site, every non-failing return of the helper has passed it on."""

    def __init__(self, prog, var, targets, consts=None, depth=0):
        self.prog, self.var, self.targets = prog, var, targets
        self.consts = dict(consts or {})
        self.ce = ConstEval(prog, self.consts)
        self.depth = depth
        self.rets = []

    def copy(self, s): return s
    def join(self, a, b): return a and b
    def equal(self, a, b): return a == b
    def widen(self, o, n): return n

    def decl(self, vd, s):
        for c in kids(vd):
            s = self.eval(c, s)
        return s

    def _helper_passes(self, call):
        cn = callee_name(call)
        lib = self.prog.lib_functions()
        if cn not in lib or self.depth > 3 or lib[cn].get("storageClass") != "static":
            return False
        ps = self.prog.params(lib[cn])
        args = call_args(call)
        idx = [i for i, a in enumerate(args) if ref_name(strip(a, casts=True)) == self.var]
        if len(idx) != 1 or len(ps) != len(args):
            return False
        consts = {}
        for p, a in zip(ps, args):
            v = self.ce.try_eval(strip(a, casts=True))
            if v is not None:
                consts[p["name"]] = v
        sub = PassThroughDomain(self.prog, ps[idx[0]]["name"], self.targets, consts, self.depth + 1)
        end = Flow(sub).function(self.prog, lib[cn], False)
        rets = [(r, st) for r, st in sub.rets] + ([(None, end)] if end is not None else [])
        for r, st in rets:
            v = sub.ce.try_eval(strip(kids(r)[0], casts=True)) if (r is not None and kids(r)) else None
            if not st and v in (0, None):
                return False
        return bool(rets)

    def eval(self, e, s):
        e0 = strip(e)
        if not e0:
            return s
        k = e0.get("kind")
        if k == "ConditionalOperator":
            c = self.ce.try_eval(strip(kids(e0)[0]))
            s = self.eval(kids(e0)[0], s)
            if c is not None:
                return self.eval(kids(e0)[1] if c else kids(e0)[2], s)
            return self.eval(kids(e0)[1], s) and self.eval(kids(e0)[2], s)
        for c in kids(e0):
            s = self.eval(c, s)
        if k == "CallExpr":
            if callee_name(e0) in self.targets and any(ref_name(strip(a, casts=True)) == self.var for a in call_args(e0)):
                s = True
            elif any(ref_name(strip(a, casts=True)) == self.var for a in call_args(e0)) and self._helper_passes(e0):
                s = True
        return s

    def assume(self, e, t, s):
        v = self.ce.try_eval(strip(e))
        if v is not None and bool(v) != t:
            return None
        return s

    def ret(self, n, s):
        self.rets.append((n, s))


def counting_increment_rule(chk, prog, roles, rule="COUNT"):
    """in the counting emitter the counter is incremented exactly under `written > free space`"""
    n = 0
    for em in roles.emitters:
        if em == roles.driver:
            continue        # the driver resets the counter (RESET rule); it only counts through the counting emitter
        f = prog.fn(em)
        cp = [p["name"] for p in prog.params(f) if qtype(p) == "int *"]
        if not cp:
            continue
        fa = emitter_facts(prog, roles, em)
        for m, parents in walk_with_parents(prog.body(f)):
            changes = (m.get("kind") in ("CompoundAssignOperator", "BinaryOperator") and m.get("opcode", "").endswith("=") and
                       m.get("opcode") not in ("==", "!=", "<=", ">=") and _norm(kids(m)[0]) == "*" + cp[0])
            if changes or (m.get("kind") == "UnaryOperator" and m.get("opcode") == "--" and _norm(kids(m)[0]) == "*" + cp[0]):
                one = m.get("opcode") == "+=" and ConstEval(prog).try_eval(kids(m)[1]) == 1
                if not one:
                    n += 1
                    chk.bad(rule, "%s/%s/step" % (rule, em), loc_str(m), "the break counter only ever grows by exactly one per instruction", expr_str(m))
                    continue
            if (m.get("kind") == "UnaryOperator" and m.get("opcode") == "++" and _norm(kids(m)[0]) == "*" + cp[0]) or \
                    (changes and m.get("opcode") == "+="):
                n += 1
                guard = None
                for p in reversed(parents):
                    if p.get("kind") == "IfStmt":
                        guard = strip(kids(p)[0])
                        break
                ok = False
                if guard is not None and guard.get("kind") == "BinaryOperator" and guard.get("opcode") in (">", "<"):
                    a, b = strip(kids(guard)[0], casts=True), strip(kids(guard)[1], casts=True)
                    if guard["opcode"] == "<":
                        a, b = b, a
                    ia, ib = fa["locals"].get(ref_name(a)), fa["locals"].get(ref_name(b))
                    written_ok = ia is not None and strip(ia, casts=True).get("kind") == "CallExpr" and callee_name(strip(ia, casts=True)) == roles.encode
                    if not written_ok and ia is not None and not fa["encode_calls"]:
                        # built on another emitter: the length is the distance the delegate advanced the position, `P - <P before the call>`
                        d_ = strip(ia, casts=True)
                        if d_.get("kind") == "BinaryOperator" and d_.get("opcode") == "-" and _norm(kids(d_)[0]) == fa["P"]:
                            b0 = strip(kids(d_)[1], casts=True)
                            written_ok = b0.get("kind") == "DeclRefExpr" and ref_name(b0) in fa["locals"] and _norm(fa["locals"][ref_name(b0)]) == fa["P"]
                    ok = (written_ok and ib is not None and any(strip(ib, casts=True) is g for g in fa["grid"]))
                chk.require(ok, rule, "%s/%s" % (rule, em), loc_str(m),
                            "the break counter is incremented exactly when the written length exceeds the free space of the chunk",
                            "guard %s" % (expr_str(guard) if guard is not None else "none"))
    chk.floor("break-counter increments", n, 1)


def c13_rules(chk, prog):
    roles = PL.Roles(prog)
    chk.analysed["roles"] = roles.describe()
    from . import absint as ABS
    res = ABS.run_world(prog)
    n = ABS.report(chk, res, ("IDX", "DIVZ"), rule_map={"IDX": "PAD", "DIVZ": "PAD"}, fn_filter=lambda o: o["fn"] == roles.padder)
    chk.floor("padding-writer bounds obligations", n, 1)
    emitter_shape_rules(chk, prog, roles, want=("DEST", "GRID"), rule="GRID")
    PL.encoder_idempotence_rule(chk, prog, roles)
    from . import cover as CV
    CV.cover_rule(chk, prog, roles)
    PL.restore_rule(chk, prog, roles, rule="KEEP", fields=("assembly_mode", "chunk_size"))
    setter_mode_rule(chk, prog)
    counting_mode_rule(chk, prog, roles)
    division_sites_rule(chk, prog, roles)
