"""EFF engine: lvalue accesses (read / write / read-modify-write / address
taken) per function, call graph, interprocedural field-effect summaries."""
from .core import (kids, strip, walk, expr_str, qtype, ref_name, callee_name, call_args, loc_str,
                   AnalysisBroken)


class Access:
    __slots__ = ("node", "ctx", "text", "root", "fields", "owner", "field", "stmt")

    def __init__(self, node, ctx):
        self.node = node
        self.ctx = ctx                 # 'r' | 'w' | 'rw' | 'addr'
        self.text = expr_str(node)
        self.root, self.fields = lvalue_root(node)
        self.owner, self.field = owner_field(node)

    def __repr__(self):
        return "<%s %s %s>" % (self.ctx, self.text, loc_str(self.node))


def lvalue_root(e):
    """(root variable name or None, [member names along the path])"""
    fields = []
    e = strip(e)
    while e:
        k = e.get("kind")
        if k == "MemberExpr":
            if e.get("name"):
                fields.append(e["name"])
            e = strip(kids(e)[0], casts=True)
        elif k == "ArraySubscriptExpr":
            e = strip(kids(e)[0], casts=True)
        elif k == "UnaryOperator" and e.get("opcode") in ("*", "&", "++", "--"):
            e = strip(kids(e)[0], casts=True)
        elif k == "DeclRefExpr":
            return e.get("referencedDecl", {}).get("name"), list(reversed(fields))
        elif k == "BinaryOperator" and e.get("opcode") in ("+", "-"):
            e = strip(kids(e)[0], casts=True)
        else:
            return None, list(reversed(fields))
    return None, list(reversed(fields))


def _struct_name(qt):
    qt = qt.replace("const ", "").strip()
    while qt.endswith("*"):
        qt = qt[:-1].strip()
    if qt.startswith("struct "):
        return qt[7:].strip()
    if qt.startswith("union "):
        return qt[6:].strip()
    return qt


def owner_field(e):
    """(struct name, field name) of the outermost named member access, looking
    through subscripts: `al->buffer[i]` -> ('assemblyline', 'buffer')"""
    e = strip(e)
    while e:
        k = e.get("kind")
        if k == "MemberExpr":
            if not e.get("name"):
                e = strip(kids(e)[0])
                continue
            # skip anonymous struct layers to find the named owner
            b = strip(kids(e)[0])
            owner = _struct_name(qtype(b))
            while b and b.get("kind") == "MemberExpr" and not b.get("name"):
                b = strip(kids(b)[0])
                owner = _struct_name(qtype(b))
            return owner, e["name"]
        if k == "ArraySubscriptExpr":
            e = strip(kids(e)[0], casts=True)
            continue
        if k == "UnaryOperator" and e.get("opcode") == "*":
            e = strip(kids(e)[0], casts=True)
            continue
        return None, None
    return None, None


LV_KINDS = ("MemberExpr", "ArraySubscriptExpr", "DeclRefExpr")


def accesses(fn_or_stmt):
    """all lvalue accesses in a function body / statement, in source order"""
    out = []

    def visit(e, ctx):
        if not e:
            return
        k = e.get("kind")
        ks = kids(e)
        if k in ("ParenExpr", "ConstantExpr"):
            for c in ks:
                visit(c, ctx)
            return
        if k == "ImplicitCastExpr" or k == "CStyleCastExpr":
            ck = e.get("castKind")
            if ck == "LValueToRValue":
                visit(ks[0], "r")
            elif ck == "ArrayToPointerDecay":
                visit(ks[0], "addr" if ctx != "path" else "path")
            else:
                for c in ks:
                    visit(c, ctx if ctx in ("w", "rw", "addr", "path") else "r")
            return
        if k == "BinaryOperator" and e.get("opcode") == "=":
            visit(ks[0], "w")
            visit(ks[1], "r")
            return
        if k == "CompoundAssignOperator":
            visit(ks[0], "rw")
            visit(ks[1], "r")
            return
        if k == "UnaryOperator":
            op = e.get("opcode")
            if op in ("++", "--"):
                visit(ks[0], "rw")
            elif op == "&":
                visit(ks[0], "addr")
            elif op == "*":
                if ctx in ("w", "rw", "r", "addr"):
                    out.append(Access(e, ctx if ctx != "addr" else "addr"))
                visit(ks[0], "r")
            else:
                visit(ks[0], "r")
            return
        if k == "MemberExpr":
            if ctx != "path":
                out.append(Access(e, ctx))
            if e.get("isArrow"):
                visit(ks[0], "r")
            else:
                visit(ks[0], "path")
            return
        if k == "ArraySubscriptExpr":
            if ctx != "path":
                out.append(Access(e, ctx))
            base = ks[0]
            if base.get("kind") == "ImplicitCastExpr" and base.get("castKind") == "ArrayToPointerDecay":
                visit(kids(base)[0], "path")
            else:
                visit(base, "r")
            visit(ks[1], "r")
            return
        if k == "DeclRefExpr":
            rd = e.get("referencedDecl", {})
            if rd.get("kind") in ("VarDecl", "ParmVarDecl") and ctx != "path":
                out.append(Access(e, ctx))
            elif rd.get("kind") in ("VarDecl", "ParmVarDecl") and ctx == "path":
                out.append(Access(e, "path"))
            return
        if k == "CallExpr":
            visit_callee = ks[0]
            for a in ks[1:]:
                visit(a, "r")
            return
        if k == "VarDecl":
            for c in ks:
                visit(c, "r")
            return
        if k == "ConditionalOperator":
            visit(ks[0], "r")
            visit(ks[1], ctx)
            visit(ks[2], ctx)
            return
        if k == "InitListExpr" or k == "CompoundLiteralExpr":
            for c in ks:
                visit(c, "r")
            return
        for c in ks:
            visit(c, "r" if ctx not in ("r",) else "r")

    visit(fn_or_stmt, "r")
    return out


def call_graph(prog, lib_only=True):
    """{caller: set(callee names)} with resolved direct callees; raises if an
    indirect call appears in library code"""
    g = {}
    fns = prog.lib_functions() if lib_only else prog.functions
    for name, f in fns.items():
        s = set()
        for c in walk(f):
            if c.get("kind") == "CallExpr":
                cn = callee_name(c)
                if cn is None:
                    if prog.func_unit[name].startswith("src/"):
                        raise AnalysisBroken("indirect call in library function %s at %s" % (name, loc_str(c)))
                    continue
                s.add(cn)
        g[name] = s
    return g


def reachable(g, roots):
    seen = set()
    st = list(roots)
    while st:
        x = st.pop()
        if x in seen:
            continue
        seen.add(x)
        st.extend(g.get(x, ()))
    return seen


def callers_of(g, name):
    return sorted(c for c, s in g.items() if name in s)


def field_effects(prog, g=None):
    """per library function: direct sets of (owner struct, field) read / written /
    address-taken, and global variables read / written"""
    g = g or call_graph(prog)
    eff = {}
    for name, f in prog.lib_functions().items():
        e = {"w": set(), "r": set(), "addr": set(), "gw": set(), "gr": set(), "gaddr": set(), "sites": []}
        locals_ = set()
        for m in walk(f):
            if m.get("kind") in ("VarDecl", "ParmVarDecl") and m.get("storageClass") != "static":
                locals_.add(m.get("name"))
        for a in accesses(prog.body(f)):
            if a.owner and a.field:
                if a.ctx in ("w", "rw"):
                    e["w"].add((a.owner, a.field))
                if a.ctx in ("r", "rw"):
                    e["r"].add((a.owner, a.field))
                if a.ctx == "addr":
                    e["addr"].add((a.owner, a.field))
                e["sites"].append(a)
            n = a.node
            root, _ = a.root, a.fields
            if root and root not in locals_ and root in prog.globals:
                if a.ctx in ("w", "rw"):
                    e["gw"].add(root)
                elif a.ctx == "addr":
                    e["gaddr"].add(root)
                    e["gr"].add(root)
                else:
                    e["gr"].add(root)
        eff[name] = e
    return eff


def transitive_writes(prog, eff, g, root):
    out = set()
    for fn in reachable(g, [root]):
        if fn in eff:
            out |= eff[fn]["w"]
    return out
