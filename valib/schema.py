"""Naming schema of the pinned tree, and a normaliser that maps consistent renamings back onto it.

The rules name the constructs they are anchored in by what the pinned tree calls them (`buffer_len`, `mem_disp`,
`CONTROL_FLOW`, ...).  A maintainer may rename a struct field, an enumerator or an internal function without changing
anything else.  `ref/schema.json` records, for the pinned tree, the ordered (field, type) lists of the structs, the ordered
(enumerator, value) lists of the enums and the (name, signature, unit) of the library's functions.  When the current tree has
a struct / enum / unit with the same shape but some names that the schema does not know - and the names the schema expects
at those positions are gone - the declarations and every reference to them are given their schema names again in the loaded
AST (the source is not touched).  A reordering of fields or a tree whose shape differs is left alone."""
import json
import os

HERE = os.path.dirname(os.path.dirname(os.path.abspath(__file__)))
SCHEMA = os.path.join(HERE, "ref", "schema.json")


def _walk(n):
    st = [n]
    while st:
        x = st.pop()
        if isinstance(x, dict):
            yield x
            st.extend(c for c in x.get("inner", []) or [] if c)


def _qt(n):
    return (n.get("type") or {}).get("qualType", "")


def _file_of(n):
    for key in ("loc", "range"):
        l = n.get(key) or {}
        if key == "range":
            l = l.get("begin") or {}
        for sub in (l, l.get("expansionLoc") or {}, l.get("spellingLoc") or {}):
            if sub.get("file"):
                return sub["file"]
    return None


def extract(units):
    """shape of the tree: structs, enums, functions (library units only)"""
    structs, enums, funcs = {}, [], {}
    for unit, tops in units.items():
        for n in tops:
            k = n.get("kind")
            if k == "RecordDecl" and n.get("completeDefinition") and n.get("name"):
                structs.setdefault(n["name"], [[f["name"], _qt(f), bool(f.get("isBitfield"))] for f in n.get("inner", []) or []
                                               if f and f.get("kind") == "FieldDecl" and f.get("name")])
            elif k == "EnumDecl":
                ecs = [c for c in n.get("inner", []) or [] if c and c.get("kind") == "EnumConstantDecl"]
                sig = [c["name"] for c in ecs]
                fl = _file_of(n)
                if sig and sig not in [e["names"] for e in enums]:
                    ordinal = sum(1 for e in enums if e.get("file") == fl)
                    enums.append({"tag": n.get("name"), "names": sig, "file": fl, "ordinal": ordinal})
            elif k == "FunctionDecl" and unit.startswith("src/") and any(c and c.get("kind") == "CompoundStmt" for c in n.get("inner", []) or []):
                funcs[n["name"]] = {"unit": unit, "type": _qt(n), "static": n.get("storageClass") == "static"}
    return {"structs": structs, "enums": enums, "functions": funcs}


def write_snapshot(units, macros=None):
    d = extract(units)
    if macros is not None:
        # object-like macros: name -> [file, position among the file's object-like macros, body text]
        per = {}
        for nm, (fl, line, body) in sorted(macros.items(), key=lambda kv: (kv[1][0], kv[1][1])):
            per.setdefault(fl, []).append(nm)
        d["macros"] = {nm: [fl, per[fl].index(nm), body] for nm, (fl, line, body) in macros.items()}
    with open(SCHEMA, "w") as f:
        json.dump(d, f, indent=1, sort_keys=True)


def macro_alias(name, defs):
    """the current name of a macro the schema knows as `name` but the tree no longer defines: a macro unknown to the schema, in
    the same file, with the same replacement text (nearest position when several qualify); None if there is none"""
    try:
        with open(SCHEMA) as f:
            ref = json.load(f).get("macros", {})
    except (OSError, ValueError):
        return None
    if name not in ref or name in defs:
        return None
    fl, pos, body = ref[name]
    per = {}
    for nm, (f2, line, b2) in sorted(defs.items(), key=lambda kv: (kv[1][0], kv[1][1])):
        per.setdefault(f2, []).append(nm)
    cands = [nm for nm, (f2, line, b2) in defs.items() if nm not in ref and b2.replace(" ", "") == body.replace(" ", "")]
    same_file = [nm for nm in cands if defs[nm][0] == fl]
    cands = same_file or cands
    if not cands:
        return None
    return min(cands, key=lambda nm: abs(per[defs[nm][0]].index(nm) - pos))


def normalise(units):
    """rename declarations (and all references) back to their schema names where the tree is a consistent renaming of the
    schema; returns {"fields": {...}, "enumerators": {...}, "functions": {...}} of what was mapped"""
    if not os.path.exists(SCHEMA):
        return {}
    try:
        with open(SCHEMA) as f:
            ref = json.load(f)
    except (OSError, ValueError):
        return {}
    cur = extract(units)
    done = {"fields": {}, "enumerators": {}, "functions": {}}
    # ---- struct fields: same struct, same number of fields, same types at the renamed positions -------------------------
    fmap = {}          # (struct, current name) -> schema name
    for sname, rf in ref["structs"].items():
        cf = cur["structs"].get(sname)
        if not cf or len(cf) != len(rf):
            continue
        rnames, cnames = {x[0] for x in rf}, {x[0] for x in cf}
        gone, new = rnames - cnames, cnames - rnames
        if not gone or len(gone) != len(new):
            continue
        # a pure renaming keeps the other fields where they were; pair the unknown names with the missing ones by position
        pairs = [(c[0], r[0]) for c, r in zip(cf, rf) if c[0] in new and r[0] in gone and c[1].replace(c[0], "") == r[1].replace(r[0], "")]
        if len(pairs) != len(new):
            # the renamed fields may also have moved: pair by type when that is unambiguous
            pairs = []
            for c in cf:
                if c[0] in new:
                    cands = [r for r in rf if r[0] in gone and r[1] == c[1]]
                    if len(cands) == 1:
                        pairs.append((c[0], cands[0][0]))
            if len(pairs) != len(new) or len({p[1] for p in pairs}) != len(pairs):
                continue
        for c, r in pairs:
            fmap[(sname, c)] = r
            done["fields"]["%s.%s" % (sname, c)] = r
    # ---- enumerators: same enum (same length, same values in order is checked by position), unknown names at positions whose
    # schema name is gone
    emap = {}
    for re_ in ref["enums"]:
        for ce in cur["enums"]:
            if len(ce["names"]) != len(re_["names"]) or ce["names"] == re_["names"]:
                continue
            same = sum(1 for a, b in zip(ce["names"], re_["names"]) if a == b)
            same_place = ce.get("file") is not None and ce.get("file") == re_.get("file") and ce.get("ordinal") == re_.get("ordinal")
            if same < max(1, len(re_["names"]) * 2 // 3) and not (same_place and (same >= 1 or ce.get("tag") == re_.get("tag") is not None)):
                continue
            allr = {x for e in ref["enums"] for x in e["names"]}
            allc = {x for e in cur["enums"] for x in e["names"]}
            for a, b in zip(ce["names"], re_["names"]):
                if a != b and a not in allr and b not in allc:
                    emap[a] = b
                    done["enumerators"][a] = b
    # ---- internal functions: a name the schema does not know, in the unit and with the type of one that is gone -----------
    gmap = {}
    gone = {n: v for n, v in ref["functions"].items() if n not in cur["functions"]}
    new = {n: v for n, v in cur["functions"].items() if n not in ref["functions"]}
    for n, v in new.items():
        cands = [g for g, gv in gone.items() if gv["type"] == v["type"] and gv["unit"] == v["unit"] and gv["static"] == v["static"]]
        if len(cands) == 1 and sum(1 for m, mv in new.items() if mv["type"] == v["type"] and mv["unit"] == v["unit"]) == 1:
            gmap[n] = cands[0]
            done["functions"][n] = cands[0]
    if not (fmap or emap or gmap):
        return {}
    # ---- apply ---------------------------------------------------------------------------------------------------------
    fid = {}           # FieldDecl id -> schema name
    eid = {}
    for unit, tops in units.items():
        for top in tops:
            for n in _walk(top):
                k = n.get("kind")
                if k == "RecordDecl" and n.get("name"):
                    for fdecl in n.get("inner", []) or []:
                        if fdecl and fdecl.get("kind") == "FieldDecl" and (n["name"], fdecl.get("name")) in fmap:
                            fid[fdecl["id"]] = fmap[(n["name"], fdecl["name"])]
                            fdecl["_renamed_from"] = fdecl["name"]
                            fdecl["name"] = fid[fdecl["id"]]
                elif k == "EnumConstantDecl" and n.get("name") in emap:
                    eid[n["id"]] = emap[n["name"]]
                    n["_renamed_from"] = n["name"]
                    n["name"] = emap[n["_renamed_from"]]
    for unit, tops in units.items():
        for top in tops:
            for n in _walk(top):
                k = n.get("kind")
                if k == "MemberExpr" and n.get("referencedMemberDecl") in fid:
                    n["name"] = fid[n["referencedMemberDecl"]]
                elif k == "DeclRefExpr":
                    rd = n.get("referencedDecl") or {}
                    if rd.get("id") in eid:
                        rd["name"] = eid[rd["id"]]
                    elif rd.get("kind") == "FunctionDecl" and rd.get("name") in gmap:
                        rd["name"] = gmap[rd["name"]]
                elif k == "FunctionDecl" and n.get("name") in gmap:
                    n["_renamed_from"] = n["name"]
                    n["name"] = gmap[n["name"]]
                elif k == "DesignatedInitExpr":
                    pass
    return done
