"""ABS engine: interval / small-value-set abstract interpretation over the
structured flow interpreter, whole-program with parameter, return and field
summaries iterated to a fixpoint.

Obligations (recorded in the final pass only):
  IDX   every subscript of a fixed-size array (or of a pointer parameter that
        every call site binds to a fixed array) stays inside the array
  DIVZ  every / and % has a divisor that excludes 0
  COPY  strncpy / memset / memcpy lengths fit the destination array
"""
import math
import re

from .core import (AnalysisBroken, ConstEval, NotConstant, kids, strip, walk, expr_str, loc_str, qtype, ref_name,
                   ref_decl, callee_name, call_args, array_len, array_elem, int_type)
from .flow import Flow
from . import eff as EFF

INF = float("inf")
SETMAX = 40


class AV:
    """abstract integer: interval [lo, hi] and optionally the exact finite value set"""
    __slots__ = ("lo", "hi", "vals")

    def __init__(self, lo, hi, vals=None):
        if vals is not None:
            vals = frozenset(vals)
            if not vals:
                lo, hi = 1, 0
            else:
                lo, hi = min(vals), max(vals)
            if len(vals) > SETMAX:
                vals = None
        self.lo, self.hi, self.vals = lo, hi, vals

    @staticmethod
    def const(c):
        return AV(c, c, [c])

    @staticmethod
    def of_type(qt):
        it = int_type(qt)
        if it is None:
            return AV(-INF, INF)
        bits, signed = it
        if bits == 1:
            return AV(0, 1, [0, 1])
        if signed:
            return AV(-(1 << (bits - 1)), (1 << (bits - 1)) - 1)
        return AV(0, (1 << bits) - 1)

    def is_bot(self):
        return self.lo > self.hi

    def join(self, o):
        if self.is_bot():
            return o
        if o.is_bot():
            return self
        if self.vals is not None and o.vals is not None:
            return AV(0, 0, self.vals | o.vals)
        return AV(min(self.lo, o.lo), max(self.hi, o.hi))

    def meet(self, o):
        if self.vals is not None:
            return AV(0, 0, [v for v in self.vals if o.lo <= v <= o.hi and (o.vals is None or v in o.vals)])
        if o.vals is not None:
            return AV(0, 0, [v for v in o.vals if self.lo <= v <= self.hi])
        return AV(max(self.lo, o.lo), min(self.hi, o.hi))

    def without(self, c):
        if self.vals is not None:
            return AV(0, 0, self.vals - {c})
        if self.lo == c and self.hi == c:
            return AV(1, 0)
        if self.lo == c:
            return AV(c + 1, self.hi)
        if self.hi == c:
            return AV(self.lo, c - 1)
        return self

    def __eq__(self, o):
        return isinstance(o, AV) and (self.lo, self.hi, self.vals) == (o.lo, o.hi, o.vals)

    def __hash__(self):
        return hash((self.lo, self.hi, self.vals))

    def __repr__(self):
        if self.is_bot():
            return "bot"
        if self.vals is not None and len(self.vals) <= 8:
            return "{%s}" % ",".join(str(v) for v in sorted(self.vals))
        return "[%s,%s]" % (self.lo, self.hi)

    def contains_zero(self):
        if self.vals is not None:
            return 0 in self.vals
        return self.lo <= 0 <= self.hi


BOT = AV(1, 0)
TOP = AV(-INF, INF)


def _lift(op, a, b):
    if a.is_bot() or b.is_bot():
        return BOT
    if a.vals is not None and b.vals is not None and len(a.vals) * len(b.vals) <= 256:
        out = set()
        for x in a.vals:
            for y in b.vals:
                try:
                    out.add(op(x, y))
                except ZeroDivisionError:
                    pass
        return AV(0, 0, out) if out else BOT
    return None


def av_add(a, b):
    r = _lift(lambda x, y: x + y, a, b)
    if r is not None:
        return r
    return AV(a.lo + b.lo, a.hi + b.hi)


def av_sub(a, b):
    r = _lift(lambda x, y: x - y, a, b)
    if r is not None:
        return r
    return AV(a.lo - b.hi, a.hi - b.lo)


def _mulf(x, y):
    if (x in (INF, -INF) and y == 0) or (y in (INF, -INF) and x == 0):
        return 0
    return x * y


def av_mul(a, b):
    r = _lift(lambda x, y: x * y, a, b)
    if r is not None:
        return r
    c = [_mulf(a.lo, b.lo), _mulf(a.lo, b.hi), _mulf(a.hi, b.lo), _mulf(a.hi, b.hi)]
    return AV(min(c), max(c))


def _cdiv(x, y):
    q = abs(x) // abs(y)
    return q if (x >= 0) == (y > 0) else -q


def av_div(a, b):
    r = _lift(_cdiv, a, b)
    if r is not None:
        return r
    if b.lo > 0 and a.lo >= 0:
        hi = a.hi if a.hi == INF else a.hi // b.lo
        lo = 0 if b.hi == INF else a.lo // b.hi
        return AV(lo, hi)
    m = max(abs(a.lo), abs(a.hi))
    return AV(-m, m)


def av_mod(a, b):
    r = _lift(lambda x, y: abs(x) % abs(y) * (1 if x >= 0 else -1), a, b)
    if r is not None:
        return r
    if b.lo > 0 and a.lo >= 0:
        if a.hi < b.lo:
            return a
        return AV(0, b.hi - 1)
    m = max(abs(b.lo), abs(b.hi))
    return AV(-(m - 1) if a.lo < 0 else 0, m - 1)


def av_and(a, b):
    r = _lift(lambda x, y: x & y, a, b)
    if r is not None:
        return r
    if a.lo >= 0 and b.lo >= 0:
        return AV(0, min(a.hi, b.hi))
    if b.lo >= 0:
        return AV(0, b.hi)
    if a.lo >= 0:
        return AV(0, a.hi)
    return TOP


def _bits_up(x):
    if x == INF:
        return INF
    n = 1
    while n <= x:
        n <<= 1
    return n - 1


def av_or(a, b):
    r = _lift(lambda x, y: x | y, a, b)
    if r is not None:
        return r
    if a.lo >= 0 and b.lo >= 0:
        return AV(max(a.lo, b.lo), _bits_up(max(a.hi, b.hi)))
    return TOP


def av_shl(a, b):
    r = _lift(lambda x, y: x << y if 0 <= y < 64 else 0, a, b)
    if r is not None:
        return r
    if a.lo >= 0 and b.lo >= 0 and b.hi < 64:
        return AV(a.lo << int(b.lo), INF if a.hi == INF else a.hi << int(b.hi))
    return TOP


def av_shr(a, b):
    r = _lift(lambda x, y: x >> y if 0 <= y < 64 else 0, a, b)
    if r is not None:
        return r
    if a.lo >= 0 and b.lo >= 0:
        return AV(0 if b.hi == INF else (a.lo >> int(min(b.hi, 63))), a.hi if a.hi == INF else a.hi >> int(b.lo))
    return TOP


def wrap_to(av, qt):
    """value converted to integer type qt"""
    it = int_type(qt)
    if it is None or av.is_bot():
        return av
    bits, signed = it
    if bits == 1:
        if av.vals is not None:
            return AV(0, 0, [1 if v else 0 for v in av.vals])
        return AV(0, 1, [0, 1])
    lo, hi = (-(1 << (bits - 1)), (1 << (bits - 1)) - 1) if signed else (0, (1 << bits) - 1)
    if av.lo >= lo and av.hi <= hi:
        return av
    if av.vals is not None:
        m = 1 << bits
        out = []
        for v in av.vals:
            v &= m - 1
            if signed and v >> (bits - 1):
                v -= m
            out.append(v)
        return AV(0, 0, out)
    if av.lo == -INF or av.hi == INF or av.hi - av.lo >= (1 << bits):
        return AV(lo, hi)
    m = 1 << bits
    l2, h2 = av.lo % m, av.hi % m
    if signed:
        if l2 >> (bits - 1):
            l2 -= m
        if h2 >> (bits - 1):
            h2 -= m
    if l2 <= h2:
        return AV(l2, h2)
    return AV(lo, hi)


# --------------------------------------------------------------------------

class Bound:
    """what is known about the object a pointer parameter points to"""
    __slots__ = ("size", "maxlen", "content")

    def __init__(self, size=None, maxlen=None, content=None):
        self.size, self.maxlen, self.content = size, maxlen, content

    def join(self, o):
        if o is None:
            return self
        size = None if (self.size is None or o.size is None) else min(self.size, o.size)
        maxlen = None if (self.maxlen is None or o.maxlen is None) else max(self.maxlen, o.maxlen)
        content = None if (self.content is None or o.content is None) else self.content.join(o.content)
        return Bound(size, maxlen, content)

    def __eq__(self, o):
        return isinstance(o, Bound) and (self.size, self.maxlen, self.content) == (o.size, o.maxlen, o.content)

    def __repr__(self):
        return "Bound(size=%s,maxlen=%s,content=%s)" % (self.size, self.maxlen, self.content)


UNBOUND = Bound(None, None, None)


def units_prefix_is_tool(fns, prog):
    return bool(fns) and all(prog.func_unit[n].startswith("tools/") for n in fns)


ZERO_INIT_RECORDS = ("instr", "operand", "keywords", "prefix")


class World:
    """whole-program summaries"""

    def __init__(self, prog, table_facts=None, entry_names=None, units_prefix="src/"):
        self.prog = prog
        self.fns = {n: f for n, f in prog.functions.items() if prog.func_unit[n].startswith(units_prefix)}
        self.table_facts = table_facts or {}     # "INSTR_TABLE.instr_size" -> AV
        self.param = {}        # (fn, pname) -> AV
        self.pbound = {}       # (fn, pname) -> Bound
        self.ret = {}          # fn -> AV
        self.field = {}        # (owner, field) -> AV   (joined over all stores)
        self.arr = {}          # array key -> (maxidx AV of stores, content AV)
        self.obligations = []  # filled in the final pass
        self.strncpy_term = {}  # array key -> every strncpy into it leaves it terminated
        self.direct_store = set()  # array keys written by subscript stores
        self.arrinfo = {}      # array key -> declaration facts of char arrays consumed as strings
        self.final = False
        self.changed = False
        self.entry_names = entry_names
        self.callers = {}
        self._init_entries()

    def _init_entries(self):
        called = set()
        for n, f in self.fns.items():
            for c in walk(self.prog.body(f)):
                if c.get("kind") == "CallExpr" and callee_name(c) in self.fns:
                    called.add(callee_name(c))
                    self.callers.setdefault(callee_name(c), set()).add(n)
        if self.entry_names is None:
            pub = set()
            for unit, tops in self.prog.units.items():
                for t in tops:
                    if t.get("kind") == "FunctionDecl":
                        from .core import file_of
                        if (file_of(t) or "").endswith("assemblyline.h"):
                            pub.add(t.get("name"))
            self.entry_names = {n for n in self.fns if n in pub} or {n for n, f in self.fns.items() if f.get("storageClass") != "static"}
            if units_prefix_is_tool(self.fns, self.prog):
                self.entry_names = {"main"}
        for n, f in self.fns.items():
            is_entry = n in self.entry_names
            if is_entry:
                for p in self.prog.params(f):
                    self.param[(n, p["name"])] = AV.of_type(qtype(p))
                    self.pbound[(n, p["name"])] = UNBOUND

    def upd(self, table, key, val, joinf):
        old = table.get(key)
        new = val if old is None else joinf(old, val)
        if old is None or new != old:
            if old is not None and getattr(self, "pass_no", 0) >= 12:
                new = self._widen(old, new)
            table[key] = new
            self.changed = True

    def _widen(self, old, new):
        """summaries that keep growing after several passes are widened to infinity"""
        if isinstance(new, AV) and isinstance(old, AV):
            return AV(-INF if new.lo < old.lo else new.lo, INF if new.hi > old.hi else new.hi)
        if isinstance(new, tuple) and isinstance(old, tuple):
            return tuple(self._widen(o, n) for o, n in zip(old, new))
        return new

    def run(self, max_pass=30):
        for i in range(max_pass):
            self.changed = False
            self.pass_no = i
            for n in sorted(self.fns):
                self.analyse(n)
            if not self.changed:
                break
        else:
            raise AnalysisBroken("interval summaries did not stabilise in %d passes" % max_pass)
        self.final = True
        self.obligations = []
        for n in sorted(self.fns):
            self.analyse(n)
        # one obligation per site: it holds iff it held at every visit of the site
        agg = {}
        for o in self.obligations:
            k = (o["kind"], id(o["node"]))
            if k not in agg:
                agg[k] = dict(o)
                agg[k]["visits"] = 1
            else:
                a = agg[k]
                a["visits"] += 1
                if not o["ok"] and a["ok"]:
                    a["ok"], a["witness"] = False, o["witness"]
                elif o["ok"] == a["ok"]:
                    a["witness"] = o["witness"]     # the last visit is the widest (fixpoint) state
        self.obligations = list(agg.values())
        for akey, info in sorted(self.arrinfo.items()):
            mi = self.arr.get(akey, (BOT, BOT))[0]
            n = info["size"]
            ok = info["zero"] and (mi.is_bot() or mi.hi <= n - 2)
            if not info["zero"] and akey in self.strncpy_term and akey not in self.direct_store:
                ok = self.strncpy_term[akey]       # filled only by strncpy calls that provably copy the terminator
            self.obligations.append({"kind": "STR", "fn": info["fn"], "node": info["node"], "where": loc_str(info["node"]), "visits": 1,
                                     "what": "%s (char[%d]) is read as a C string (%s): it is zero-initialised and never written beyond index %d" % (
                                         info["name"], n, "; ".join(info["uses"][:2]), n - 2),
                                     "ok": bool(ok), "witness": "zero-initialised: %s, written indices %s" % (info["zero"], mi),
                                     "key": "STR/%s/%s" % (info["fn"], info["name"])})
        return self.obligations

    def analyse(self, name):
        f = self.fns[name]
        ps = self.prog.params(f)
        if ps and any((name, p["name"]) not in self.param for p in ps) and self.callers.get(name):
            return          # not reached yet
        dom = AbsDomain(self, name, f)
        st = {}
        for p in ps:
            av = self.param.get((name, p["name"]))
            if av is None:
                av = AV.of_type(qtype(p))
            st["v:" + p["id"]] = av
        end = Flow(dom).function(self.prog, f, st)
        return dom

    def ob(self, kind, fn, node, what, ok, witness, key):
        if self.final:
            self.obligations.append({"kind": kind, "fn": fn, "node": node, "what": what, "ok": ok, "witness": witness,
                                     "key": key, "where": loc_str(node)})


class AbsDomain:
    def __init__(self, world, fname, f):
        self.w, self.fname, self.f = world, fname, f
        self.prog = world.prog
        self.ce = ConstEval(self.prog)
        self.params = {p["id"]: p for p in self.prog.params(f)}
        self.local_arrays = {}      # var id -> size
        self.thresholds = sorted(set(self._consts(f)))
        # local pointers that only ever point into one const table: initialised / assigned from `&TABLE[i]` or `TABLE + k` and
        # otherwise only stepped (++, --, +=, -=); reads through them are table reads
        self.table_ptrs = {}
        cand = {}
        bad = set()

        def table_of(e):
            e = strip(e, casts=True)
            if e.get("kind") == "UnaryOperator" and e.get("opcode") == "&":
                root = EFF.lvalue_root(kids(e)[0])[0]
                return root if root in self.SENTINEL_TABLES else None
            if e.get("kind") == "BinaryOperator" and e.get("opcode") in ("+", "-"):
                return table_of(kids(e)[0])
            if e.get("kind") == "DeclRefExpr" and ref_name(e) in self.SENTINEL_TABLES:
                return ref_name(e)
            return None
        for m in walk(self.prog.body(f)):
            if m.get("kind") == "VarDecl" and "*" in qtype(m):
                if kids(m):
                    t = table_of(kids(m)[-1])
                    if t:
                        cand.setdefault(m["name"], set()).add(t)
                    else:
                        bad.add(m["name"])
            if m.get("kind") == "BinaryOperator" and m.get("opcode") == "=":
                l = strip(kids(m)[0], casts=True)
                if l.get("kind") == "DeclRefExpr" and "*" in qtype(l):
                    t = table_of(kids(m)[1])
                    if t:
                        cand.setdefault(ref_name(l), set()).add(t)
                    else:
                        bad.add(ref_name(l))
            if m.get("kind") == "UnaryOperator" and m.get("opcode") == "&":
                l = strip(kids(m)[0], casts=True)
                if l.get("kind") == "DeclRefExpr":
                    bad.add(ref_name(l))        # address taken: anything may happen to it
        for nm, ts in cand.items():
            if nm not in bad and len(ts) == 1:
                self.table_ptrs[nm] = next(iter(ts))

    def _consts(self, f):
        out = [0, 1]
        for m in walk(f):
            if m.get("kind") in ("IntegerLiteral", "CharacterLiteral"):
                try:
                    v = int(m["value"])
                    out += [v - 1, v, v + 1]
                except (ValueError, TypeError):
                    pass
        return out

    # ---- lattice -------------------------------------------------------------
    def copy(self, s):
        return dict(s)

    def join(self, a, b):
        out = {}
        for k in set(a) | set(b):
            va, vb = a.get(k), b.get(k)
            if va is None or vb is None:
                if k.startswith("fact:"):
                    continue
                if k.startswith("f:"):
                    continue            # refinement known on one path only: forget
                out[k] = va if vb is None else vb
                if k.startswith("v:"):
                    # declared on one path only (block scope): keep
                    pass
                continue
            if k.startswith("fact:"):
                if va == vb:
                    out[k] = va
                continue
            out[k] = va.join(vb)
        return out

    def equal(self, a, b):
        return a == b

    def widen(self, old, new):
        out = {}
        for k, vn in new.items():
            vo = old.get(k)
            if vo is None or not isinstance(vn, AV) or not isinstance(vo, AV):
                out[k] = vn
                continue
            lo, hi = vn.lo, vn.hi
            if vn.lo < vo.lo:
                c = [t for t in self.thresholds if t <= vn.lo]
                lo = max(c) if c else -INF
            if vn.hi > vo.hi:
                c = [t for t in self.thresholds if t >= vn.hi]
                hi = min(c) if c else INF
            if (lo, hi) == (vn.lo, vn.hi):
                out[k] = vn
            else:
                out[k] = AV(lo, hi)
        return out

    # ---- keys ------------------------------------------------------------------
    def key(self, e):
        e = strip(e, casts=True)
        k = e.get("kind")
        if k == "DeclRefExpr":
            rd = e.get("referencedDecl", {})
            if rd.get("kind") in ("VarDecl", "ParmVarDecl"):
                if rd.get("name") in self.prog.globals and rd.get("id") not in self.params and not self._is_local(rd):
                    return None
                return "v:" + rd["id"]
            return None
        if k in ("MemberExpr", "ArraySubscriptExpr") or (k == "UnaryOperator" and e.get("opcode") == "*"):
            return "f:" + expr_str(e)
        return None

    def _is_local(self, rd):
        if not hasattr(self, "_locals"):
            self._locals = {m["id"] for m in walk(self.f) if m.get("kind") in ("VarDecl", "ParmVarDecl") and "id" in m}
        return rd.get("id") in self._locals

    def _kill_fields(self, s, name=None):
        """forget refinements of memory expressions (after a store through memory or a call)"""
        for k in [k for k in s if k.startswith("f:") or k.startswith("fact:nonempty") or k.startswith("fact:lt:")]:
            if name is None or re.search(r"(?<![A-Za-z0-9_])%s(?![A-Za-z0-9_])" % re.escape(name), k):
                del s[k]

    # ---- evaluation ---------------------------------------------------------------
    def decl(self, vd, s):
        qt = qtype(vd)
        n = array_len(qt)
        init = kids(vd)
        if n is not None:
            self.local_arrays[vd["id"]] = n
            akey = "arr:" + vd["id"]
            zero = bool(init)          # `= {0}` / `= {'\0'}` zero-fills the rest
            if init:
                s = self.eval(init[-1], s)[1]
            if not self.w.final or True:
                self.w.upd(self.w.arr, akey, (AV(1, 0) if True else None, AV.const(0) if zero else AV.of_type(array_elem(qt) or "int")),
                           lambda a, b: (a[0].join(b[0]), a[1].join(b[1])))
            s["fact:zeroinit:" + vd["id"]] = zero
            return s
        if init:
            v, s = self.eval(init[-1], s)
            self._sent_ob(vd, init[-1], qt, v)
            s["v:" + vd["id"]] = wrap_to(v, qt) if int_type(qt) else v
            self._note_alias(vd, init[-1], s)
        else:
            s["v:" + vd["id"]] = AV.of_type(qt)
        return s

    def _note_alias(self, vd, init, s):
        pass

    def _sent_ob(self, node, src, dst_qt, v):
        """a signed instance offset converted to an unsigned write position must not be negative"""
        e = strip(src, casts=True)
        it = int_type(dst_qt)
        if e.get("kind") == "MemberExpr" and e.get("name") == "offset" and EFF.owner_field(e)[0] == "assemblyline" and it and not it[1]:
            ok = v.is_bot() or v.lo >= 0
            self.w.ob("SENT", self.fname, node, "the instance offset used as an unsigned write position is never negative "
                      "(the error sentinel -1 must not become a position)", ok, "offset in %s" % v, "SENT/%s/%s" % (self.fname, expr_str(e)))

    def eval_cond(self, e, s):
        return self.eval(e, s)[1]

    def eval(self, e, s):
        """(abstract value, state) — also the plain statement evaluator for Flow (returns state only there)"""
        r = self._ev(e, s)
        return r

    def _ev(self, e, s):
        e0 = strip(e)
        if e0 is None or not e0:
            return TOP, s
        k = e0.get("kind")
        ks = kids(e0)
        qt = qtype(e0)
        c = self.ce.try_eval(e0) if k in ("IntegerLiteral", "CharacterLiteral", "UnaryExprOrTypeTraitExpr") else None
        if c is not None:
            return AV.const(c), s
        if k == "DeclRefExpr":
            rd = e0.get("referencedDecl", {})
            if rd.get("kind") == "EnumConstantDecl":
                v = self.ce.try_eval(e0)
                return (AV.const(v) if v is not None else TOP), s
            key = self.key(e0)
            if key and key in s:
                return s[key], s
            v = self.ce.try_eval(e0)       # static const scalar
            if v is not None:
                return AV.const(v), s
            return AV.of_type(qt), s
        if k == "CStyleCastExpr":
            v, s = self._ev(ks[0], s)
            return (wrap_to(v, qt) if int_type(qt) else v), s
        if k == "UnaryOperator":
            op = e0.get("opcode")
            if op in ("++", "--"):
                v, s = self._ev(ks[0], s)
                nv = wrap_to(av_add(v, AV.const(1 if op == "++" else -1)), qtype(ks[0]))
                s = self._store(ks[0], nv, s)
                return (v if e0.get("isPostfix") else nv), s
            if op == "-":
                v, s = self._ev(ks[0], s)
                return wrap_to(av_sub(AV.const(0), v), qt), s
            if op == "+":
                return self._ev(ks[0], s)
            if op == "~":
                v, s = self._ev(ks[0], s)
                return wrap_to(av_sub(AV.const(-1), v), qt), s
            if op == "!":
                v, s = self._ev(ks[0], s)
                if not v.contains_zero():
                    return AV.const(0), s
                if v.lo == 0 and v.hi == 0:
                    return AV.const(1), s
                return AV(0, 1, [0, 1]), s
            if op == "*":
                _, s = self._ev(ks[0], s)
                return self._load(e0, s)
            if op == "&":
                return TOP, self._ev_sub(ks[0], s)
            return TOP, s
        if k == "BinaryOperator":
            op = e0.get("opcode")
            if op == "=":
                v, s = self._ev(ks[1], s)
                self._sent_ob(e0, ks[1], qtype(ks[0]), v)
                s = self._ev_sub(ks[0], s)
                s = self._store(ks[0], v, s)
                return v, s
            if op == ",":
                _, s = self._ev(ks[0], s)
                return self._ev(ks[1], s)
            if op in ("&&", "||"):
                a, s = self._ev(ks[0], s)
                b, s = self._ev(ks[1], s)
                return AV(0, 1, [0, 1]), s
            a, s = self._ev(ks[0], s)
            b, s = self._ev(ks[1], s)
            if op in ("/", "%"):
                self._div_ob(e0, b)
            r = self._binop(op, a, b)
            if "*" in qtype(ks[0]) or "*" in qtype(ks[1]):
                return TOP, s
            if op == "-" and s.get("fact:lt:%s|%s" % (expr_str(strip(ks[1], casts=True)), expr_str(strip(ks[0], casts=True)))):
                # the subtrahend is known to be smaller on this path (`while (written < total) ... total - written`): no wrap, at least one
                r = r.meet(AV(1, INF))
            return (wrap_to(r, qt) if int_type(qt) else r), s
        if k == "CompoundAssignOperator":
            op = e0.get("opcode")[:-1]
            a, s = self._ev(ks[0], s)
            b, s = self._ev(ks[1], s)
            if op in ("/", "%"):
                self._div_ob(e0, b)
            r = self._binop(op, a, b)
            if "*" in qtype(ks[0]):
                r = TOP
            else:
                r = wrap_to(r, qtype(ks[0]))
            s = self._store(ks[0], r, s)
            return r, s
        if k == "ConditionalOperator":
            _, s = self._ev(ks[0], s)
            # each arm is evaluated under its condition (`x > n ? n : x` is at most n)
            from .flow import Flow
            fl = Flow(self)
            st = fl.cond(ks[0], True, dict(s))
            sf = fl.cond(ks[0], False, dict(s))
            outs = []
            for arm, sx in ((ks[1], st), (ks[2], sf)):
                if sx is not None:
                    outs.append(self._ev(arm, sx))
            if not outs:
                return TOP, s
            if len(outs) == 1:
                return outs[0]
            return outs[0][0].join(outs[1][0]), self.join(outs[0][1], outs[1][1])
        if k == "CallExpr":
            return self._call(e0, s)
        if k == "ArraySubscriptExpr":
            s = self._ev_sub(e0, s)
            return self._load(e0, s)
        if k == "MemberExpr":
            s = self._ev_sub(e0, s)
            return self._load(e0, s)
        if k in ("InitListExpr", "CompoundLiteralExpr", "ImplicitValueInitExpr", "StringLiteral"):
            for c in ks:
                _, s = self._ev(c, s)
            return TOP, s
        for c in ks:
            _, s = self._ev(c, s)
        return AV.of_type(qt) if int_type(qt) else TOP, s

    def _binop(self, op, a, b):
        if op == "+": return av_add(a, b)
        if op == "-": return av_sub(a, b)
        if op == "*": return av_mul(a, b)
        if op == "/": return av_div(a, b)
        if op == "%": return av_mod(a, b)
        if op == "&": return av_and(a, b)
        if op == "|": return av_or(a, b)
        if op == "^": return av_or(a, b) if (a.lo >= 0 and b.lo >= 0) else TOP
        if op == "<<": return av_shl(a, b)
        if op == ">>": return av_shr(a, b)
        if op in ("<", ">", "<=", ">=", "==", "!="):
            t = self._cmp(op, a, b)
            return AV(0, 0, [1]) if t is True else AV(0, 0, [0]) if t is False else AV(0, 1, [0, 1])
        return TOP

    def _cmp(self, op, a, b):
        if a.is_bot() or b.is_bot():
            return None
        if op == "<":
            return True if a.hi < b.lo else False if a.lo >= b.hi else None
        if op == "<=":
            return True if a.hi <= b.lo else False if a.lo > b.hi else None
        if op == ">":
            return self._cmp("<", b, a)
        if op == ">=":
            return self._cmp("<=", b, a)
        if op == "==":
            if a.lo == a.hi == b.lo == b.hi:
                return True
            if a.hi < b.lo or b.hi < a.lo:
                return False
            if a.vals is not None and b.vals is not None and not (a.vals & b.vals):
                return False
            return None
        if op == "!=":
            t = self._cmp("==", a, b)
            return None if t is None else not t
        return None

    def _ev_sub(self, lv, s):
        """evaluate the sub-expressions of an lvalue (indices), recording IDX obligations"""
        e = strip(lv)
        k = e.get("kind")
        ks = kids(e)
        if k == "ArraySubscriptExpr":
            base, idx = ks[0], ks[1]
            iv, s = self._ev(idx, s)
            self._idx_val = getattr(self, "_idx_val", {})
            self._idx_val[id(e)] = iv
            s = self._ev_sub(base, s) if strip(base).get("kind") in ("MemberExpr", "ArraySubscriptExpr") or \
                (base.get("kind") == "ImplicitCastExpr" and base.get("castKind") == "ArrayToPointerDecay") else self._ev(base, s)[1]
            self._idx_ob(e, base, iv, s)
            return s
        if k == "MemberExpr":
            b = ks[0]
            if strip(b).get("kind") in ("MemberExpr", "ArraySubscriptExpr"):
                return self._ev_sub(b, s)
            return self._ev(b, s)[1]
        if k == "ImplicitCastExpr" or k == "ParenExpr":
            return self._ev_sub(ks[0], s)
        if k == "UnaryOperator" and e.get("opcode") == "*":
            return self._ev(ks[0], s)[1]
        return s

    # ---- memory model ------------------------------------------------------------------
    def _array_of(self, base, s):
        """(size, description, key) of the fixed array a subscript base denotes"""
        b = base
        if b.get("kind") == "ImplicitCastExpr" and b.get("castKind") == "ArrayToPointerDecay":
            arr = strip(kids(b)[0])
            n = array_len(qtype(arr))
            if n is not None:
                return n, expr_str(arr), self._arrkey(arr)
            return None, None, None
        b = strip(b, casts=True)
        if b.get("kind") == "DeclRefExpr":
            rd = b.get("referencedDecl", {})
            if rd.get("kind") == "ParmVarDecl":
                bd = self.w.pbound.get((self.fname, rd.get("name")))
                if bd is not None and bd.size is not None:
                    return bd.size, "%s (bound to an array of %d by every caller)" % (rd.get("name"), bd.size), None
        return None, None, None

    def _arrkey(self, arr):
        arr = strip(arr)
        if arr.get("kind") == "DeclRefExpr":
            rd = arr.get("referencedDecl", {})
            if rd.get("name") in self.prog.globals and not self._is_local(rd):
                return "garr:" + rd.get("name")
            return "arr:" + rd.get("id", "")
        if arr.get("kind") == "MemberExpr":
            own, fld = EFF.owner_field(arr)
            return "farr:%s.%s" % (own, fld)
        return None

    SENTINEL_TABLES = ("INSTR_TABLE", "OPD_FORMAT_TABLE", "REG_TABLE")

    def _idx_ob(self, e, base, iv, s):
        n, desc, akey = self._array_of(base, s)
        if n is None:
            return
        root = EFF.lvalue_root(e)[0]
        arr = strip(kids(base)[0]) if base.get("kind") == "ImplicitCastExpr" else None
        if arr is not None and arr.get("kind") == "DeclRefExpr" and ref_name(arr) in self.SENTINEL_TABLES:
            return          # sentinel-terminated tables: TERM / SUCC rules
        ok = (not iv.is_bot()) and iv.lo >= 0 and iv.hi <= n - 1
        if iv.is_bot():
            ok = True       # unreachable
        key = "IDX/%s/%s[%s]" % (self.fname, desc.split(" ")[0], expr_str(kids(e)[1]))
        self.w.ob("IDX", self.fname, e, "index of %s stays inside its %d elements" % (desc, n), ok,
                  "index %s vs %d elements" % (iv, n), key)

    def _div_ob(self, e, b):
        if "chunk_size" in expr_str(kids(e)[1]):
            return          # decided structurally by the mode rules (DIV): mode in {COUNT, FITTING} => chunk_size >= 2
        ok = b.is_bot() or not b.contains_zero()
        self.w.ob("DIVZ", self.fname, e, "the divisor of %s is never zero" % expr_str(e), ok, "divisor %s" % b,
                  "DIVZ/%s/%s" % (self.fname, expr_str(e)[:50]))

    def _load(self, e, s):
        key = self.key(e)
        if key and key in s:
            return s[key], s
        e1 = strip(e)
        k = e1.get("kind")
        qt = qtype(e1)
        if k == "MemberExpr":
            own, fld = EFF.owner_field(e1)
            tf = self.w.table_facts.get("%s.%s" % (self._table_root(e1), fld)) if self._table_root(e1) else None
            if tf is not None:
                return tf, s
            fv = self.w.field.get((own, fld))
            if fv is not None and int_type(qt):
                bw = self._bitfield_width(own, fld)
                tv = AV.of_type(qt)
                if bw:
                    tv = AV(0, (1 << bw) - 1)
                if own in ZERO_INIT_RECORDS:
                    fv = fv.join(AV.const(0))
                return fv.meet(tv) if not fv.meet(tv).is_bot() else fv, s
            if int_type(qt):
                if own in ZERO_INIT_RECORDS:
                    return AV.const(0), s        # no store seen (yet): only the zero initialiser
                bw = self._bitfield_width(own, fld)
                return (AV(0, (1 << bw) - 1) if bw else AV.of_type(qt)), s
            return TOP, s
        if k == "ArraySubscriptExpr":
            base = kids(e1)[0]
            n, desc, akey = self._array_of(base, s)
            # table-derived element facts: TABLE[i].field[j]
            root = self._table_root(e1)
            if root:
                inner = strip(kids(base)[0]) if base.get("kind") == "ImplicitCastExpr" else None
                if inner is not None and inner.get("kind") == "MemberExpr":
                    tf = self.w.table_facts.get("%s.%s[]" % (root, inner.get("name")))
                    idxv = self.ce.try_eval(kids(e1)[1])
                    tf0 = self.w.table_facts.get("%s.%s[%s]" % (root, inner.get("name"), idxv)) if idxv is not None else None
                    if tf0 is not None:
                        return tf0, s
                    if tf is not None:
                        return tf, s
            if akey and akey in self.w.arr and int_type(qt):
                return self.w.arr[akey][1].meet(AV.of_type(qt)) if not self.w.arr[akey][1].is_bot() else AV.of_type(qt), s
            b = strip(base, casts=True)
            if b.get("kind") == "DeclRefExpr" and b.get("referencedDecl", {}).get("kind") == "ParmVarDecl":
                bd = self.w.pbound.get((self.fname, ref_name(b)))
                if bd is not None and bd.content is not None and int_type(qt):
                    return bd.content, s
            return (AV.of_type(qt) if int_type(qt) else TOP), s
        if k == "UnaryOperator" and e1.get("opcode") == "*":
            # `*p` reads what `p[0]` reads: the characters a caller's string can hold
            b = strip(kids(e1)[0], casts=True)
            if b.get("kind") == "DeclRefExpr" and b.get("referencedDecl", {}).get("kind") == "ParmVarDecl":
                bd = self.w.pbound.get((self.fname, ref_name(b)))
                if bd is not None and bd.content is not None and int_type(qt):
                    return bd.content, s
        return (AV.of_type(qt) if int_type(qt) else TOP), s

    def _table_root(self, e):
        r = EFF.lvalue_root(e)[0]
        r = self.table_ptrs.get(r, r)
        return r if r in self.SENTINEL_TABLES else None

    def _bitfield_width(self, owner, fld):
        rec = self.prog.records.get(owner)
        if not rec:
            return None
        for f in walk(rec):
            if f.get("kind") == "FieldDecl" and f.get("name") == fld and f.get("isBitfield"):
                for c in kids(f):
                    v = self.ce.try_eval(c)
                    if v is not None:
                        return v
        return None

    def _store(self, lv, v, s):
        e = strip(lv, casts=True)
        k = e.get("kind")
        key = self.key(e)
        if k == "DeclRefExpr":
            if key:
                s[key] = v
                self._kill_fields(s, ref_name(e))
            return s
        # store through memory: forget refinements of other memory expressions that may alias
        if k in ("MemberExpr", "ArraySubscriptExpr") or (k == "UnaryOperator" and e.get("opcode") == "*"):
            nm = e.get("name") if k == "MemberExpr" else None
            for kk in [kk for kk in s if kk.startswith("f:")]:
                if nm is None or nm in kk:
                    del s[kk]
            if key and not any(c.get("kind") == "CallExpr" for c in walk(e)):
                s[key] = v
        if k == "MemberExpr":
            own, fld = EFF.owner_field(e)
            if own and int_type(qtype(e)):
                bw = self._bitfield_width(own, fld)
                vv = v
                if bw and not v.is_bot():
                    vv = v if (v.lo >= 0 and v.hi < (1 << bw)) else AV(0, (1 << bw) - 1)
                self.w.upd(self.w.field, (own, fld), vv, lambda a, b: a.join(b))
        if k == "ArraySubscriptExpr":
            base = kids(e)[0]
            n, desc, akey = self._array_of(base, s)
            if akey is None:
                b = strip(base, casts=True)
                if b.get("kind") == "DeclRefExpr" and b.get("referencedDecl", {}).get("kind") == "ParmVarDecl":
                    # store through a bound pointer parameter: recorded against the parameter (callers merge it)
                    akey = "parr:%s:%s" % (self.fname, ref_name(b))
            if akey:
                self.w.direct_store.add(akey)
                iv = getattr(self, "_idx_val", {}).get(id(e))
                if iv is None:
                    iv = self._ev(kids(e)[1], dict(s))[0]
                self.w.upd(self.w.arr, akey, (iv, v), lambda a, b: (a[0].join(b[0]), a[1].join(b[1])))
        if k == "UnaryOperator" and e.get("opcode") == "*":
            b = strip(kids(e)[0], casts=True)
            if b.get("kind") == "DeclRefExpr" and b.get("referencedDecl", {}).get("kind") == "ParmVarDecl":
                self.w.upd(self.w.arr, "pderef:%s:%s" % (self.fname, ref_name(b)), (AV.const(0), v),
                           lambda a, c: (a[0].join(c[0]), a[1].join(c[1])))
        return s

    # ---- calls ---------------------------------------------------------------------------
    def _bound_of_arg(self, a, s):
        """Bound of the object an argument expression points to"""
        a0 = a
        while a0.get("kind") in ("ImplicitCastExpr", "ParenExpr", "CStyleCastExpr") and a0.get("castKind") != "ArrayToPointerDecay":
            a0 = kids(a0)[0]
        if a0.get("kind") == "ImplicitCastExpr" and a0.get("castKind") == "ArrayToPointerDecay":
            arr = strip(kids(a0)[0])
            n = array_len(qtype(arr))
            akey = self._arrkey(arr)
            maxlen, content = None, None
            zero = self._zero_init(arr, s)
            if akey and akey in self.w.arr:
                mi, cv = self.w.arr[akey]
                content = cv.join(AV.const(0)) if zero else cv
                if zero and not mi.is_bot() and mi.hi != INF:
                    maxlen = int(mi.hi) + 1
                elif zero and mi.is_bot():
                    maxlen = 0
            elif akey and zero:
                maxlen, content = 0, AV.const(0)      # nothing stored (yet): the empty string
            if arr.get("kind") == "StringLiteral":
                maxlen = (n or 1) - 1
            return Bound(n, maxlen, content)
        a1 = strip(a, casts=True)
        if a1.get("kind") == "DeclRefExpr" and a1.get("referencedDecl", {}).get("kind") == "ParmVarDecl":
            return self.w.pbound.get((self.fname, ref_name(a1)), UNBOUND)
        return UNBOUND

    def _zero_init(self, arr, s):
        arr = strip(arr)
        if arr.get("kind") == "DeclRefExpr":
            return bool(s.get("fact:zeroinit:" + arr.get("referencedDecl", {}).get("id", ""), False))
        if arr.get("kind") == "MemberExpr":
            own, _ = EFF.owner_field(arr)
            return own in ("instr", "operand")      # the per-line record is zero-initialised (rule E1)
        return False

    def _note_string_use(self, cn, i, a, s):
        """a fixed char array handed to a function that reads it as a C string"""
        if cn in ("strncpy", "memset", "memcpy", "memmove", "snprintf") and i == 0:
            return
        arr = a
        while arr.get("kind") in ("ParenExpr", "CStyleCastExpr") or (arr.get("kind") == "ImplicitCastExpr" and arr.get("castKind") != "ArrayToPointerDecay"):
            arr = kids(arr)[0]
        if arr.get("kind") != "ImplicitCastExpr":
            return
        obj = strip(kids(arr)[0])
        qt = qtype(obj)
        if array_len(qt) is None or (array_elem(qt) or "").replace("const ", "") not in ("char",):
            return
        if obj.get("kind") == "StringLiteral":
            return
        akey = self._arrkey(obj)
        root_ = EFF.lvalue_root(obj)[0]
        if akey is None or akey.startswith("garr:") or self.table_ptrs.get(root_, root_) in self.SENTINEL_TABLES:
            return          # const tables: their strings are checked by the table rules (T1 / T4)
        info = self.w.arrinfo.setdefault(akey, {"size": array_len(qt), "zero": self._zero_init(obj, s), "name": expr_str(obj),
                                               "uses": [], "node": obj, "fn": self.fname})
        info["zero"] = info["zero"] and self._zero_init(obj, s)
        if len(info["uses"]) < 6:
            info["uses"].append("%s() at %s" % (cn, loc_str(a)))

    def _call(self, e, s):
        cn = callee_name(e)
        args = call_args(e)
        avs = []
        for i, a in enumerate(args):
            v, s = self._ev(a, s)
            avs.append(v)
            if self.w.final:
                self._note_string_use(cn, i, a, s)
        # library functions taking pointers may write through them
        if cn in self.w.fns:
            f = self.w.fns[cn]
            ps = self.prog.params(f)
            for p, a, v in zip(ps, args, avs):
                if int_type(qtype(p)):
                    self.w.upd(self.w.param, (cn, p["name"]), wrap_to(v, qtype(p)), lambda x, y: x.join(y))
                else:
                    self.w.upd(self.w.param, (cn, p["name"]), TOP, lambda x, y: x.join(y))
                    bd = self._bound_of_arg(a, s)
                    self.w.upd(self.w.pbound, (cn, p["name"]), bd, lambda x, y: x.join(y))
                    # stores the callee makes through this parameter land in the caller's array
                    arr = a
                    while arr.get("kind") in ("ParenExpr", "CStyleCastExpr") or (arr.get("kind") == "ImplicitCastExpr" and arr.get("castKind") != "ArrayToPointerDecay"):
                        arr = kids(arr)[0]
                    tgt = None
                    if arr.get("kind") == "ImplicitCastExpr" and arr.get("castKind") == "ArrayToPointerDecay":
                        tgt = self._arrkey(strip(kids(arr)[0]))
                    else:
                        a1 = strip(a, casts=True)
                        if a1.get("kind") == "DeclRefExpr" and a1.get("referencedDecl", {}).get("kind") == "ParmVarDecl":
                            tgt = "parr:%s:%s" % (self.fname, ref_name(a1))
                        if a1.get("kind") == "UnaryOperator" and a1.get("opcode") == "&":
                            t = strip(kids(a1)[0])
                            if t.get("kind") == "DeclRefExpr":
                                # &local passed: the callee may assign through it
                                pd = self.w.arr.get("pderef:%s:%s" % (cn, p["name"]))
                                k2 = self.key(t)
                                if k2:
                                    if pd is not None and int_type(qtype(t)):
                                        s[k2] = s.get(k2, BOT).join(wrap_to(pd[1], qtype(t)))
                                    else:
                                        s[k2] = AV.of_type(qtype(t))
                    src = self.w.arr.get("parr:%s:%s" % (cn, p["name"]))
                    if tgt and src is not None:
                        self.w.upd(self.w.arr, tgt, src, lambda x, y: (x[0].join(y[0]), x[1].join(y[1])))
                        if "parr:%s:%s" % (cn, p["name"]) in self.w.direct_store:
                            self.w.direct_store.add(tgt)
            self._kill_fields(s)
            rv = self.w.ret.get(cn)
            rt = qtype(f).split("(")[0].strip()
            if rv is None:
                return (BOT if int_type(rt) else TOP), s
            return rv, s
        # libc models
        self._kill_fields(s) if cn not in ("strlen", "strcmp", "strcasecmp", "strstr", "strchr", "tolower", "fprintf", "printf", "perror") else None
        qt = qtype(e)
        if cn == "strlen" and args:
            bd = self._bound_of_arg(args[0], s)
            hi = INF
            if bd.maxlen is not None:
                hi = bd.maxlen
            elif bd.size is not None:
                hi = INF
            lo = 0
            a1 = strip(args[0], casts=True)
            if s.get("fact:nonempty:" + expr_str(a1)):
                lo = 1
            return AV(lo, hi), s
        if cn == "tolower" and avs:
            v = avs[0]
            if v.vals is not None:
                return AV(0, 0, [x + 32 if 65 <= x <= 90 else x for x in v.vals]), s
            return AV(min(v.lo, 97) if v.lo <= 90 and v.hi >= 65 else v.lo, max(v.hi, 122) if v.hi >= 65 and v.lo <= 90 else v.hi), s
        if cn in ("strncpy", "memcpy", "memset", "memmove") and len(args) == 3:
            bd = self._bound_of_arg(args[0], s)
            nv = avs[2]
            if bd.size is not None:
                ok = nv.is_bot() or nv.hi <= bd.size
                self.w.ob("COPY", self.fname, e, "%s writes at most the %d bytes of its destination" % (cn, bd.size), ok,
                          "length %s vs %d bytes" % (nv, bd.size), "COPY/%s/%s(%s)" % (self.fname, cn, expr_str(args[0])))
                if cn == "strncpy":
                    sb = self._bound_of_arg(args[1], s)
                    okt = (not nv.is_bot() and nv.hi <= bd.size - 1) or (sb.maxlen is not None and not nv.is_bot() and sb.maxlen <= nv.lo - 1 and nv.hi <= bd.size)
                    dk = args[0]
                    while dk.get("kind") in ("ParenExpr", "CStyleCastExpr") or (dk.get("kind") == "ImplicitCastExpr" and dk.get("castKind") != "ArrayToPointerDecay"):
                        dk = kids(dk)[0]
                    if dk.get("kind") == "ImplicitCastExpr":
                        k2 = self._arrkey(strip(kids(dk)[0]))
                        if k2:
                            self.w.strncpy_term[k2] = self.w.strncpy_term.get(k2, True) and (bool(okt) or nv.is_bot())
                    self.w.ob("STR", self.fname, e, "strncpy leaves its %d-byte destination NUL-terminated" % bd.size, bool(okt) or nv.is_bot(),
                              "copies up to %s bytes from a string of length <= %s" % (nv, sb.maxlen), "STR/%s/strncpy(%s)" % (self.fname, expr_str(args[0])))
                # record as stores into the destination array
                arr = args[0]
                while arr.get("kind") in ("ParenExpr", "CStyleCastExpr") or (arr.get("kind") == "ImplicitCastExpr" and arr.get("castKind") != "ArrayToPointerDecay"):
                    arr = kids(arr)[0]
                if arr.get("kind") == "ImplicitCastExpr" and cn == "strncpy":
                    akey = self._arrkey(strip(kids(arr)[0]))
                    if akey and not nv.is_bot():
                        self.w.upd(self.w.arr, akey, (AV(0, nv.hi - 1), AV.of_type("char")),
                                   lambda x, y: (x[0].join(y[0]), x[1].join(y[1])))
            return TOP, s
        return (AV.of_type(qt) if int_type(qt) else TOP), s

    # ---- refinement ---------------------------------------------------------------------------
    def assume(self, e, truth, s):
        e0 = strip(e)
        k = e0.get("kind")
        if k == "BinaryOperator" and e0.get("opcode") in ("<", ">", "<=", ">=", "==", "!="):
            op = e0["opcode"]
            if not truth:
                op = {"<": ">=", ">": "<=", "<=": ">", ">=": "<", "==": "!=", "!=": "=="}[op]
            l, r = kids(e0)
            lv, _ = self._ev(l, dict(s))
            rv, _ = self._ev(r, dict(s))
            t = self._cmp(op, lv, rv)
            if t is False:
                return None
            nl, nr = self._refine(op, lv, rv)
            if nl.is_bot() or nr.is_bot():
                return None
            s = self._narrow(l, nl, s)
            s = self._narrow(r, nr, s)
            # a strict order between two plain variables is remembered as a relation (killed when either is stored to)
            l0, r0 = strip(l, casts=True), strip(r, casts=True)
            if op in ("<", ">") and l0.get("kind") == "DeclRefExpr" and r0.get("kind") == "DeclRefExpr":
                small, big = (l0, r0) if op == "<" else (r0, l0)
                s["fact:lt:%s|%s" % (expr_str(small), expr_str(big))] = True
            # x[0] != '\0' : the string is not empty
            for a, b in ((l, rv), (r, lv)):
                a0 = strip(a, casts=True)
                if a0.get("kind") == "ArraySubscriptExpr" and self.ce.try_eval(kids(a0)[1]) == 0 and \
                        b.lo == 0 and b.hi == 0 and op == "!=":
                    s["fact:nonempty:" + expr_str(strip(kids(a0)[0], casts=True))] = True
            return s
        # truth test of a scalar
        v, _ = self._ev(e0, dict(s))
        if truth:
            if v.lo == 0 and v.hi == 0:
                return None
            return self._narrow(e0, v.without(0), s)
        if not v.is_bot() and not v.contains_zero():
            return None
        return self._narrow(e0, v.meet(AV.const(0)), s)

    def _refine(self, op, a, b):
        if op == "<":
            return a.meet(AV(-INF, b.hi - 1)), b.meet(AV(a.lo + 1, INF))
        if op == "<=":
            return a.meet(AV(-INF, b.hi)), b.meet(AV(a.lo, INF))
        if op == ">":
            return a.meet(AV(b.lo + 1, INF)), b.meet(AV(-INF, a.hi - 1))
        if op == ">=":
            return a.meet(AV(b.lo, INF)), b.meet(AV(-INF, a.hi))
        if op == "==":
            m = a.meet(b)
            return m, m
        if op == "!=":
            na = a.without(b.lo) if b.lo == b.hi else a
            nb = b.without(a.lo) if a.lo == a.hi else b
            return na, nb
        return a, b

    def _narrow(self, e, v, s):
        e0 = e
        # look through value-preserving implicit casts
        while e0.get("kind") in ("ImplicitCastExpr", "ParenExpr"):
            ck = e0.get("castKind")
            if e0.get("kind") == "ImplicitCastExpr" and ck not in ("LValueToRValue", "IntegralCast", "NoOp"):
                break
            e0 = kids(e0)[0]
        if e0.get("kind") == "CStyleCastExpr":
            return s
        key = self.key(e0)
        if key is None:
            return s
        if any(c.get("kind") == "CallExpr" for c in walk(e0)) or any(
                c.get("kind") == "UnaryOperator" and c.get("opcode") in ("++", "--") for c in walk(e0)):
            return s
        # the refined value must be representable in the lvalue's own type
        tv = AV.of_type(qtype(e0))
        if int_type(qtype(e0)) and not (v.is_bot()) and (v.lo < tv.lo or v.hi > tv.hi):
            v = v.meet(tv)
            if v.is_bot():
                return s
        s[key] = v
        return s

    def assume_case(self, cond, case_expr, s):
        c = self.ce.try_eval(case_expr)
        if c is None:
            return s
        v, _ = self._ev(cond, dict(s))
        if not v.is_bot() and (c < v.lo or c > v.hi or (v.vals is not None and c not in v.vals)):
            return None
        return self._narrow(cond, AV.const(c), s)

    def assume_default(self, cond, case_exprs, s):
        v, _ = self._ev(cond, dict(s))
        for ce_ in case_exprs:
            c = self.ce.try_eval(ce_)
            if c is not None:
                v = v.without(c)
        if v.is_bot():
            return None
        return self._narrow(cond, v, s)

    def ret(self, n, s):
        ks = kids(n)
        if ks:
            v, _ = self._ev(ks[0], dict(s))
            rt = qtype(self.f).split("(")[0].strip()
            if int_type(rt):
                self.w.upd(self.w.ret, self.fname, wrap_to(v, rt), lambda a, b: a.join(b))
            else:
                self.w.upd(self.w.ret, self.fname, TOP, lambda a, b: a.join(b))


# replace World.analyse to use the adapter
def _analyse(self, name):
    f = self.fns[name]
    ps = self.prog.params(f)
    if ps and any((name, p["name"]) not in self.param for p in ps):
        if self.callers.get(name):
            return None
    dom = AbsDomain(self, name, f)
    st = {}
    for p in ps:
        av = self.param.get((name, p["name"]))
        if av is None:
            av = AV.of_type(qtype(p))
        st["v:" + p["id"]] = av
    ad = _CondAdapter(dom)
    Flow(ad).function(self.prog, f, st)
    return dom


class _CondAdapter:
    """adapter between Flow and AbsDomain: statements evaluate for effect; conditions evaluate
    their side effects (calls, ++) once, then refine"""

    def __init__(self, d):
        self.d = d

    widen_after = 6

    def copy(self, s): return self.d.copy(s)
    def join(self, a, b): return self.d.join(a, b)
    def equal(self, a, b): return self.d.equal(a, b)
    def widen(self, o, n): return self.d.widen(o, n)
    def decl(self, vd, s): return self.d.decl(vd, s)
    def ret(self, n, s): return self.d.ret(n, s)

    def eval(self, e, s):
        return self.d._ev(e, s)[1]

    def eval_cond(self, e, s):
        # evaluate once for side effects and obligations; refinement re-evaluates on a copy
        has_effect = any(c.get("kind") in ("CallExpr",) or (c.get("kind") == "UnaryOperator" and c.get("opcode") in ("++", "--")) or
                         (c.get("kind") in ("BinaryOperator", "CompoundAssignOperator") and c.get("opcode", "").endswith("=") and
                          c.get("opcode") not in ("==", "!=", "<=", ">=")) for c in walk(strip(e)))
        if has_effect:
            return self.d._ev(e, s)[1]
        # still record obligations of subscripts / divisions in the condition
        self.d._ev(e, dict(s))
        return s

    def assume(self, e, truth, s):
        return self.d.assume(e, truth, s)

    def assume_case(self, c, e, s): return self.d.assume_case(c, e, s)
    def assume_default(self, c, es, s): return self.d.assume_default(c, es, s)


World.analyse = _analyse


# --------------------------------------------------------------------------
def table_facts(prog):
    """ranges of const-table fields, imported as facts (checked by the TAB rules)"""
    from . import tables as T
    facts = {}
    rows = T.instr_table(prog)
    sizes = [r.f["instr_size"] for r in rows]
    facts["INSTR_TABLE.instr_size"] = AV(min(sizes), max(sizes))
    firsts = set()
    for r in rows:
        firsts.add(ord(r.instr_name[0]) if r.instr_name else 0)
    facts["INSTR_TABLE.instr_name[0]"] = AV(0, 0, firsts) if len(firsts) <= SETMAX else AV(min(firsts), max(firsts))
    fm = T.opd_format_table(prog)
    f0 = {ord(e["str"][0]) if e["str"] else 0 for e in fm[1:]}
    facts["OPD_FORMAT_TABLE.str[0]"] = AV(0, 0, f0)
    return facts


def run_world(prog, tool=False):
    """obligations of the whole library (or of tools/), cached per source-tree hash"""
    import json, os
    from .core import VERIF
    cdir = os.path.join(VERIF, ".cache")
    cfile = os.path.join(cdir, "abs-%s-%s.json" % (prog.tree_hash, "tool" if tool else "lib"))
    use_cache = not os.environ.get("VERIF_SCRATCH_OUT")
    if use_cache and os.path.exists(cfile):
        try:
            with open(cfile) as f:
                return json.load(f)
        except (OSError, ValueError):
            pass
    w = World(prog, table_facts(prog), units_prefix="tools/" if tool else "src/")
    obs = w.run()
    out = {"passes": w.pass_no + 1, "functions": len(w.fns),
           "obligations": [{k: v for k, v in o.items() if k != "node"} for o in obs],
           "param_bounds": {"%s:%s" % k: repr(v) for k, v in w.pbound.items() if v.size},
           "fields": {"%s.%s" % k: repr(v) for k, v in w.field.items()}}
    if use_cache:
        try:
            os.makedirs(cdir, exist_ok=True)
            with open(cfile + ".tmp%d" % os.getpid(), "w") as f:
                json.dump(out, f)
            os.replace(cfile + ".tmp%d" % os.getpid(), cfile)
        except OSError:
            pass
    return out


def report(chk, res, kinds, rule_map=None, fn_filter=None):
    """turn ABS obligations of the given kinds into check obligations"""
    n = 0
    for o in res["obligations"]:
        if o["kind"] not in kinds:
            continue
        if fn_filter and not fn_filter(o):
            continue
        n += 1
        rule = (rule_map or {}).get(o["kind"], o["kind"])
        chk.require(o["ok"], rule, o["key"], o["where"], o["what"], o["witness"])
    return n


def sentinel_rule(chk, prog, roles=None):
    res = run_world(prog)
    n = report(chk, res, ("SENT",))
    chk.floor("offset-to-position conversions", n, 1)
