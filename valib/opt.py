"""OPT engine: per-bit transfer functions of the option setters, extracted
from their bodies, and the finite option model built from them.

A setter body is abstractly interpreted with the `option` parameter bound to
one value class at a time.  The abstract value of `<instance>->assembly_opt`
is a pair (A, O) meaning new = (old & A) | O; anything the interpreter does
not understand makes the affected bits TOP.
"""
from .core import (AnalysisBroken, ConstEval, NotConstant, kids, strip, expr_str, callee_name,
                   call_args, ref_name, loc_str, walk, qtype)

FIELD = "assembly_opt"
WIDTH = 8
FULL = (1 << WIDTH) - 1


class Xfer:
    """new = (old & A) | O ; T = bits whose effect is unknown"""
    __slots__ = ("A", "O", "T")

    def __init__(self, A=FULL, O=0, T=0):
        self.A, self.O, self.T = A & FULL, O & FULL, T & FULL

    def then(self, other):
        """self followed by other"""
        return Xfer(self.A & other.A, (self.O & other.A) | other.O, (self.T & other.A & ~other.O) | other.T)

    def join(self, other):
        diff = (self.A ^ other.A) | (self.O ^ other.O)
        return Xfer(self.A, self.O, self.T | other.T | diff)

    def apply(self, v):
        return ((v & self.A) | self.O) & FULL

    def bit(self, i):
        m = 1 << i
        if self.T & m:
            return "top"
        if self.O & m:
            return "set"
        if not (self.A & m):
            return "clear"
        return "keep"

    def __eq__(self, o):
        return (self.A, self.O, self.T) == (o.A, o.O, o.T)

    def __repr__(self):
        return "Xfer(A=%#x,O=%#x,T=%#x)" % (self.A, self.O, self.T)


class SetterInterp:
    def __init__(self, prog, other_writers=None):
        self.prog = prog
        self.summ = {}
        self.stack = []
        self.foreign_writes = []   # (fn, field expr, loc) writes to something else than al->assembly_opt
        self.sites = []

    def summary(self, fname, optval):
        key = (fname, optval)
        if key in self.summ:
            return self.summ[key]
        if key in self.stack:
            raise AnalysisBroken("recursive option setter %s" % fname)
        self.stack.append(key)
        f = self.prog.fn(fname)
        ps = self.prog.params(f)
        if len(ps) != 2:
            raise AnalysisBroken("setter %s does not take (instance, option)" % fname)
        self.inst, self.optname = ps[0]["name"], ps[1]["name"]
        env = {self.optname: optval}
        saved = (self.inst, self.optname)
        x, _ = self._block(self.prog.body(f), Xfer(), env, fname)
        self.inst, self.optname = saved
        self.stack.pop()
        self.summ[key] = x
        return x

    # returns (xfer at fallthrough or None if all paths returned, xfer joined over returns)
    def _block(self, n, x, env, fname):
        """interpret statement n starting from transfer x; result: (state, flow)
        flow in {"next","break","return"}"""
        st = self._stmt(n, x, env, fname)
        return st

    def _stmt(self, n, x, env, fname):
        k = n.get("kind")
        ks = kids(n)
        if k == "CompoundStmt":
            flow = "next"
            for c in ks:
                x, flow = self._stmt(c, x, env, fname)
                if flow != "next":
                    return x, flow
            return x, "next"
        if k == "NullStmt":
            return x, "next"
        if k == "ReturnStmt":
            return x, "return"
        if k == "BreakStmt":
            return x, "break"
        if k == "SwitchStmt":
            return self._switch(n, x, env, fname)
        if k == "IfStmt":
            cond = ks[0]
            try:
                cv = ConstEval(self.prog, env).eval(cond)
            except NotConstant:
                cv = None
            if cv is None:
                a, fa = self._stmt(ks[1], x, env, fname)
                b, fb = self._stmt(ks[2], x, env, fname) if len(ks) > 2 else (x, "next")
                if fa != fb:
                    raise AnalysisBroken("%s: branches of an undecidable condition end differently at %s" % (fname, loc_str(n)))
                return a.join(b), fa
            if cv:
                return self._stmt(ks[1], x, env, fname)
            if len(ks) > 2:
                return self._stmt(ks[2], x, env, fname)
            return x, "next"
        if k in ("BinaryOperator", "CompoundAssignOperator", "CallExpr", "UnaryOperator", "ImplicitCastExpr",
                 "ParenExpr", "CStyleCastExpr"):
            return self._expr(n, x, env, fname), "next"
        if k == "DeclStmt":
            return x, "next"
        if k in ("CaseStmt", "DefaultStmt"):
            # label inside a compound reached by fallthrough
            return self._stmt(ks[-1], x, env, fname)
        raise AnalysisBroken("%s: statement kind %s not understood at %s" % (fname, k, loc_str(n)))

    def _switch(self, n, x, env, fname):
        ks = kids(n)
        cond, body = ks[0], ks[-1]
        try:
            v = ConstEval(self.prog, env).eval(cond)
        except NotConstant:
            raise AnalysisBroken("%s: switch on a value that is not the option at %s" % (fname, loc_str(n)))
        stmts = kids(body) if body.get("kind") == "CompoundStmt" else [body]
        # find entry: matching case else default
        entry = None
        default = None
        for i, s in enumerate(stmts):
            lab = s
            while lab.get("kind") in ("CaseStmt", "DefaultStmt"):
                if lab["kind"] == "DefaultStmt":
                    default = i if default is None else default
                else:
                    cv = ConstEval(self.prog, env).eval(kids(lab)[0])
                    if cv == v and entry is None:
                        entry = i
                lab = kids(lab)[-1]
        if entry is None:
            entry = default
        if entry is None:
            return x, "next"
        for s in stmts[entry:]:
            inner = s
            while inner.get("kind") in ("CaseStmt", "DefaultStmt"):
                inner = kids(inner)[-1]
            x, flow = self._stmt(inner, x, env, fname)
            if flow == "break":
                return x, "next"
            if flow == "return":
                return x, "return"
        return x, "next"

    def _is_field(self, e):
        e = strip(e)
        return (e and e.get("kind") == "MemberExpr" and e.get("name") == FIELD and
                ref_name(kids(e)[0]) == self.inst)

    def _expr(self, n, x, env, fname):
        n = strip(n, casts=True)
        k = n.get("kind")
        ks = kids(n)
        if k in ("BinaryOperator", "CompoundAssignOperator") and n.get("opcode") in ("=", "|=", "&=", "^=", "+=", "-="):
            lhs = strip(ks[0])
            if self._is_field(lhs):
                self.sites.append((fname, loc_str(n), expr_str(n)))
                op = n.get("opcode")
                if op == "=":
                    sym = self._sym(ks[1], env)
                    if sym is None:
                        return Xfer(x.A, x.O, FULL)
                    return x.then(sym)
                try:
                    c = ConstEval(self.prog, env).eval(ks[1]) & FULL
                except NotConstant:
                    return Xfer(x.A, x.O, FULL)
                if op == "|=":
                    return x.then(Xfer(FULL, c))
                if op == "&=":
                    return x.then(Xfer(c, 0))
                if op == "=":
                    return x.then(Xfer(0, c))
                return Xfer(x.A, x.O, FULL)
            # a store to something else
            if lhs.get("kind") in ("MemberExpr", "UnaryOperator", "ArraySubscriptExpr", "DeclRefExpr"):
                if not (lhs.get("kind") == "DeclRefExpr" and lhs.get("referencedDecl", {}).get("kind") in ("VarDecl",) and
                        lhs["referencedDecl"].get("id") and self._is_local(lhs, fname)):
                    self.foreign_writes.append((fname, expr_str(lhs), loc_str(n)))
            return x
        if k == "UnaryOperator" and n.get("opcode") in ("++", "--"):
            if self._is_field(ks[0]):
                return Xfer(x.A, x.O, FULL)
            self.foreign_writes.append((fname, expr_str(ks[0]), loc_str(n)))
            return x
        if k == "CallExpr":
            cn = callee_name(n)
            args = call_args(n)
            passes_inst = [i for i, a in enumerate(args) if ref_name(a) == self.inst]
            if not passes_inst:
                return x
            if cn in self.prog.functions and len(args) == 2 and passes_inst == [0]:
                try:
                    v = ConstEval(self.prog, env).eval(args[1])
                except NotConstant:
                    return Xfer(x.A, x.O, FULL)
                saved = (self.inst, self.optname)
                sub = self.summary(cn, v)
                self.inst, self.optname = saved
                return x.then(sub)
            # instance handed to a function we cannot summarise
            return Xfer(x.A, x.O, FULL)
        return x

    def _sym(self, e, env):
        """value of an expression as a transfer of the current field value:
        the field itself, constants, and `&` / `|` of those"""
        e = strip(e, casts=True)
        if self._is_field(e):
            return Xfer()
        try:
            return Xfer(0, ConstEval(self.prog, env).eval(e) & FULL)
        except NotConstant:
            pass
        if e.get("kind") == "BinaryOperator" and e.get("opcode") in ("&", "|"):
            a, b = self._sym(kids(e)[0], env), self._sym(kids(e)[1], env)
            if a is None or b is None:
                return None
            # only field-op-constant shapes are bitwise-separable here
            if a.A == 0 and b.A == 0:
                v = (a.O & b.O) if e["opcode"] == "&" else (a.O | b.O)
                return Xfer(0, v)
            if a.A == 0:
                a, b = b, a
            if b.A != 0:
                return None
            c = b.O
            if e["opcode"] == "&":
                return Xfer(a.A & c, a.O & c, a.T)
            return Xfer(a.A, a.O | c, a.T & ~c)
        return None

    def _is_local(self, ref, fname):
        f = self.prog.fn(fname)
        rid = ref["referencedDecl"].get("id")
        for m in walk(f):
            if m.get("kind") in ("VarDecl", "ParmVarDecl") and m.get("id") == rid:
                return True
        return False
