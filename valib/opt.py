"""OPT engine: per-bit transfer functions of the option setters, extracted
from their bodies, and the finite option model built from them.

A setter body is abstractly interpreted with the `option` parameter bound to
one value class at a time.  The abstract value of `<instance>->assembly_opt`
is a pair (A, O) meaning new = (old & A) | O; anything the interpreter does
not understand makes the affected bits TOP.
"""
from .core import (AnalysisBroken, ConstEval, NotConstant, kids, strip, expr_str, callee_name,
                   call_args, ref_name, loc_str, walk, qtype)

FIELD = "assembly_opt"
WIDTH = 8
FULL = (1 << WIDTH) - 1


class Xfer:
    """per-bit function of the old field value: Z = result bits when the old bit
    is 0, N = result bits when the old bit is 1 (keep: Z=0,N=1; set: 1,1;
    clear: 0,0; flip: 1,0); T = bits whose effect is unknown"""
    __slots__ = ("Z", "N", "T")

    def __init__(self, A=FULL, O=0, T=0, Z=None, N=None):
        if Z is None:
            # new = (old & A) | O
            Z = O
            N = (A | O)
        self.Z, self.N, self.T = Z & FULL, N & FULL, T & FULL

    @staticmethod
    def xor(c):
        return Xfer(Z=c, N=~c & FULL)

    def then(self, o):
        """self followed by o"""
        # result for old bit b: o applied to self(b)
        z = (self.Z & o.N) | (~self.Z & o.Z)
        n = (self.N & o.N) | (~self.N & o.Z)
        const_o = ~(o.Z ^ o.N) & FULL          # bits where o ignores its input
        t = (self.T & ~const_o) | o.T
        return Xfer(Z=z, N=n, T=t)

    def join(self, o):
        diff = (self.Z ^ o.Z) | (self.N ^ o.N)
        return Xfer(Z=self.Z, N=self.N, T=self.T | o.T | diff)

    def apply(self, v):
        return ((~v & self.Z) | (v & self.N)) & FULL

    @property
    def A(self):
        """bits that may survive (not forced to 0)"""
        return (self.Z | self.N) & FULL

    @property
    def O(self):
        """bits forced to 1"""
        return self.Z & self.N & FULL

    def changed(self):
        """bits that are not simply kept"""
        return (self.Z | (~self.N & FULL) | self.T) & FULL

    def bit(self, i):
        m = 1 << i
        if self.T & m:
            return "top"
        z, n = bool(self.Z & m), bool(self.N & m)
        return {(False, True): "keep", (True, True): "set", (False, False): "clear", (True, False): "flip"}[(z, n)]

    def with_top(self, t=FULL):
        return Xfer(Z=self.Z, N=self.N, T=self.T | t)

    def __eq__(self, o):
        return (self.Z, self.N, self.T) == (o.Z, o.N, o.T)

    def __repr__(self):
        return "Xfer(%s)" % ",".join(self.bit(i) for i in range(WIDTH - 1, -1, -1))


class SetterInterp:
    def __init__(self, prog, other_writers=None):
        self.prog = prog
        self.summ = {}
        self.stack = []
        self.foreign_writes = []   # (fn, field expr, loc) writes to something else than al->assembly_opt
        self.sites = []

    def summary(self, fname, optval):
        key = (fname, optval)
        if key in self.summ:
            return self.summ[key]
        if key in self.stack:
            raise AnalysisBroken("recursive option setter %s" % fname)
        self.stack.append(key)
        f = self.prog.fn(fname)
        ps = self.prog.params(f)
        if len(ps) != 2:
            raise AnalysisBroken("setter %s does not take (instance, option)" % fname)
        self.inst, self.optname = ps[0]["name"], ps[1]["name"]
        env = {self.optname: optval}
        saved = (self.inst, self.optname)
        saved_locals = getattr(self, "locals", {})
        self.locals = {}        # locals that hold a copy of the field: decl id -> transfer of the field's entry value
        x, _ = self._block(self.prog.body(f), Xfer(), env, fname)
        self.locals = saved_locals
        self.inst, self.optname = saved
        self.stack.pop()
        self.summ[key] = x
        return x

    # returns (xfer at fallthrough or None if all paths returned, xfer joined over returns)
    def _block(self, n, x, env, fname):
        """interpret statement n starting from transfer x; result: (state, flow)
        flow in {"next","break","return"}"""
        st = self._stmt(n, x, env, fname)
        return st

    def _stmt(self, n, x, env, fname):
        k = n.get("kind")
        ks = kids(n)
        if k == "CompoundStmt":
            flow = "next"
            for c in ks:
                x, flow = self._stmt(c, x, env, fname)
                if flow != "next":
                    return x, flow
            return x, "next"
        if k == "NullStmt":
            return x, "next"
        if k == "ReturnStmt":
            return x, "return"
        if k == "BreakStmt":
            return x, "break"
        if k == "SwitchStmt":
            return self._switch(n, x, env, fname)
        if k == "IfStmt":
            cond = ks[0]
            try:
                cv = ConstEval(self.prog, env).eval(cond)
            except NotConstant:
                cv = None
            if cv is None:
                a, fa = self._stmt(ks[1], x, env, fname)
                b, fb = self._stmt(ks[2], x, env, fname) if len(ks) > 2 else (x, "next")
                if fa != fb:
                    raise AnalysisBroken("%s: branches of an undecidable condition end differently at %s" % (fname, loc_str(n)))
                return a.join(b), fa
            if cv:
                return self._stmt(ks[1], x, env, fname)
            if len(ks) > 2:
                return self._stmt(ks[2], x, env, fname)
            return x, "next"
        if k in ("BinaryOperator", "CompoundAssignOperator", "CallExpr", "UnaryOperator", "ImplicitCastExpr",
                 "ParenExpr", "CStyleCastExpr"):
            return self._expr(n, x, env, fname), "next"
        if k == "DeclStmt":
            for vd in ks:
                if vd.get("kind") == "VarDecl" and kids(vd) and self._is_field(strip(kids(vd)[-1], casts=True)):
                    self.locals[vd["id"]] = x           # `uint8_t opt = al->assembly_opt;`
            return x, "next"
        if k in ("CaseStmt", "DefaultStmt"):
            # label inside a compound reached by fallthrough
            return self._stmt(ks[-1], x, env, fname)
        raise AnalysisBroken("%s: statement kind %s not understood at %s" % (fname, k, loc_str(n)))

    def _switch(self, n, x, env, fname):
        ks = kids(n)
        cond, body = ks[0], ks[-1]
        try:
            v = ConstEval(self.prog, env).eval(cond)
        except NotConstant:
            raise AnalysisBroken("%s: switch on a value that is not the option at %s" % (fname, loc_str(n)))
        stmts = kids(body) if body.get("kind") == "CompoundStmt" else [body]
        # find entry: matching case else default
        entry = None
        default = None
        for i, s in enumerate(stmts):
            lab = s
            while lab.get("kind") in ("CaseStmt", "DefaultStmt"):
                if lab["kind"] == "DefaultStmt":
                    default = i if default is None else default
                else:
                    cv = ConstEval(self.prog, env).eval(kids(lab)[0])
                    if cv == v and entry is None:
                        entry = i
                lab = kids(lab)[-1]
        if entry is None:
            entry = default
        if entry is None:
            return x, "next"
        for s in stmts[entry:]:
            inner = s
            while inner.get("kind") in ("CaseStmt", "DefaultStmt"):
                inner = kids(inner)[-1]
            x, flow = self._stmt(inner, x, env, fname)
            if flow == "break":
                return x, "next"
            if flow == "return":
                return x, "return"
        return x, "next"

    def _is_field(self, e):
        e = strip(e)
        return (e and e.get("kind") == "MemberExpr" and e.get("name") == FIELD and
                ref_name(kids(e)[0]) == self.inst)

    def _expr(self, n, x, env, fname):
        n = strip(n, casts=True)
        k = n.get("kind")
        ks = kids(n)
        if k in ("BinaryOperator", "CompoundAssignOperator") and n.get("opcode") in ("=", "|=", "&=", "^=", "+=", "-="):
            lhs = strip(ks[0])
            lid = lhs.get("referencedDecl", {}).get("id") if lhs.get("kind") == "DeclRefExpr" else None
            if lid in self.locals:
                # the local copy is adjusted like the field would be
                op = n.get("opcode")
                if op == "=" and self._is_field(strip(ks[1], casts=True)):
                    self.locals[lid] = x
                    return x
                try:
                    c = ConstEval(self.prog, env).eval(ks[1]) & FULL
                except NotConstant:
                    c = None
                cur = self.locals[lid]
                if c is None or op not in ("=", "|=", "&=", "^="):
                    self.locals[lid] = cur.with_top()
                elif op == "=":
                    self.locals[lid] = Xfer(0, c)
                elif op == "|=":
                    self.locals[lid] = cur.then(Xfer(FULL, c))
                elif op == "&=":
                    self.locals[lid] = cur.then(Xfer(c, 0))
                else:
                    self.locals[lid] = cur.then(Xfer.xor(c))
                return x
            if self._is_field(lhs):
                self.sites.append((fname, loc_str(n), expr_str(n)))
                op = n.get("opcode")
                r0 = strip(ks[1], casts=True)
                if op == "=" and r0.get("kind") == "DeclRefExpr" and r0.get("referencedDecl", {}).get("id") in self.locals:
                    return self.locals[r0["referencedDecl"]["id"]]      # the adjusted copy is stored back
                if op == "=":
                    sym = self._sym(ks[1], env)
                    if sym is None:
                        return x.with_top()
                    return x.then(sym)
                try:
                    c = ConstEval(self.prog, env).eval(ks[1]) & FULL
                except NotConstant:
                    return x.with_top()
                if op == "|=":
                    return x.then(Xfer(FULL, c))
                if op == "&=":
                    return x.then(Xfer(c, 0))
                if op == "=":
                    return x.then(Xfer(0, c))
                if op == "^=":
                    return x.then(Xfer.xor(c))
                return x.with_top()
            # a store to something else
            if lhs.get("kind") in ("MemberExpr", "UnaryOperator", "ArraySubscriptExpr", "DeclRefExpr"):
                if not (lhs.get("kind") == "DeclRefExpr" and lhs.get("referencedDecl", {}).get("kind") in ("VarDecl",) and
                        lhs["referencedDecl"].get("id") and self._is_local(lhs, fname)):
                    self.foreign_writes.append((fname, expr_str(lhs), loc_str(n)))
            return x
        if k == "UnaryOperator" and n.get("opcode") in ("++", "--"):
            if self._is_field(ks[0]):
                return x.with_top()
            self.foreign_writes.append((fname, expr_str(ks[0]), loc_str(n)))
            return x
        if k == "CallExpr":
            cn = callee_name(n)
            args = call_args(n)
            passes_inst = [i for i, a in enumerate(args) if ref_name(a) == self.inst]
            if not passes_inst:
                return x
            if cn in self.prog.functions and len(args) == 2 and passes_inst == [0]:
                try:
                    v = ConstEval(self.prog, env).eval(args[1])
                except NotConstant:
                    return x.with_top()
                saved = (self.inst, self.optname)
                sub = self.summary(cn, v)
                self.inst, self.optname = saved
                return x.then(sub)
            # instance handed to a function we cannot summarise
            return x.with_top()
        return x

    def _sym(self, e, env):
        """value of an expression as a transfer of the current field value:
        the field itself, constants, and `&` / `|` of those"""
        e = strip(e, casts=True)
        if self._is_field(e):
            return Xfer()
        try:
            return Xfer(0, ConstEval(self.prog, env).eval(e) & FULL)
        except NotConstant:
            pass
        if e.get("kind") == "BinaryOperator" and e.get("opcode") == "^":
            a, b = self._sym(kids(e)[0], env), self._sym(kids(e)[1], env)
            if a is None or b is None:
                return None
            if a.Z == a.N and not a.T:
                a, b = b, a
            if not (b.Z == b.N and not b.T):
                return None
            return a.then(Xfer.xor(b.Z))
        if e.get("kind") == "BinaryOperator" and e.get("opcode") in ("&", "|"):
            a, b = self._sym(kids(e)[0], env), self._sym(kids(e)[1], env)
            if a is None or b is None:
                return None
            # only field-op-constant shapes are bitwise-separable here
            ca, cb = a.Z == a.N and not a.T, b.Z == b.N and not b.T     # constants
            if ca and cb:
                v = (a.Z & b.Z) if e["opcode"] == "&" else (a.Z | b.Z)
                return Xfer(0, v)
            if ca:
                a, b = b, a
                ca, cb = cb, ca
            if not cb:
                return None
            c = b.O
            if e["opcode"] == "&":
                return a.then(Xfer(c, 0))
            return a.then(Xfer(FULL, c))
        return None

    def _is_local(self, ref, fname):
        f = self.prog.fn(fname)
        rid = ref["referencedDecl"].get("id")
        for m in walk(f):
            if m.get("kind") in ("VarDecl", "ParmVarDecl") and m.get("id") == rid:
                return True
        return False


# ---------------------------------------------------------------------------------------------------------------------
# RECBITS: the per-line copy of the option field keeps the SIB bits the instance had
# ---------------------------------------------------------------------------------------------------------------------

def record_bits_rule(chk, prog, rule="RECBITS", field="assembly_opt"):
    """The per-line record starts with a copy of the instance's option field; the immediate scanner may resolve the SMART
    mov-immediate choice in that copy (set / clear the two mov-immediate bits).  Any other store into the copy - a constant,
    or a mask that reaches the SIB bits - changes how the memory operand of that very line is encoded."""
    from .core import kids, strip, walk, expr_str, loc_str, ConstEval
    from .macros import macro_values
    from . import eff as EFF
    mv = macro_values(prog, ["NASM_MOV_IMM", "SMART_MOV_IMM", "NASM_SIB_INDEX_BASE_SWAP", "NASM_SIB_NO_BASE"])
    movbits = mv["NASM_MOV_IMM"] | mv["SMART_MOV_IMM"]
    sib = mv["NASM_SIB_INDEX_BASE_SWAP"] | mv["NASM_SIB_NO_BASE"]
    ce = ConstEval(prog)
    n = 0
    for fn, f in sorted(prog.lib_functions().items()):
        for m in walk(prog.body(f)):
            if m.get("kind") not in ("BinaryOperator", "CompoundAssignOperator") or not m.get("opcode", "").endswith("=") or \
                    m.get("opcode") in ("==", "!=", "<=", ">="):
                continue
            l = strip(kids(m)[0])
            owner, fld = EFF.owner_field(l)
            if fld != field or owner in ("assemblyline", None):
                continue
            n += 1
            op = m["opcode"]
            r = strip(kids(m)[1], casts=True)
            key = "%s/%s@%s" % (rule, fn, loc_str(m))
            want = "a store into the per-line option copy leaves the SIB option bits (%#x) as the instance has them" % sib
            if op == "=":
                ro, rf = EFF.owner_field(r) if r.get("kind") == "MemberExpr" else (None, None)
                if rf == field:
                    chk.ok(rule, key, loc_str(m), "the per-line option copy is taken from the option field (%s)" % expr_str(r))
                    continue
                v = ce.try_eval(r)
                if v is not None:
                    chk.bad(rule, key, loc_str(m), want, "the copy is overwritten with the constant %#x: %s" % (v, expr_str(m)))
                    continue
                # a bitwise expression over the old value of the copy (or a local that holds it) and constants: bit i of the result
                # then depends on bit i of the old value only; it is unchanged iff old=0 gives 0 and old=1 gives 1
                touched = _bitwise_touched(prog, f, r, field)
                if touched is None:
                    chk.broken(rule, key, loc_str(m), want, "cannot tell which bits %s changes" % expr_str(m)[:80])
                else:
                    chk.require(not (touched & sib), rule, key, loc_str(m), want, "%s changes bits %#x" % (expr_str(m), touched & 0xff))
                continue
            v = ce.try_eval(r)
            if v is None:
                chk.broken(rule, key, loc_str(m), want, "the mask of %s is not a constant" % expr_str(m)[:80])
                continue
            if op == "|=":
                touched = v
            elif op == "&=":
                touched = ~v & 0xffffffff
            elif op == "^=":
                touched = v
            else:
                touched = 0xffffffff
            chk.require(not (touched & sib), rule, key, loc_str(m), want, "%s changes bits %#x" % (expr_str(m), touched & 0xff))
    chk.floor("stores into the per-line option copy", n, 2)
    return n


def _bitwise_touched(prog, f, e, field):
    """bits of `field` that the value of expression e can differ in from the old field value; None if e is not a bitwise
    combination of the old value and constants"""
    from .core import kids, strip, walk, ConstEval, ref_name
    aliases = set()
    assigned = set()
    for m in walk(prog.body(f)):
        if m.get("kind") in ("BinaryOperator", "CompoundAssignOperator") and m.get("opcode", "").endswith("=") and \
                m.get("opcode") not in ("==", "!=", "<=", ">=") and strip(kids(m)[0]).get("kind") == "DeclRefExpr":
            assigned.add(ref_name(strip(kids(m)[0])))
    for m in walk(prog.body(f)):
        if m.get("kind") == "VarDecl" and kids(m) and m["name"] not in assigned:
            i0 = strip(kids(m)[-1], casts=True)
            if i0.get("kind") == "MemberExpr" and i0.get("name") == field:
                aliases.add(m["name"])
    ce = ConstEval(prog)

    def ev(n, old):
        n = strip(n, casts=True)
        v = ce.try_eval(n)
        if v is not None:
            return v & 0xffffffff
        k = n.get("kind")
        if k == "MemberExpr" and n.get("name") == field:
            return old
        if k == "DeclRefExpr" and ref_name(n) in aliases:
            return old
        if k == "BinaryOperator" and n.get("opcode") in ("|", "&", "^"):
            a, b = ev(kids(n)[0], old), ev(kids(n)[1], old)
            if a is None or b is None:
                return None
            return {"|": a | b, "&": a & b, "^": a ^ b}[n["opcode"]]
        if k == "UnaryOperator" and n.get("opcode") == "~":
            a = ev(kids(n)[0], old)
            return None if a is None else (~a) & 0xffffffff
        return None
    r0, r1 = ev(e, 0), ev(e, 0xffffffff)
    if r0 is None or r1 is None:
        return None
    unchanged = (~r0) & r1 & 0xffffffff
    return (~unchanged) & 0xffffffff
