"""COVER: write-coverage of the encoder functions.

Every function that writes code bytes through a destination pointer and
returns a length must have written exactly the bytes [0, returned length):
no gap (a byte that keeps the buffer's previous contents) and no length that
exceeds what was written.  The analysis tracks, symbolically, cov = number of
leading destination bytes written so far, as a linear expression over the
function's locals, through the idioms the encoder uses:

    ptr[pos++] = v          *ptr++ = v          ptr[pos] = v; pos++
    n = callee(.., ptr + pos); pos += n         pos += callee(.., ptr + pos)
    for (m = a; m < b; m++) ptr[m] = v          loops around the above

A proven gap or length mismatch is a violation; an idiom the analysis does not
understand makes the function "unproven" (exit 2), never a violation."""
from .core import (AnalysisBroken, ConstEval, kids, strip, walk, expr_str, loc_str, qtype, ref_name, callee_name, call_args)
from . import eff as EFF


class Unknown(Exception):
    pass


class Gap(Exception):
    def __init__(self, node, text):
        Exception.__init__(self, text)
        self.node, self.text = node, text


def lin_add(a, b, k=1):
    out = dict(a)
    for s, c in b.items():
        out[s] = out.get(s, 0) + k * c
        if out[s] == 0:
            del out[s]
    return out


def lin_const(c):
    return {"": c} if c else {}


def lin_is_zero(a):
    return not a


def lin_const_value(a):
    if not a:
        return 0
    if set(a) == {""}:
        return a[""]
    return None


class NotAdjacent(Gap):
    """a store whose position cannot be shown to be adjacent to the bytes already written"""


class Cover:
    def __init__(self, prog, fname, f, summaries):
        self.prog, self.fname, self.f = prog, fname, f
        self.summ = summaries            # callee -> "exact" (writes exactly [0, ret))
        self.ce = ConstEval(prog)
        ps = prog.params(f)
        self.dest = [p["name"] for p in ps if qtype(p).replace("const ", "") in ("uint8_t *", "unsigned char *")]
        if len(self.dest) != 1:
            raise Unknown("no single destination parameter")
        self.dest = self.dest[0]
        self.alias = {self.dest}          # local pointers that start as the destination (pointer-bump idiom)
        self.bumped = {}                  # alias -> symbol for the number of bytes it was advanced
        self.fresh = 0

    # ---- linear expressions -------------------------------------------------
    def lin(self, e, env):
        e = strip(e, casts=True)
        v = self.ce.try_eval(e)
        if v is not None:
            return lin_const(v)
        k = e.get("kind")
        if k == "DeclRefExpr":
            nm = ref_name(e)
            if nm in env:
                return dict(env[nm])
            return {nm: 1}
        if k == "BinaryOperator" and e.get("opcode") == "-" and "*" in qtype(strip(kids(e)[0])) and "*" in qtype(strip(kids(e)[1])):
            # distance between two pointers into the destination (`return out - ptr;`)
            oa, ob = self.dest_offset(kids(e)[0], env), self.dest_offset(kids(e)[1], env)
            if oa is not None and ob is not None:
                return lin_add(oa, ob, -1)
            raise Unknown("pointer difference %s" % expr_str(e))
        if k == "BinaryOperator" and e.get("opcode") in ("+", "-"):
            a, b = self.lin(kids(e)[0], env), self.lin(kids(e)[1], env)
            return lin_add(a, b, 1 if e["opcode"] == "+" else -1)
        if k == "UnaryOperator" and e.get("opcode") in ("++", "--") and e.get("isPostfix"):
            return self.lin(kids(e)[0], env)
        if k == "UnaryOperator" and e.get("opcode") in ("++", "--"):
            # prefix form: the value used is the already stepped one (the step itself is applied by _side_effects)
            return lin_add(self.lin(kids(e)[0], env), lin_const(1 if e["opcode"] == "++" else -1))
        raise Unknown("index expression %s" % expr_str(e))

    def dest_offset(self, e, env):
        """offset (linear) of a pointer expression relative to the destination, or None if it is not the destination"""
        e = strip(e, casts=True)
        k = e.get("kind")
        if k == "DeclRefExpr":
            nm = ref_name(e)
            if nm == self.dest:
                return {}
            if nm in self.alias:
                if "@" + nm not in env:
                    raise Unknown("position of %s relative to the destination is not known" % nm)
                return dict(env["@" + nm])
            return None
        if k == "BinaryOperator" and e.get("opcode") == "+":
            for a, b in ((kids(e)[0], kids(e)[1]), (kids(e)[1], kids(e)[0])):
                off = self.dest_offset(a, env)
                if off is not None:
                    return lin_add(off, self.lin(b, env))
        if k == "UnaryOperator" and e.get("opcode") in ("++", "--") and e.get("isPostfix"):
            return self.dest_offset(kids(e)[0], env)
        if k == "UnaryOperator" and e.get("opcode") in ("++", "--"):
            off = self.dest_offset(kids(e)[0], env)
            return None if off is None else lin_add(off, lin_const(1 if e["opcode"] == "++" else -1))
        return None

    # ---- statements -------------------------------------------------------------------
    def run(self):
        st = {"cov": {}, "env": {}}
        body = self.prog.body(self.f)
        self.returns = []
        self.blockm(body, [st])
        return self.returns

    MAXSTATES = 24

    def blockm(self, n, states):
        """apply statement n to a disjunction of states (paths are kept apart; no join at if/switch)"""
        states = [s for s in states if s is not None]
        if not states:
            return []
        k = n.get("kind")
        ks = kids(n)
        if k == "CompoundStmt":
            for c in ks:
                states = self.blockm(c, states)
                if not states:
                    return []
            return states
        out = []
        if k == "IfStmt":
            for st in states:
                st = self.expr(ks[0], st)
                out += self.blockm(ks[1], [self._copy(st)])
                out += self.blockm(ks[2], [self._copy(st)]) if len(ks) > 2 else [self._copy(st)]
        elif k == "SwitchStmt":
            for st in states:
                out += self.switchm(n, st)
        elif k == "WhileStmt" and self._counted_while(n) is not None:
            # while (v < C) { ...; v++ }: either the loop is not entered (v >= C already) or it exits with v == C
            v, C = self._counted_while(n)
            for st in states:
                inv = self.loop(n, self._copy(st))
                if inv is None:
                    continue
                out.append(self._copy(st))                      # not entered
                diff = lin_add(inv["cov"], {v: 1}, -1)
                if any(sym == v for sym in diff if sym):
                    out.append(inv)                              # cov is not tied to v: keep the invariant state
                    continue
                ex = self._copy(inv)
                ex["cov"] = lin_add(lin_const(C), diff)
                ex = self._set(ex, v, lin_const(C))
                out.append(ex)
        else:
            for st in states:
                r = self.block(n, st)
                if r is not None:
                    out.append(r)
        # dedupe, cap
        uniq = []
        for s_ in out:
            if not any(self._same(s_, u) and self._same(u, s_) for u in uniq):
                uniq.append(s_)
        if len(uniq) > self.MAXSTATES:
            j = uniq[0]
            for u in uniq[1:]:
                j = self._join(j, u, n)
            uniq = [j]
        return uniq

    def _counted_while(self, n):
        """(v, C) for `while (v < C) body` where C is an integer constant and the body changes v only by one unconditional v++"""
        raw = n.get("inner", [])
        cond, body = strip(raw[0]), raw[1]
        if not (cond.get("kind") == "BinaryOperator" and cond.get("opcode") == "<"):
            return None
        v = ref_name(strip(kids(cond)[0], casts=True))
        C = ConstEval(self.prog).try_eval(kids(cond)[1])
        if not v or C is None:
            return None
        incs = 0
        from .core import walk_with_parents
        for m, parents in walk_with_parents(body):
            if m.get("kind") in ("BinaryOperator", "CompoundAssignOperator") and m.get("opcode", "").endswith("=") and \
                    m.get("opcode") not in ("==", "!=", "<=", ">=") and ref_name(strip(kids(m)[0], casts=True)) == v:
                return None
            if m.get("kind") == "UnaryOperator" and m.get("opcode") in ("++", "--") and ref_name(strip(kids(m)[0], casts=True)) == v:
                if m["opcode"] == "--" or any(p.get("kind") in ("IfStmt", "WhileStmt", "ForStmt", "DoStmt", "SwitchStmt", "ConditionalOperator")
                                               for p in parents):
                    return None
                incs += 1
        return (v, C) if incs == 1 else None

    def switchm(self, n, st):
        ks = kids(n)
        st = self.expr(ks[0], st)
        body = ks[-1]
        outs = [self._copy(st)]          # no case taken
        cur = []
        for s_ in kids(body):
            inner = s_
            is_label = False
            while inner.get("kind") in ("CaseStmt", "DefaultStmt"):
                inner = kids(inner)[-1]
                is_label = True
            if is_label:
                cur = cur + [self._copy(st)]
            if inner.get("kind") == "BreakStmt":
                outs += cur
                cur = []
                continue
            if cur:
                cur = self.blockm(inner, cur)
                if inner.get("kind") == "CompoundStmt" and any(x.get("kind") == "BreakStmt" for x in kids(inner)):
                    outs += cur
                    cur = []
        outs += cur
        return outs

    def block(self, n, st):
        k = n.get("kind")
        ks = kids(n)
        if st is None:
            return None
        if k == "CompoundStmt":
            res = self.blockm(n, [st])
            if not res:
                return None
            j = res[0]
            for u in res[1:]:
                j = self._join(j, u, n)
            return j
        if k == "NullStmt":
            return st
        if k == "DeclStmt":
            for vd in ks:
                if vd.get("kind") == "VarDecl":
                    init = kids(vd)
                    nm = vd["name"]
                    if init and "*" in qtype(vd):
                        off = self.dest_offset(init[-1], st["env"])
                        if off is not None:
                            self.alias.add(nm)
                            st = self._set(st, "@" + nm, off)
                            continue
                    if init:
                        i0 = strip(init[-1])
                        if i0.get("kind") == "CallExpr":
                            st = self.expr(init[-1], st, assign_to=nm)
                        else:
                            st = self._ex(i0, st)
                            try:
                                st = self._set(st, nm, self.lin(i0, st["env"]))
                            except Unknown:
                                st = self._kill(st, nm)
                    else:
                        st = self._kill(st, nm)
            return st
        if k == "ReturnStmt":
            if ks:
                r0 = strip(ks[0], casts=True)
                if r0.get("kind") == "ConditionalOperator":
                    # `return c ? a : b;` is two returns; the condition is over lengths nothing is known about, so both happen
                    st = self.expr(kids(r0)[0], st)
                    for arm in kids(r0)[1:]:
                        sa = self.expr(arm, self._copy(st), is_return=True)
                        self.returns.append((n, sa["ret"], sa["cov"]))
                    return None
                st = self.expr(ks[0], st, is_return=True)
                self.returns.append((n, st["ret"], st["cov"]))
            return None
        if k in ("IfStmt", "SwitchStmt"):
            res = self.blockm(n, [st])
            if not res:
                return None
            j = res[0]
            for u in res[1:]:
                j = self._join(j, u, n)
            return j
        if k in ("WhileStmt", "DoStmt", "ForStmt"):
            return self.loop(n, st)
        if k == "SwitchStmt":
            st = self.expr(ks[0], st)
            body = ks[-1]
            outs = [self._copy(st)]          # no case taken
            cur = None
            for s_ in kids(body):
                inner = s_
                is_label = False
                while inner.get("kind") in ("CaseStmt", "DefaultStmt"):
                    inner = kids(inner)[-1]
                    is_label = True
                if is_label:
                    cur = self._join(cur, self._copy(st), n) if cur is not None else self._copy(st)
                if inner.get("kind") == "BreakStmt":
                    if cur is not None:
                        outs.append(cur)
                    cur = None
                    continue
                if cur is not None:
                    cur = self.block(inner, cur)
                    if inner.get("kind") == "CompoundStmt" and any(x.get("kind") == "BreakStmt" for x in kids(inner)):
                        outs.append(cur)
                        cur = None
            if cur is not None:
                outs.append(cur)
            res = None
            for o in outs:
                res = o if res is None else self._join(res, o, n)
            return res
        if k == "BreakStmt":
            return st       # only inside switch handled above / loops: treated as fallthrough of the loop body
        if k == "ContinueStmt":
            return st
        return self.expr(n, st)

    def loop(self, n, st):
        k = n.get("kind")
        raw = n.get("inner", [])
        if k == "ForStmt":
            init, cond, inc, body = raw[0], raw[2], raw[3], raw[4]
            # idiom L2: for (m = A; m < B; m++) dest[m] = v;
            l2 = self._indexed_fill(init, cond, inc, body, st)
            if l2 is not None:
                return l2
            if init:
                st = self.block(init, st)
        else:
            cond = raw[0] if k == "WhileStmt" else raw[1]
            body = raw[1] if k == "WhileStmt" else raw[0]
            inc = None
        # the body must preserve the relation between cov and the program variables (loop invariant):
        # express cov through one variable the loop changes (the running index) and check the body keeps it
        mods = self._modified(n)
        last = None
        notadj = None
        for cand in self._rebase_candidates(st, mods):
            st0 = cand
            try:
                s1 = self.expr(cond, self._copy(st0)) if cond else self._copy(st0)
                outs = self.blockm(body, [self._copy(s1)])
                if inc:
                    outs = [self.expr(inc, o) for o in outs]
                if all(self._same(o, st0) for o in outs):
                    return st0
                last = "loop at %s does not keep written bytes in step with its index" % loc_str(n)
            except NotAdjacent as g:
                notadj = g
            except Unknown as u:
                last = str(u)
        if notadj is not None:
            raise notadj
        raise Unknown(last or "loop at %s not understood" % loc_str(n))

    def _rebase_candidates(self, st, mods):
        """states at the loop head in which every modified variable is unknown and cov is expressed through
        one of them (cov = V + d with d free of modified variables), or is independent of them"""
        cov = dict(st["cov"])
        base = self._copy(st)
        for v in mods:
            base["env"].pop(v, None)
        for alias in self.alias:
            if alias in mods:
                base["env"].pop("@" + alias, None)
        out = []
        if not any(s in mods for s in cov if s):
            c0 = self._copy(base)
            for alias in self.alias:
                if alias in mods and "@" + alias in st["env"]:
                    c0 = None
            if c0 is not None:
                out.append(c0)
        for v in sorted(mods, key=lambda x: (x not in self._index_vars(), x)):
            if v in self.alias:
                key = "@" + v
                if key in st["env"]:
                    diff = lin_add(cov, st["env"][key], -1)
                    if all(s not in mods for s in diff if s):
                        c = self._copy(base)
                        c["env"][key] = {"#" + v: 1}
                        c["cov"] = lin_add({"#" + v: 1}, diff)
                        out.append(c)
                continue
            val = st["env"].get(v, {v: 1})
            diff = lin_add(cov, val, -1)
            if all(s not in mods for s in diff if s):
                c = self._copy(base)
                c["cov"] = lin_add({v: 1}, diff)
                out.append(c)
        return out

    def _modified(self, n):
        out = set()
        for a in EFF.accesses(n):
            nd = strip(a.node)
            if nd.get("kind") == "DeclRefExpr" and a.ctx in ("w", "rw"):
                out.add(ref_name(nd))
        return out

    def _indexed_fill(self, init, cond, inc, body, st):
        try:
            if not init or not cond or not inc:
                return None
            iv = None
            A = None
            if init.get("kind") == "DeclStmt" and len(kids(init)) == 1 and kids(kids(init)[0]):
                iv = kids(init)[0]["name"]
                A = self.lin(kids(kids(init)[0])[-1], st["env"])
            elif strip(init).get("kind") == "BinaryOperator" and strip(init).get("opcode") == "=":
                iv = ref_name(kids(strip(init))[0])
                A = self.lin(kids(strip(init))[1], st["env"])
            if not iv:
                return None
            c = strip(cond)
            if not (c.get("kind") == "BinaryOperator" and c.get("opcode") in ("<", "<=") and ref_name(kids(c)[0]) == iv):
                return None
            B = self.lin(kids(c)[1], st["env"])
            if c["opcode"] == "<=":
                B = lin_add(B, lin_const(1))
            i = strip(inc)
            if not (i.get("kind") == "UnaryOperator" and i.get("opcode") == "++" and ref_name(kids(i)[0]) == iv):
                return None
            stmts = kids(body) if body.get("kind") == "CompoundStmt" else [body]
            if len(stmts) != 1:
                return None
            s0 = strip(stmts[0])
            if not (s0.get("kind") == "BinaryOperator" and s0.get("opcode") == "="):
                return None
            l = strip(kids(s0)[0])
            if l.get("kind") != "ArraySubscriptExpr":
                return None
            off = self.dest_offset(kids(l)[0], st["env"])
            if off is None:
                return None
            # the subscript is the loop index, possibly plus something the loop does not change (`buf[written + i]`)
            env_i = dict(st["env"])
            env_i.pop(iv, None)
            idx = self.lin(kids(l)[1], env_i)
            if idx.get(iv) != 1:
                return None
            K = {k_: v_ for k_, v_ in idx.items() if k_ != iv}
            if any(k_ in self._modified(body) for k_ in K if k_):
                return None
            off = lin_add(off, K)
        except Unknown:
            return None
        # writes [off + A, off + B)
        start = lin_add(off, A)
        gap = lin_add(start, st["cov"], -1)
        g = lin_const_value(gap)
        if g is None:
            raise NotAdjacent(body, "the fill loop starts at index %s while %s leading bytes are written: not provably adjacent to them"
                              % (_show(start), _show(st["cov"])))
        if g > 0:
            raise Gap(body, "the fill loop starts at index %s but only %s leading bytes were written: %d byte(s) keep the buffer's previous contents"
                      % (_show(start), _show(st["cov"]), g))
        st = self._copy(st)
        st["cov"] = lin_add(off, B)
        st["env"].pop(iv, None)
        return st

    # ---- expressions -----------------------------------------------------------------------
    def expr(self, e, st, assign_to=None, is_return=False):
        e0 = strip(e)
        st = self._copy(st)
        if is_return:
            try:
                st["ret"] = self.lin(e0, st["env"]) if e0.get("kind") != "CallExpr" else None
            except Unknown:
                st["ret"] = None
            if e0.get("kind") == "CallExpr":
                st, r = self.call(e0, st)
                st["ret"] = r
            return st
        return self._ex(e0, st, assign_to)

    _cur = None

    def _ex(self, e, st, assign_to=None):
        e = strip(e)
        if not e:
            return st
        if e.get("kind") in ("BinaryOperator", "CompoundAssignOperator", "UnaryOperator", "CallExpr"):
            self._cur = e
        k, ks = e.get("kind"), kids(e)
        if k == "CallExpr":
            st, r = self.call(e, st)
            if assign_to:
                st = self._set(st, assign_to, r) if r is not None else self._kill(st, assign_to)
            return st
        if k in ("BinaryOperator", "CompoundAssignOperator") and e.get("opcode", "").endswith("=") and e.get("opcode") not in ("==", "!=", "<=", ">="):
            l = strip(ks[0])
            op = e["opcode"]
            # store through the destination?
            off = None
            if l.get("kind") == "ArraySubscriptExpr":
                off = self.dest_offset(kids(l)[0], st["env"])
                if off is not None:
                    idx = self.lin(kids(l)[1], st["env"])
                    off = lin_add(off, idx)
            elif l.get("kind") == "UnaryOperator" and l.get("opcode") == "*":
                off = self.dest_offset(kids(l)[0], st["env"])
            if off is not None:
                if op != "=":
                    raise Unknown("read-modify-write of the destination")
                st = self._ex(ks[1], st)
                gap = lin_add(off, st["cov"], -1)
                g = lin_const_value(gap)
                if g is None:
                    raise NotAdjacent(e, "store at index %s while %s leading bytes are written: not provably adjacent to them (a gap would keep the buffer's previous contents)"
                                      % (_show(off), _show(st["cov"])))
                if g > 0:
                    raise Gap(e, "store at index %s but only %s leading bytes were written: %d byte(s) keep the buffer's previous contents"
                              % (_show(off), _show(st["cov"]), g))
                if g == 0:
                    st["cov"] = lin_add(st["cov"], lin_const(1))
                # post-increments inside the lvalue
                st = self._side_effects(l, st)
                return st
            # assignment to a local
            nm = ref_name(l)
            if nm is not None:
                if nm in self.alias:
                    if op in ("+=", "-="):
                        st = self._ex(ks[1], st)
                        dv = self.lin(ks[1], st["env"])
                        key = "@" + nm
                        cur = st["env"].get(key)
                        if cur is None:
                            raise Unknown("position of %s relative to the destination is not known" % nm)
                        sgn = 1 if op == "+=" else -1
                        sym = "#" + nm
                        if cur == {sym: 1}:
                            st = self._copy(st)
                            if sym in st["cov"]:
                                st["cov"] = lin_add(st["cov"], dv, -sgn * st["cov"][sym])
                            return st
                        return self._set(st, key, lin_add(cur, dv, sgn))
                    raise Unknown("destination alias reassigned")
                rhs = strip(ks[1])
                if rhs.get("kind") == "CallExpr":
                    st, r = self.call(rhs, st)
                    val = r
                else:
                    st = self._ex(ks[1], st)
                    try:
                        val = self.lin(ks[1], st["env"])
                    except Unknown:
                        val = None
                if op == "=":
                    return self._set(st, nm, val) if val is not None else self._kill(st, nm)
                if op in ("+=", "-=") and val is not None:
                    cur = st["env"].get(nm, {nm: 1})
                    return self._set(st, nm, lin_add(cur, val, 1 if op == "+=" else -1))
                return self._kill(st, nm)
            st = self._ex(ks[1], st)
            return st
        if k == "UnaryOperator" and e.get("opcode") in ("++", "--"):
            return self._side_effects(e, st)
        for c in ks:
            st = self._ex(c, st)
        return st

    def _side_effects(self, e, st):
        for m in walk(e):
            if m.get("kind") == "UnaryOperator" and m.get("opcode") in ("++", "--"):
                nm = ref_name(kids(m)[0])
                d = 1 if m["opcode"] == "++" else -1
                if nm in self.alias:
                    key = "@" + nm
                    cur = st["env"].get(key)
                    if cur is None:
                        raise Unknown("position of %s relative to the destination is not known" % nm)
                    sym = "#" + nm
                    if cur == {sym: 1}:
                        # the symbol denotes the pointer's current offset: rebase everything else
                        st = self._copy(st)
                        if sym in st["cov"]:
                            st["cov"] = lin_add(st["cov"], lin_const(d), -st["cov"][sym])
                    else:
                        st = self._set(st, key, lin_add(cur, lin_const(d)))
                elif nm:
                    cur = st["env"].get(nm, {nm: 1})
                    st = self._set(st, nm, lin_add(cur, lin_const(d)))
        return st

    def call(self, e, st):
        cn = callee_name(e)
        args = call_args(e)
        for a in args:
            off = self.dest_offset(a, st["env"])
            if off is not None:
                if self.summ.get(cn) != "exact":
                    raise Unknown("destination handed to %s, whose coverage is not established" % cn)
                gap = lin_add(off, st["cov"], -1)
                g = lin_const_value(gap)
                if g is None:
                    raise NotAdjacent(e, "%s() is told to write at offset %s while %s leading bytes are written: not provably adjacent" % (cn, _show(off), _show(st["cov"])))
                if g > 0:
                    raise Gap(e, "%s() is told to write at offset %s but only %s leading bytes were written" % (cn, _show(off), _show(st["cov"])))
                self.fresh += 1
                sym = "ret%d:%s" % (self.fresh, cn)
                if g == 0:
                    st["cov"] = lin_add(st["cov"], {sym: 1})
                for b in args:
                    if b is not a:
                        st = self._ex(b, st)
                return st, {sym: 1}
        for a in args:
            st = self._ex(a, st)
        return st, None

    def _index_vars(self):
        """locals used as subscript of / offset to the destination"""
        if not hasattr(self, "_ivars"):
            self._ivars = set()
            for m in walk(self.prog.body(self.f)):
                if m.get("kind") == "ArraySubscriptExpr" and EFF.lvalue_root(strip(kids(m)[0], casts=True))[0] in self.alias | {self.dest}:
                    for x in walk(kids(m)[1]):
                        if x.get("kind") == "DeclRefExpr":
                            self._ivars.add(ref_name(x))
                if m.get("kind") == "BinaryOperator" and m.get("opcode") == "+" and ref_name(strip(kids(m)[0], casts=True)) in self.alias | {self.dest}:
                    for x in walk(kids(m)[1]):
                        if x.get("kind") == "DeclRefExpr":
                            self._ivars.add(ref_name(x))
        return self._ivars

    # ---- state helpers --------------------------------------------------------------------------
    def _copy(self, st):
        return None if st is None else {"cov": dict(st["cov"]), "env": {k: dict(v) for k, v in st["env"].items()}, "ret": st.get("ret")}

    def _set(self, st, nm, val):
        st = self._copy(st)
        if nm in val:
            # new value expressed through the variable's own (old) value: v' = v + d
            diff = lin_add(val, {nm: 1}, -1)
            if nm in diff:
                if nm not in st["cov"] and not any(nm in v for v in st["env"].values()):
                    st["env"].pop(nm, None)        # nothing depended on the old value: the symbol denotes the new one
                    return st
                raise Unknown("variable %s updated non-linearly" % nm)
            if nm in st["cov"]:
                c = st["cov"][nm]
                st["cov"] = lin_add(st["cov"], diff, -c)      # cov in terms of the new value
                rest = lin_const_value(lin_add(st["cov"], {nm: 1}, -1))
                if rest is not None and rest < 0 and nm in self._index_vars():
                    raise Gap(self._cur or self.f, "the index %s runs %d byte(s) ahead of the bytes written: they keep the buffer's previous contents" % (nm, -rest))
            for k, v in list(st["env"].items()):
                if nm in v:
                    st["env"][k] = lin_add(v, diff, -v[nm])
            st["env"].pop(nm, None)                            # the symbol now denotes the new value
            return st
        if nm in st["cov"]:
            raise Unknown("variable %s that measures the written length is overwritten" % nm)
        for k, v in list(st["env"].items()):
            if nm in v and k != nm:
                if k.startswith("@"):
                    raise Unknown("variable %s that positions %s is overwritten" % (nm, k[1:]))
                del st["env"][k]          # that local's value is no longer expressible
        st["env"][nm] = dict(val)
        return st

    def _kill(self, st, nm):
        st = self._copy(st)
        if nm in st["cov"]:
            raise Unknown("variable %s that measures the written length becomes unknown" % nm)
        st["env"].pop(nm, None)
        return st

    def _same(self, a, b):
        """a satisfies everything b states (same written length; every binding of b also holds in a)"""
        return a["cov"] == b["cov"] and all(a["env"].get(k) == v for k, v in b["env"].items())

    def _join(self, a, b, node):
        if a is None:
            return b
        if b is None:
            return a
        if a["cov"] != b["cov"]:
            # try to express both through a common running variable
            names = {k for k in (set(a["env"]) | set(b["env"]) | set(a["cov"]) | set(b["cov"])) if k and not k.startswith(("@", "#", "ret"))}
            for v in sorted(names, key=lambda x: (x not in self._index_vars(), x)):
                va, vb = a["env"].get(v, {v: 1}), b["env"].get(v, {v: 1})
                if True:
                    da, db = lin_add(a["cov"], va, -1), lin_add(b["cov"], vb, -1)
                    if da == db:
                        out = self._copy(a)
                        out["cov"] = lin_add({v: 1}, da)
                        out["env"] = {k: x for k, x in a["env"].items() if b["env"].get(k) == x and k != v}
                        return out
            for alias in self.alias:
                key = "@" + alias
                va, vb = a["env"].get(key), b["env"].get(key)
                if va is not None and vb is not None:
                    da, db = lin_add(a["cov"], va, -1), lin_add(b["cov"], vb, -1)
                    if da == db:
                        out = self._copy(a)
                        out["env"] = {k: x for k, x in a["env"].items() if b["env"].get(k) == x and k != key}
                        out["env"][key] = {"#" + alias: 1}
                        out["cov"] = lin_add({"#" + alias: 1}, da)
                        return out
            raise Unknown("branches at %s leave different written lengths (%s vs %s)" % (loc_str(node), _show(a["cov"]), _show(b["cov"])))
        out = self._copy(a)
        out["env"] = {k: v for k, v in a["env"].items() if b["env"].get(k) == v}
        return out


def _show(l):
    if not l:
        return "0"
    parts = []
    for s, c in sorted(l.items()):
        if s == "":
            parts.append(str(c))
        else:
            parts.append(("%d*" % c if c != 1 else "") + s.split(":")[-1] if s.startswith("ret") else (("%d*" % c if c != 1 else "") + s))
    return " + ".join(parts)


AUDITED_COVER = {
    "nop_padding": "writes `remaining` bytes in pieces until remaining is 0 and returns the requested length; "
                   "equality of the sum of pieces with the argument is a loop invariant over values",
}


def cover_rule(chk, prog, roles, rule="COVER"):
    lib = prog.lib_functions()
    enc = sorted((EFF.reachable(roles.g, [roles.encode]) | {roles.padder}) & set(lib))
    writers = [fn for fn in enc if any(qtype(p).replace("const ", "") in ("uint8_t *", "unsigned char *") for p in prog.params(lib[fn]))]
    # bottom-up over the call graph
    order, seen = [], set()

    def visit(n):
        if n in seen:
            return
        seen.add(n)
        for c in sorted(roles.g.get(n, ())):
            if c in writers:
                visit(c)
        order.append(n)
    for w in writers:
        visit(w)
    summ = {}
    n = 0
    for fn in order:
        f = lib[fn]
        key = "%s/%s" % (rule, fn)
        n += 1
        try:
            rets = Cover(prog, fn, f, summ).run()
        except Gap as g:
            chk.bad(rule, key, loc_str(g.node), "%s writes every byte below the length it returns" % fn, g.text)
            summ[fn] = "exact"
            continue
        except Unknown as u:
            chk.broken(rule, key, loc_str(f), "the write pattern of %s is one the coverage analysis understands" % fn, str(u))
            continue
        if fn in AUDITED_COVER:
            # the stores are contiguous (checked above); the returned length is an audited loop invariant
            summ[fn] = "exact"
            chk.ok(rule, key + "/contiguous", loc_str(f), "%s stores contiguously from the start of its destination" % fn)
            chk.ok(rule, key + "/audited-length", loc_str(f), "audited: %s" % AUDITED_COVER[fn])
            continue
        ok = True
        why = ""
        for node, r, cov in rets:
            if r is None:
                ok, why = None, "return value at %s is not a linear expression" % loc_str(node)
                break
            dl = lin_add(r, cov, -1)
            d = lin_const_value(dl)
            if d is None and all(sym.startswith("ret") for sym in dl if sym):
                ok, why = False, ("on a path it returns %s after writing %s leading bytes: equal only for one particular length returned by %s" %
                                  (_show(r), _show(cov), ", ".join(sorted(sym.split(":")[-1] for sym in dl if sym))))
                break
            if d is None:
                ok, why = None, "returns %s with %s bytes written" % (_show(r), _show(cov))
                break
            if d != 0:
                ok, why = False, "returns %s but wrote %s leading bytes" % (_show(r), _show(cov))
                break
        if ok is None:
            chk.broken(rule, key, loc_str(f), "the returned length of %s can be compared with the bytes written" % fn, why)
            continue
        chk.require(ok, rule, key, loc_str(f), "%s returns exactly the number of leading destination bytes it wrote (no gap, no excess)" % fn, why)
        summ[fn] = "exact"
    chk.floor("code-writing functions", n, 7)
    return n
