"""Path facts at call sites: which comparisons with constants are known to hold (on every path) when a call is made.

A small must-analysis over the structured flow interpreter.  A fact is (subject text, constant, equal?) - `subject == c`
or `subject != c` - established by an if/while condition, a switch case or a FAIL_IF-style early return, and killed when
anything the subject mentions is assigned, has its address taken or is passed to a call by non-const pointer.  Locals
initialised once from an expression are looked through, so `const char t = x->type; if (t == 'i')` yields the fact about
`x->type` as well."""
import re
from .core import (ConstEval, kids, strip, walk, expr_str, qtype, ref_name, callee_name, call_args)
from .flow import Flow

NEG = {"==": "!=", "!=": "=="}


class GuardDomain:
    def __init__(self, prog, f):
        self.prog, self.f = prog, f
        self.ce = ConstEval(prog)
        self.calls = []         # (call node, frozenset of facts)
        self.stores = []        # (assignment node, frozenset of facts)
        self.alias = {}         # local name -> initialiser text (single-assignment locals)
        assigned = {}
        for m in walk(prog.body(f)):
            if m.get("kind") == "VarDecl" and kids(m):
                self.alias[m["name"]] = expr_str(strip(kids(m)[-1], casts=True))
            if m.get("kind") in ("BinaryOperator", "CompoundAssignOperator") and m.get("opcode", "").endswith("=") and \
                    m.get("opcode") not in ("==", "!=", "<=", ">="):
                nm = ref_name(strip(kids(m)[0], casts=True))
                if nm:
                    assigned[nm] = assigned.get(nm, 0) + 1
            if m.get("kind") == "UnaryOperator" and m.get("opcode") in ("++", "--", "&"):
                nm = ref_name(strip(kids(m)[0], casts=True))
                if nm:
                    assigned[nm] = assigned.get(nm, 0) + 1
        for nm in assigned:
            self.alias.pop(nm, None)

    def copy(self, s): return s
    def join(self, a, b): return a & b
    def equal(self, a, b): return a == b
    def widen(self, o, n): return n

    def _kill(self, s, names):
        if not names:
            return s
        pat = re.compile(r"(?<![\w>.])(%s)\b" % "|".join(re.escape(n) for n in names))
        return frozenset(f for f in s if not pat.search(f[0]))

    def decl(self, vd, s):
        for c in kids(vd):
            s = self.eval(c, s)
        return self._kill(s, [vd["name"]])

    def eval(self, e, s):
        e0 = strip(e)
        if not e0:
            return s
        k, ks = e0.get("kind"), kids(e0)
        if k == "CallExpr":
            for a in call_args(e0):
                s = self.eval(a, s)
            self.calls.append((e0, s))
            # what the callee may modify through its pointer arguments
            names = []
            for a in call_args(e0):
                a0 = strip(a, casts=True)
                if a0.get("kind") == "UnaryOperator" and a0.get("opcode") == "&":
                    names.append(ref_name(strip(kids(a0)[0], casts=True)))
                elif ("*" in qtype(a0) or "[" in qtype(a0)) and "const" not in qtype(a0) and not self._to_const(a):
                    names.append(ref_name(a0))
            return self._kill(s, [n for n in names if n])
        if k in ("BinaryOperator", "CompoundAssignOperator") and e0.get("opcode", "").endswith("=") and \
                e0.get("opcode") not in ("==", "!=", "<=", ">="):
            s = self.eval(ks[1], s)
            self.stores.append((e0, s))
            l = strip(ks[0], casts=True)
            s = frozenset(f for f in s if f[0] != expr_str(l))
            nm = ref_name(l) if l.get("kind") == "DeclRefExpr" else None
            return self._kill(s, [nm] if nm else [])
        if k == "UnaryOperator" and e0.get("opcode") in ("++", "--"):
            l = strip(ks[0], casts=True)
            s = frozenset(f for f in s if f[0] != expr_str(l))
            return self._kill(s, [ref_name(l)] if l.get("kind") == "DeclRefExpr" else [])
        for c in ks:
            s = self.eval(c, s)
        return s

    @staticmethod
    def _to_const(a):
        """is the argument converted to a pointer-to-const parameter type on its way into the call"""
        n = a
        while n.get("kind") in ("ImplicitCastExpr", "CStyleCastExpr", "ParenExpr"):
            if "const" in qtype(n):
                return True
            n = kids(n)[0]
        return False

    def _subjects(self, e):
        t = expr_str(strip(e, casts=True))
        out = [t]
        if t in self.alias:
            out.append(self.alias[t])
        return out

    def assume(self, e, truth, s):
        e0 = strip(e)
        if e0.get("kind") == "BinaryOperator" and e0.get("opcode") in NEG:
            l, r = kids(e0)
            for a, b in ((l, r), (r, l)):
                c = self.ce.try_eval(b)
                if c is not None and self.ce.try_eval(a) is None:
                    eq = (e0["opcode"] == "==") == truth
                    return s | frozenset((t, c, eq) for t in self._subjects(a))
            return s
        if self.ce.try_eval(e0) is None:
            # bare truthiness: subject != 0
            return s | frozenset((t, 0, not truth) for t in self._subjects(e0))
        return s

    def assume_case(self, cnd, case, s):
        c = self.ce.try_eval(case)
        if c is None:
            return s
        return s | frozenset((t, c, True) for t in self._subjects(cnd))

    def assume_default(self, cnd, cases, s):
        out = s
        for cs in cases:
            c = self.ce.try_eval(cs)
            if c is not None:
                out = out | frozenset((t, c, False) for t in self._subjects(cnd))
        return out

    def ret(self, n, s): pass


def facts_at_calls(prog, fname):
    """[(call node, facts that hold on every path reaching it)]; a call visited several times gets the intersection"""
    f = prog.fn(fname)
    dom = GuardDomain(prog, f)
    Flow(dom).function(prog, f, frozenset())
    merged = {}
    order = []
    for c, s in dom.calls:
        if id(c) in merged:
            merged[id(c)] = (c, merged[id(c)][1] & s)
        else:
            merged[id(c)] = (c, s)
            order.append(id(c))
    return [merged[i] for i in order]


def holds(facts, subject_pred, const, equal):
    """is `subject == const` (equal=True) or `subject != const` known for some subject accepted by subject_pred"""
    for t, c, eq in facts:
        if c == const and eq == equal and subject_pred(t):
            return True
    return False


def facts_at_stores(prog, fname):
    """[(assignment node, facts that hold on every path reaching it)]"""
    f = prog.fn(fname)
    dom = GuardDomain(prog, f)
    Flow(dom).function(prog, f, frozenset())
    merged, order = {}, []
    for c, s in dom.stores:
        if id(c) in merged:
            merged[id(c)] = (c, merged[id(c)][1] & s)
        else:
            merged[id(c)] = (c, s)
            order.append(id(c))
    return [merged[i] for i in order]
