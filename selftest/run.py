#!/usr/bin/env python3
"""Checker self-test: apply catalogued one-point edits to a scratch copy of the
sources (never to /repo) and run the static checks against the copy.

  selftest/run.py [--prop Cnn] [--id ID] [--prefix IDPREFIX] [-v]

A `mutant` must be reported (exit 1 and a violation whose key contains the
expected text); a `benign` edit must stay silent (exit 0).  Scratch copies live
under mktemp and are removed.  Results never produce VIOLATION lines for the
real tree.
"""
import json
import os
import re
import shutil
import subprocess
import sys
import tempfile
from concurrent.futures import ThreadPoolExecutor

HERE = os.path.dirname(os.path.abspath(__file__))
VERIF = os.path.dirname(HERE)
REPO = os.environ.get("VERIF_REPO", "/repo")


def load_catalogue():
    cat = []
    d = os.path.join(HERE, "catalogue")
    for f in sorted(os.listdir(d)):
        if f.endswith(".json"):
            with open(os.path.join(d, f)) as fh:
                cat += json.load(fh)
    return cat


def make_copy(dst):
    for sub in ("src", "tools"):
        os.makedirs(os.path.join(dst, sub))
        for f in os.listdir(os.path.join(REPO, sub)):
            if f.endswith((".c", ".h")):
                shutil.copy(os.path.join(REPO, sub, f), os.path.join(dst, sub, f))
    for f in ("Makefile.am", "config.h"):
        if os.path.exists(os.path.join(REPO, f)):
            shutil.copy(os.path.join(REPO, f), os.path.join(dst, f))
    if os.path.isdir(os.path.join(REPO, "man")):
        shutil.copytree(os.path.join(REPO, "man"), os.path.join(dst, "man"))


def apply_edit(root, e):
    edits = e["edits"] if "edits" in e else [e]
    for ed in edits:
        p = os.path.join(root, ed["file"])
        with open(p) as f:
            s = f.read()
        if ed.get("all"):
            n = s.count(ed["old"])
            s2 = re.sub(ed["old"], ed["new"], s) if ed.get("regex") else s.replace(ed["old"], ed["new"])
            if s2 == s:
                return "edit changed nothing"
            with open(p, "w") as f:
                f.write(s2)
            continue
        if ed.get("regex"):
            n = len(re.findall(ed["old"], s, flags=re.M | re.S))
            s2 = re.sub(ed["old"], ed["new"], s, count=1, flags=re.M | re.S)
        else:
            n = s.count(ed["old"])
            s2 = s.replace(ed["old"], ed["new"], 1)
        occ = ed.get("occurrence")
        if occ is not None and not ed.get("regex"):
            parts = s.split(ed["old"])
            if len(parts) <= occ:
                return "edit text occurs %d times, wanted occurrence %d" % (n, occ)
            s2 = ed["old"].join(parts[:occ + 1]) + ed["new"] + ed["old"].join(parts[occ + 1:])
        elif n != 1 and not ed.get("any"):
            return "edit text occurs %d times in %s (expected once)" % (n, ed["file"])
        if s2 == s:
            return "edit changed nothing"
        with open(p, "w") as f:
            f.write(s2)
    return None


def compiles(root):
    for sub, files in (("src", None), ("tools", None)):
        for f in sorted(os.listdir(os.path.join(root, sub))):
            if f.endswith(".c"):
                p = subprocess.run(["clang", "-fsyntax-only", "-std=gnu99", "-I./src", "-I.", "-DHAVE_CONFIG_H",
                                    "-Wno-everything", os.path.join(sub, f)], cwd=root, stdout=subprocess.PIPE,
                                   stderr=subprocess.PIPE)
                if p.returncode != 0:
                    return p.stderr.decode()[:400]
    return None


def run_one(e, verbose=False):
    tmp = tempfile.mkdtemp(prefix="verif-selftest-")
    try:
        root = os.path.join(tmp, "repo")
        os.makedirs(root)
        make_copy(root)
        err = apply_edit(root, e)
        if err:
            return {"id": e["id"], "ok": False, "why": "catalogue entry stale: " + err}
        cerr = compiles(root)
        if cerr:
            return {"id": e["id"], "ok": False, "why": "edit does not compile: " + cerr}
        env = dict(os.environ, VERIF_REPO=root, VERIF_SCRATCH_OUT=os.path.join(tmp, "o"))
        res = {"id": e["id"], "props": {}}
        ok = True
        for prop in e["props"]:
            p = subprocess.run([sys.executable, os.path.join(VERIF, "bin", "check"), prop, "--tier", "quick"],
                               env=env, stdout=subprocess.PIPE, stderr=subprocess.PIPE, cwd=VERIF)
            out = p.stdout.decode() + p.stderr.decode()
            if e["kind"] == "mutant":
                hit = p.returncode == 1 and any(
                    e["expect"] in ln for ln in out.split("\n") if not ln.startswith(("VIOLATION", "KNOWN", "ANALYSIS")))
                good = hit
            else:
                good = p.returncode == 0 and "VIOLATION" not in out
            res["props"][prop] = {"exit": p.returncode, "good": good}
            if not good:
                ok = False
                res["output"] = out[-1500:]
            elif verbose:
                res["output"] = "\n".join(l for l in out.split("\n") if e.get("expect", "\0") in l)[:600]
        res["ok"] = ok
        return res
    finally:
        shutil.rmtree(tmp, ignore_errors=True)


def main(argv):
    prop = ident = None
    verbose = "-v" in argv
    if "--prop" in argv:
        prop = argv[argv.index("--prop") + 1]
    if "--id" in argv:
        ident = argv[argv.index("--id") + 1]
    prefix = argv[argv.index("--prefix") + 1] if "--prefix" in argv else ""
    cat = load_catalogue()
    sel = [e for e in cat if (prop is None or prop in e["props"]) and (ident is None or e["id"] == ident) and e["id"].startswith(prefix)]
    if prop:
        for e in sel:
            e["props"] = [prop]
    with ThreadPoolExecutor(max_workers=12) as ex:
        results = list(ex.map(lambda e: run_one(e, verbose), sel))
    bad = [r for r in results if not r["ok"]]
    nm = sum(1 for e in sel if e["kind"] == "mutant")
    nb = len(sel) - nm
    for r in results:
        if verbose or not r["ok"]:
            print(("ok   " if r["ok"] else "FAIL ") + r["id"], r.get("why", ""), r.get("props", ""))
            if r.get("output"):
                print("    " + r["output"].replace("\n", "\n    "))
    print("selftest: %d mutants, %d benign edits, %d failures" % (nm, nb, len(bad)))
    return 0 if not bad else 2


if __name__ == "__main__":
    sys.exit(main(sys.argv[1:]))
